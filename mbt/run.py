#!/usr/bin/env python3
"""Entry point of every registered check:  python3 mbt/run.py <ID> [--tier quick|thorough] [--replay path]

exit 0  property held on everything explored (KNOWN-FINDING lines allowed)
exit 1  VIOLATION property=<id> replay=<path>
exit 2  infrastructure failure / inconclusive (never a verdict)
"""
import argparse, importlib, os, sys, traceback

sys.path.insert(0, os.path.dirname(os.path.abspath(__file__)))
import lib


def main():
    ap = argparse.ArgumentParser()
    ap.add_argument("prop")
    ap.add_argument("--tier", default=os.environ.get("VERIF_TIER", "quick"), choices=["quick", "thorough"])
    ap.add_argument("--replay", default=None)
    ap.add_argument("--selftest", action="store_true")
    a = ap.parse_args()
    prop = a.prop.upper()
    rc = 2
    try:
        mod = importlib.import_module("props." + prop.lower())
        lab, bt = lib.build_lab()
        if a.replay:
            rc = mod.replay(lab, a.replay)
        elif a.selftest:
            rc = mod.selftest(lab)
        else:
            rc = mod.run(a.tier, lab)
    except lib.Infra as e:
        print("INFRA %s: %s" % (prop, e), file=sys.stderr)
        rc = 2
    except Exception:
        traceback.print_exc()
        rc = 2
    finally:
        lib.cleanup()
    sys.exit(rc)


if __name__ == "__main__":
    main()
