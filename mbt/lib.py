"""Shared engine for the model-based checks (python3 stdlib only).

  build_lab()        go build -tags verif of the harness against /repo's working tree
  tlc(...)           run TLC under timeout in a scratch copy of /verif/spec, parse stats/SCN lines
  Findings           known-findings.json handling (never written at run time)
  Check              evidence + verdict bookkeeping for one property run
"""
import json, os, re, shutil, subprocess, sys, tempfile, time, hashlib

VERIF = os.path.dirname(os.path.dirname(os.path.abspath(__file__)))
SPEC = os.path.join(VERIF, "spec")
HARNESS = os.path.join(VERIF, "harness")
REPO = os.environ.get("VERIF_REPO", "/repo")
NCPU = os.cpu_count() or 4

GOENV = dict(os.environ, GOFLAGS="-mod=mod", GOPROXY="off", GOSUMDB="off", GOTOOLCHAIN="local",
             CGO_ENABLED=os.environ.get("CGO_ENABLED", "1"))


class Infra(Exception):
    """infrastructure failure: exit 2, never a verdict"""


_scratch = None


def scratch():
    """per-run scratch directory outside /repo and /verif, removed at exit"""
    global _scratch
    if _scratch is None:
        base = os.environ.get("VERIF_SCRATCH_BASE", "/var/tmp")
        os.makedirs(base, exist_ok=True)
        _scratch = tempfile.mkdtemp(prefix="verif-", dir=base)
    return _scratch


def cleanup():
    global _scratch
    if _scratch and os.path.isdir(_scratch):
        shutil.rmtree(_scratch, ignore_errors=True)
    _scratch = None


def seed():
    try:
        return int(os.environ.get("VERIF_SEED", "1"))
    except ValueError:
        return 1


# ------------------------------------------------------------------ build

def build_lab():
    """Build the lab from /repo's current working tree with hooks on. The go.mod of the
    harness replaces the honeytrap module by /repo, so the build always reflects edits."""
    out = os.path.join(scratch(), "lab")
    # go.sum of the repo is the checksum database we have (offline)
    shutil.copyfile(os.path.join(REPO, "go.sum"), os.path.join(HARNESS, "go.sum"))
    t0 = time.time()
    p = subprocess.run(["go", "build", "-tags", "verif", "-o", out, "./cmd/lab"], cwd=HARNESS,
                       env=GOENV, stdout=subprocess.PIPE, stderr=subprocess.STDOUT, text=True)
    if p.returncode != 0:
        raise Infra("harness build failed (does /repo still compile?):\n" + p.stdout[-4000:])
    return out, time.time() - t0


def build_lab_race():
    """the same lab with Go's race detector compiled in (needs cgo and the race runtime of the installed toolchain);
    -> path or None when the toolchain cannot build it"""
    out = os.path.join(scratch(), "lab-race")
    p = subprocess.run(["go", "build", "-race", "-tags", "verif", "-o", out, "./cmd/lab"], cwd=HARNESS,
                       env=GOENV, stdout=subprocess.PIPE, stderr=subprocess.STDOUT, text=True)
    return out if p.returncode == 0 else None


def race_reports(prefix):
    """the reports the race detector wrote (GORACE log_path=prefix): -> list of (is_map_race, first honeytrap frames, text)"""
    out = []
    d, base = os.path.split(prefix)
    for f in sorted(os.listdir(d)):
        if not f.startswith(base):
            continue
        for b in open(os.path.join(d, f), errors="replace").read().split("=================="):
            if "DATA RACE" not in b:
                continue
            frames = [ln.strip()[:-2].replace("github.com/honeytrap/honeytrap/", "") for ln in b.splitlines()
                      if "github.com/honeytrap/honeytrap" in ln and "()" in ln]
            out.append(("runtime.map" in b, frames[:3], b))
    return out


def run_lab(lab, args, timeout=600, env=None, stdin=None):
    e = dict(os.environ)
    e["VERIF_SCRATCH"] = scratch()
    if env:
        e.update(env)
    try:
        p = subprocess.run([lab] + list(args), env=e, stdout=subprocess.PIPE, stderr=subprocess.PIPE,
                           timeout=timeout, input=stdin)
    except subprocess.TimeoutExpired as ex:
        return 124, (ex.stdout or b"").decode("utf8", "replace"), (ex.stderr or b"").decode("utf8", "replace")
    return p.returncode, p.stdout.decode("utf8", "replace"), p.stderr.decode("utf8", "replace")


# ------------------------------------------------------------------ TLC

class TlcResult:
    def __init__(self):
        self.rc = None
        self.out = ""
        self.generated = 0
        self.distinct = 0
        self.depth = 0
        self.scn = []          # parsed SCN payloads
        self.violated = None   # name of violated invariant/property, if any
        self.wall = 0.0
        self.coverage_zero = []

    @property
    def ok(self):
        return self.rc == 0 and self.violated is None


_scn_re = re.compile(r'^<<"SCN", "(.*)">>$')


def _unescape_tla(s):
    # TLC prints the string with \" and \\ escapes
    return s.replace('\\"', '"').replace('\\\\', '\\')


def tlc(module, cfg=None, workers=None, simulate=None, depth=None, tlc_seed=None, timeout=180,
        extra_files=None, coverage=False, deque=False, constants=None, want_scn=True, heap=None):
    """Run TLC on spec/<module>.tla with spec/<cfg> in a scratch copy of the spec directory.
    constants: dict name -> TLA text, appended to a copy of the cfg as CONSTANT lines.
    extra_files: dict filename -> content, placed beside the spec (traces).
    -simulate: `num` is per worker and every simulation worker draws the SAME RandomElement sequence for a given
    seed (measured: 4 workers x 50 = 50 distinct behaviours), so a simulation asked for with w workers is run as
    w single-worker TLC processes in parallel with seeds derived from tlc_seed, and their results are merged."""
    w = workers or NCPU
    if simulate is None or w == 1:
        return _tlc(module, cfg, w, simulate, depth, tlc_seed, timeout, extra_files, coverage, deque, constants, want_scn, heap)
    import concurrent.futures
    base = 1 if tlc_seed is None else tlc_seed
    with concurrent.futures.ThreadPoolExecutor(max_workers=w) as ex:
        futs = [ex.submit(_tlc, module, cfg, 1, simulate, depth, base * 1000 + i, timeout, extra_files, coverage, deque,
                          constants, want_scn, heap) for i in range(w)]
        parts = [f.result() for f in futs]
    r = parts[0]
    for q in parts[1:]:
        r.scn += q.scn
        r.generated += q.generated
        r.distinct += q.distinct
        r.out += q.out
        r.wall = max(r.wall, q.wall)
        if q.rc != 0 and r.rc == 0:
            r.rc = q.rc
        r.violated = r.violated or q.violated
    return r


def _tlc(module, cfg, workers, simulate, depth, tlc_seed, timeout, extra_files, coverage, deque, constants, want_scn, heap):
    wd = tempfile.mkdtemp(prefix="tlc-", dir=scratch())
    for f in os.listdir(SPEC):
        if f.endswith(".tla") or f.endswith(".cfg"):
            shutil.copyfile(os.path.join(SPEC, f), os.path.join(wd, f))
    for name, content in (extra_files or {}).items():
        dst = os.path.join(wd, name)
        if isinstance(content, str) and os.path.isabs(content) and os.path.exists(content):
            shutil.copyfile(content, dst)
        else:
            with open(dst, "w") as fh:
                fh.write(content)
    cfg = cfg or (module + ".cfg")
    if constants:
        with open(os.path.join(wd, cfg)) as fh:
            text = fh.read()
        for k, v in constants.items():
            text = re.sub(r'(?m)^\s*CONSTANTS?\s+%s\s*=.*$' % re.escape(k), '', text)
            text += "\nCONSTANT %s = %s\n" % (k, v)
        cfg = "gen_" + cfg
        with open(os.path.join(wd, cfg), "w") as fh:
            fh.write(text)
    tmp = os.path.join(wd, "tmp")
    os.makedirs(tmp)
    jopts = "-Djava.io.tmpdir=%s" % tmp
    if deque:
        jopts += " -Dtlc2.tool.queue.IStateQueue=StateDeque"
    if heap:
        jopts += " -Xmx%s" % heap
    jopts += " -Xss64m"
    env = dict(os.environ, JAVA_TOOL_OPTIONS=jopts)
    w = workers
    cmd = ["timeout", str(int(timeout)), "tlc", "-noGenerateSpecTE", "-metadir", os.path.join(wd, "meta"),
           "-workers", str(w), "-config", cfg]
    if simulate is not None:
        cmd += ["-simulate", "num=%d" % simulate]
    if depth is not None:
        cmd += ["-depth", str(depth)]
    if tlc_seed is not None:
        cmd += ["-seed", str(tlc_seed)]
    if coverage:
        cmd += ["-coverage", "1"]
    cmd += [module + ".tla"]
    r = TlcResult()
    t0 = time.time()
    p = subprocess.run(cmd, cwd=wd, env=env, stdout=subprocess.PIPE, stderr=subprocess.STDOUT)
    r.wall = time.time() - t0
    r.rc = p.returncode
    out = p.stdout.decode("utf8", "replace")
    r.out = out
    for line in out.splitlines():
        if want_scn and line.startswith('<<"SCN"'):
            m = _scn_re.match(line.strip())
            if m:
                try:
                    r.scn.append(json.loads(_unescape_tla(m.group(1))))
                except ValueError:
                    raise Infra("unparseable SCN line from TLC: " + line[:300])
            continue
        m = re.match(r'^(\d+) states generated, (\d+) distinct states found', line)
        if m:
            r.generated, r.distinct = int(m.group(1)), int(m.group(2))
        m = re.match(r'^The depth of the complete state graph search is (\d+)', line)
        if m:
            r.depth = int(m.group(1))
        m = re.match(r'^Error: (?:Invariant|Action property|Temporal property|Property) (\S+) (?:is|was) violated', line)
        if m:
            r.violated = m.group(1)
        if 'Temporal properties were violated' in line:
            r.violated = r.violated or 'temporal'
        if line.startswith("Error: Postcondition") or "postcondition" in line.lower() and "violated" in line.lower():
            r.violated = r.violated or 'postcondition'
        m = re.match(r'^<(\w+) line .*>: (\d+):(\d+)$', line)
        if m and coverage and m.group(2) == "0" and m.group(3) == "0":
            r.coverage_zero.append(m.group(1))
    if simulate is not None and r.generated == 0:
        m = re.search(r'The number of states generated: (\d+)', out)
        if m:
            r.generated = int(m.group(1))
            r.distinct = r.generated
    r.wd = wd
    if r.rc == 124:
        raise Infra("TLC timed out after %ss on %s/%s" % (timeout, module, cfg))
    return r


def tlc_must_pass(r, what):
    if not r.ok:
        tail = "\n".join(r.out.splitlines()[-40:])
        raise Infra("TLC design check failed for %s (rc=%s violated=%s):\n%s" % (what, r.rc, r.violated, tail))


def rejected_at(r):
    m = re.search(r'<<"REJECTED_AT", (\d+)>>', r.out)
    return int(m.group(1)) if m else None


# ------------------------------------------------------------------ findings

class Findings:
    def __init__(self):
        path = os.path.join(VERIF, "known-findings.json")
        self.entries = []
        if os.path.exists(path):
            with open(path) as fh:
                self.entries = json.load(fh)

    def open_for(self, prop):
        return [e for e in self.entries if e.get("property") == prop and e.get("status") == "open"]

    def match(self, prop, signature):
        for e in self.open_for(prop):
            if e.get("signature") == signature:
                return e
        return None


# ------------------------------------------------------------------ check bookkeeping

class Check:
    def __init__(self, prop, tier, level):
        self.prop = prop
        self.tier = tier
        self.level = level
        self.t0 = time.time()
        self.cov = {"samples": []}
        self.assumptions = []
        self.violations = []     # (signature, replay path, text)
        self.known = {}          # signature -> text
        self.findings = Findings()
        self.states = 0
        self.transitions = 0
        self.notes = []

    def add_tlc(self, r, label):
        self.states += r.distinct
        self.transitions += r.generated
        self.cov.setdefault("tlc_runs", []).append(
            {"what": label, "generated": r.generated, "distinct": r.distinct, "depth": r.depth,
             "wall_s": round(r.wall, 2)})

    def sample(self, x, cap=5):
        if len(self.cov["samples"]) < cap:
            self.cov["samples"].append(x)

    def disagree(self, signature, what, replay_obj):
        """A reproduced disagreement between the real code and the specification."""
        if self.findings.match(self.prop, signature):
            if signature not in self.known:
                self.known[signature] = what
            return False
        d = os.path.join(VERIF, "replays", self.prop)
        os.makedirs(d, exist_ok=True)
        h = hashlib.sha1(json.dumps(replay_obj, sort_keys=True, default=str).encode()).hexdigest()[:10]
        path = os.path.join(d, "%s-%s.json" % (re.sub(r'[^A-Za-z0-9_.-]+', '_', signature)[:80], h))
        with open(path, "w") as fh:
            json.dump({"property": self.prop, "signature": signature, "what": what, "replay": replay_obj},
                      fh, indent=1, default=str)
        if len(self.violations) < 50:
            self.violations.append((signature, path, what))
        return True

    def finish(self):
        wall = time.time() - self.t0
        cov = dict(self.cov)
        if self.level == "model_checking":
            cov.setdefault("states", self.states)
            cov.setdefault("transitions", self.transitions)
            cov.setdefault("traces_validated_against_impl", 0)
        if not cov["samples"]:
            cov["samples"] = ["(none recorded)"]
        cov["known_findings_seen"] = sorted(self.known)
        if self.notes:
            cov["notes"] = self.notes
        ev = {"property_id": self.prop, "tier": self.tier, "seed": seed(), "level": self.level,
              "coverage": cov, "assumptions": self.assumptions, "wall_s": round(wall, 2),
              "violations": len(self.violations)}
        os.makedirs(os.path.join(VERIF, "evidence"), exist_ok=True)
        with open(os.path.join(VERIF, "evidence", self.prop + ".json"), "w") as fh:
            json.dump(ev, fh, indent=1, default=str)
        for sig in sorted(self.known):
            print("KNOWN-FINDING: property=%s %s: %s" % (self.prop, sig, self.known[sig]))
        seen = set()
        for sig, path, what in self.violations:
            if sig in seen:
                continue
            seen.add(sig)
            print("VIOLATION property=%s replay=%s" % (self.prop, path))
            print("  signature=%s: %s" % (sig, what))
        print("%s %s tier=%s seed=%d wall=%.1fs violations=%d known=%d" % (
            self.prop, "FAIL" if self.violations else "ok", self.tier, seed(), wall,
            len(self.violations), len(self.known)))
        return 1 if self.violations else 0


def write_ndjson(path, rows):
    with open(path, "w") as fh:
        for r in rows:
            fh.write(json.dumps(r, separators=(",", ":")))
            fh.write("\n")


def read_ndjson(path):
    out = []
    with open(path) as fh:
        for line in fh:
            line = line.strip()
            if line:
                out.append(json.loads(line))
    return out


def run_sharded(lab, sub, scenarios, shards=None, extra_args=None, timeout=1500, env=None, tag=""):
    """Split scenarios (dicts with 'id') over several lab processes: lab <sub> -in X -out Y [extra]."""
    import threading
    shards = max(1, min(shards or NCPU, len(scenarios) or 1))
    results, errs = [], []

    def work(k):
        part = scenarios[k::shards]
        inp = os.path.join(scratch(), "%s%s-in-%d.ndjson" % (sub, tag, k))
        outp = os.path.join(scratch(), "%s%s-out-%d.ndjson" % (sub, tag, k))      # (tag: two calls for one sub-command at the same time)
        write_ndjson(inp, part)
        args = [sub, "-in", inp, "-out", outp] + [a.replace("{shard}", str(k)) for a in (extra_args or [])]
        rc, so, se = run_lab(lab, args, timeout=timeout, env=env)
        rows = read_ndjson(outp) if os.path.exists(outp) else []
        if rc != 0:
            errs.append("lab %s shard %d rc=%d: %s" % (sub, k, rc, se[-1500:]))
        results.extend(rows)

    ts = [threading.Thread(target=work, args=(k,)) for k in range(shards)]
    [t.start() for t in ts]
    [t.join() for t in ts]
    if errs:
        raise Infra("; ".join(errs[:3]))
    results.sort(key=lambda r: r.get("id", 0))
    return results
