"""Shared driver of the connection life-cycle explorations (C01, C09): turns the dialogue shapes TLC
generates (MC_Dialogue) into byte-level scenarios for every service, runs them in a crash-isolated lab
child against the real server hosting all 24 director-less services, and attributes a dying child to the
scenarios in flight."""
import json, os, random
import lib, protocols as P

SSH_REQUESTS = [
    [("env", "00000001"), ("shell", "")],                       # length prefix, nothing behind it
    [("env", "01")], [("env", "0102")], [("env", "010203")],     # 1..3 bytes: not even a length
    [("exec", "0000000961")],                                    # announces 9 bytes, has 1
    [("exec", "02")], [("exec", "000000026c73")],
    [("subsystem", "00")], [("subsystem", "0000000473667470")],
    [("tcpip-forward", "00")], [("tcpip-forward", "000000093132372e302e302e31000000")],
    [("pty-req", "0000000578746572") ], [("window-change", ""), ("shell", "")],
    [("unknown-request", "ffffffff")],
]


def shapes(ck, tier, seed):
    r = lib.tlc("MC_Dialogue", timeout=200, constants={"MaxOps": "4", "Sim": "FALSE"}, workers=4)
    lib.tlc_must_pass(r, "dialogue shapes (small, exhaustive)")
    ck.add_tlc(r, "MC_Dialogue: prefix 0..4 x one operation of 13 x 3 endings, exhaustive")
    n = 120 if tier == "quick" else 4000
    r2 = lib.tlc("MC_Dialogue", timeout=200, constants={"MaxOps": "4" if tier == "quick" else "10", "Sim": "TRUE"},
                 simulate=max(1, n // 8), depth=3, tlc_seed=seed, workers=8)
    lib.tlc_must_pass(r2, "dialogue shapes (simulate)")
    ck.add_tlc(r2, "MC_Dialogue: random shapes (-simulate)")
    return r.scn, r2.scn


def dialogue_bytes(g, shape):
    """-> list of byte strings to send, in order"""
    canon, toks = g["canon"], g["tokens"]
    out = list(canon[:min(shape["prefix"], len(canon))])
    nxt = len(out)
    for op in shape["ops"]:
        if op["o"] == "tok":
            out.append(toks[(op["i"] - 1) % len(toks)])
        elif op["o"] == "trunc":
            t = canon[nxt % len(canon)]
            out.append(t[:max(1, len(t) // 2)])
        elif op["o"] == "repeat":
            out.append(out[-1] if out else canon[0])
        else:
            out.append(P.RAW[op["i"]])
    return out


BIGNUMS = [b"9999999999999", b"4294967296", b"2147483648", b"18446744073709551616"]
_digits = __import__("re").compile(rb"\d+")


def bignum_variants(g, limit=40):
    """every message of the grammar with one of its decimal numbers replaced by a huge one (length and count fields are
    where a parser sizes a buffer before it has seen the data): -> list of (prefix length, message bytes)"""
    out = []
    msgs = [(i, m) for i, m in enumerate(g["canon"])] + [(len(g["canon"]), t) for t in g["tokens"]]
    for pre, m in msgs:
        runs = list(_digits.finditer(m))[:3]
        for r in runs:
            for big in BIGNUMS:
                out.append((pre, m[:r.start()] + big + m[r.end():]))
                if len(out) >= limit:
                    return out
    return out


def scenario(svc_key, shape, sid, rng, silent_ok=True):
    g = P.GRAMMAR[svc_key]
    svc = g.get("svc", svc_key)
    port = P.PORTS[svc]
    parts = dialogue_bytes(g, shape)
    if shape.get("literal") is not None:
        parts = list(g["canon"][:min(shape["prefix"], len(g["canon"]))]) + [shape["literal"]]
    ip = "10.%d.%d.%d" % (20 + sid // 60000, (sid // 250) % 240, 1 + sid % 250)
    steps = []
    if g.get("udp"):
        for k, b in enumerate(parts or [b""]):
            steps.append({"op": "udp", "laddr": "127.0.0.1:%d" % port, "raddr": "%s:%d" % (ip, 3000 + k), "hex": b.hex(), "timeout_ms": 6000})
        return {"id": sid, "svc": svc_key, "steps": steps, "ending": "datagram"}
    ending = shape["ending"]
    if ending.startswith("silent") and not silent_ok:
        ending = "linger"
    if ending == "silent!":
        ending = "silent"
    for c in range(shape["k"]):
        steps.append({"op": "open", "c": "c%d" % c, "laddr": "127.0.0.1:%d" % port, "raddr": "%s:%d" % (ip, 3000 + c)})
    for b in parts:
        for c in range(shape["k"]):
            cuts = []
            if shape["seg"] == "split" and len(b) > 1:
                cuts = [rng.randint(1, len(b) - 1)]
            elif shape["seg"] == "dribble":
                cuts = list(range(1, min(len(b), 40)))
            steps.append({"op": "send", "c": "c%d" % c, "hex": b.hex(), "cuts": cuts, "gap_ms": 1})
        steps.append({"op": "sleep", "ms": 15})
    for c in range(shape["k"]):
        if ending == "close":
            steps.append({"op": "close", "c": "c%d" % c})
        elif ending == "shut":
            steps.append({"op": "shut", "c": "c%d" % c})
            steps.append({"op": "recv", "c": "c%d" % c, "until": "eof", "timeout_ms": 6000})
        elif ending == "linger":
            steps.append({"op": "sleep", "ms": 1500})
            steps.append({"op": "close", "c": "c%d" % c})
        elif ending == "silent":
            # the peer stays connected and says nothing more: the lab keeps the socket open until the process ends
            steps.append({"op": "leave", "c": "c%d" % c})
    return {"id": sid, "svc": svc_key, "steps": steps, "ending": ending}


def build(ck, tier, seed, silent_services=None):
    rng = random.Random(seed)
    small, sim = shapes(ck, tier, seed)
    scs = []
    keys = list(P.GRAMMAR)
    only = os.environ.get("VERIF_ONLY_SVC")
    if only:
        keys = [k for k in keys if k in only.split(",")]
    per = 14 if tier == "quick" else 400
    for key in keys:
        g = P.GRAMMAR[key]
        # core set (always): every token of the grammar, every raw class, truncation and repetition, right after the
        # greeting and after the canonical dialogue
        core = []
        for pre in (0, len(g["canon"])):
            for i in range(1, len(g["tokens"]) + 1):
                core.append({"prefix": pre, "ops": [{"o": "tok", "i": i}], "ending": "close" if pre == 0 else "shut", "seg": "whole", "k": 1})
            for c in sorted(P.RAW):
                core.append({"prefix": pre, "ops": [{"o": "raw", "i": c}], "ending": "close", "seg": "whole", "k": 1})
            core.append({"prefix": pre, "ops": [{"o": "trunc", "i": 0}], "ending": "shut", "seg": "whole", "k": 1})
        core.append({"prefix": len(g["canon"]), "ops": [], "ending": "shut", "seg": "dribble", "k": 2})
        # the peer stays: a while (longer than any per-connection ticker/queue needs to fill) and then closes, or for
        # good (idle timeout) - right after connecting, in the middle of the dialogue and after it
        for pre in sorted({0, len(g["canon"]) // 2, len(g["canon"])}):
            core.append({"prefix": pre, "ops": [], "ending": "linger", "seg": "whole", "k": 1})
            core.append({"prefix": pre, "ops": [], "ending": "silent!", "seg": "whole", "k": 1})
        # the peer leaves after every prefix of the dialogue
        for pre in range(1, len(g["canon"])):
            core.append({"prefix": pre, "ops": [], "ending": "close", "seg": "whole", "k": 1})
        for pre, msg in bignum_variants(g):
            core.append({"prefix": pre, "ops": [], "literal": msg, "ending": "close", "seg": "whole", "k": 1})
        pick = core + rng.sample(small, min(per, len(small))) + rng.sample(sim, min(per // 2, len(sim)))
        for sh in pick:
            silent_ok = silent_services is None or key in silent_services
            if sh["ending"] == "silent" and rng.random() < 0.6:
                sh = dict(sh, ending="close")          # keep the number of 30 s waits small
            scs.append(scenario(key, sh, len(scs), rng, silent_ok))
    # shared ports: the peer is silent, lingers or leaves before / right after its first bytes (the server itself waits there)
    for port, members in (P.SHARED_PORTS.items() if not only else []):
        firsts = [b""] + [P.GRAMMAR[m]["canon"][0] for m in members if P.GRAMMAR.get(m, {}).get("canon")] + [b"\x00", b"zzzz\r\n"]
        for first in firsts:
            for ending in ("close", "linger", "silent", "shut"):
                if ending == "silent" and silent_services is not None and first not in (b"", firsts[1]):
                    continue
                sid = len(scs)
                ip = "10.%d.%d.%d" % (20 + sid // 60000, (sid // 250) % 240, 1 + sid % 250)
                steps = [{"op": "open", "c": "c0", "laddr": "127.0.0.1:%d" % port, "raddr": "%s:3000" % ip}]
                if first:
                    steps.append({"op": "send", "c": "c0", "hex": first.hex(), "cuts": [], "gap_ms": 1})
                    steps.append({"op": "sleep", "ms": 15})
                if ending == "close":
                    steps.append({"op": "close", "c": "c0"})
                elif ending == "shut":
                    steps += [{"op": "shut", "c": "c0"}, {"op": "recv", "c": "c0", "until": "eof", "timeout_ms": 6000}]
                elif ending == "linger":
                    steps += [{"op": "sleep", "ms": 1500}, {"op": "close", "c": "c0"}]
                else:
                    steps.append({"op": "leave", "c": "c0"})
                scs.append({"id": sid, "svc": "shared:%d" % port, "steps": steps, "ending": ending})
    # ftp data connections: the peer opens the passive port (or has the server connect to its own), asks for a transfer and then stays silent or leaves on either
    # connection (the transfer itself waits on the data connection, not on the control connection's idle timeout)
    if "ftp" in keys:
        for cmd in (b"STOR up.bin\r\n", b"APPE up.bin\r\n", b"RETR nosuch\r\n", b"LIST\r\n", b"NLST\r\n", b""):
            for ending, mode in [(e, m) for e in ("both-silent", "ctrl-closes", "data-closes", "data-partial", "all-close") for m in ("pasvdial", "portaccept")]:
                sid = len(scs)
                ip = "10.%d.%d.%d" % (20 + sid // 60000, (sid // 250) % 240, 1 + sid % 250)
                steps = [{"op": "open", "c": "c0", "laddr": "127.0.0.1:21", "raddr": "%s:3000" % ip}]
                for b in (b"USER anonymous\r\n", b"PASS anonymous\r\n"):
                    steps += [{"op": "send", "c": "c0", "hex": b.hex(), "cuts": [], "gap_ms": 1}, {"op": "sleep", "ms": 15}]
                steps.append({"op": mode, "c": "c0", "d": "d0"})
                if cmd:
                    steps += [{"op": "send", "c": "c0", "hex": cmd.hex(), "cuts": [], "gap_ms": 1}, {"op": "sleep", "ms": 30}]
                if ending == "data-partial":
                    steps += [{"op": "send", "c": "d0", "hex": (b"partial-content" * 4).hex(), "cuts": [], "gap_ms": 1}, {"op": "sleep", "ms": 15}]
                fin = {"both-silent": [("leave", "c0"), ("leave", "d0")], "data-partial": [("leave", "c0"), ("leave", "d0")],
                       "ctrl-closes": [("close", "c0"), ("leave", "d0")], "data-closes": [("close", "d0"), ("leave", "c0")],
                       "all-close": [("close", "d0"), ("close", "c0")]}[ending]
                steps += [{"op": o, "c": c} for o, c in fin]
                scs.append({"id": sid, "svc": "ftp", "steps": steps, "ending": "close" if ending == "all-close" else "silent"})
    # datagram services: many handlers of the same service object at once (state shared between them must be guarded)
    for key in [k for k in keys if P.GRAMMAR[k].get("udp")]:
        g = P.GRAMMAR[key]
        svc = g.get("svc", key)
        sid = len(scs)
        scs.append({"id": sid, "svc": key, "ending": "datagram", "steps": [
            {"op": "udpburst", "laddr": "127.0.0.1:%d" % P.PORTS[svc], "raddr": "10.70.%d.1:2000" % (sid % 250),
             "hex": ",".join(b.hex() for b in g["canon"] + g["tokens"] if b), "ms": 400}]})
    # the ssh services are also driven past the handshake with a real client
    for k, reqs in enumerate(SSH_REQUESTS if (not only or "ssh-simulator" in only) else []):
        for chan in (["session"] if k else ["session", "direct-tcpip", "forwarded-tcpip", "x11"]):
            sid = len(scs)
            scs.append({"id": sid, "svc": "ssh-simulator", "ending": "close", "steps": [],
                        "ssh": {"laddr": "127.0.0.1:22", "raddr": "10.60.%d.%d:5000" % (sid // 250, 1 + sid % 250), "channel": chan,
                                "requests": [{"type": t, "payload": p} for t, p in reqs], "lines": ["ls\r", "exit\r"]}})
    # the shell's line editor: escape sequences that never end (RAW classes 6 and 7), then the peer leaves
    for c in ((6, 7) if (not only or "ssh-simulator" in only) else ()):
        sid = len(scs)
        scs.append({"id": sid, "svc": "ssh-simulator", "ending": "close", "steps": [],
                    "ssh": {"laddr": "127.0.0.1:22", "raddr": "10.60.%d.%d:5000" % (sid // 250, 1 + sid % 250), "channel": "session",
                            "requests": [{"type": "shell", "payload": ""}],
                            "lines": ["ls\r", P.RAW[c].decode("latin-1"), "exit\r"]}})
    return scs


def run_child(lab, scs, label, settle_ms, idle_ms, par=24, idle_max_ms=0):
    inp = os.path.join(lib.scratch(), "life-%s.ndjson" % label)
    out = os.path.join(lib.scratch(), "life-%s.out" % label)
    prog = os.path.join(lib.scratch(), "life-%s.progress" % label)
    cfg = os.path.join(lib.scratch(), "life.toml")
    open(cfg, "w").write(P.cfg_life())
    lib.write_ndjson(inp, [{k: v for k, v in s.items() if k != "ending"} for s in scs])
    for f in (out, prog):
        if os.path.exists(f):
            os.remove(f)
    rc, so, se = lib.run_lab(lab, ["life", "-in", inp, "-out", out, "-config", cfg, "-progress", prog, "-par", str(par),
                                   "-settle", str(settle_ms), "-idle", str(idle_ms), "-idlemax", str(idle_max_ms)], timeout=900)
    began, ended, marks = [], set(), []
    if os.path.exists(prog):
        for ln in open(prog):
            p = ln.split()
            if not p:
                continue
            if p[0] == "begin":
                began.append(int(p[1]))
            elif p[0] == "end":
                ended.add(int(p[1]))
            else:
                marks.append(ln.strip())
    report = None
    if os.path.exists(out):
        rows = lib.read_ndjson(out)
        report = rows[0] if rows else None
    return {"rc": rc, "stderr": se, "in_flight": [i for i in began if i not in ended], "marks": marks, "report": report,
            "began": began}


def death_banner(stderr):
    import re
    m = re.search(r'(fatal error: [^\n]*|panic: [^\n]*)', stderr)
    where = re.search(r'honeytrap/honeytrap/([\w/.-]+\.go):(\d+)', stderr)
    return (m.group(1) if m else "no Go banner (rc only)")[:160], (where.group(1) if where else "unknown")


def explore(lab, scs, label, settle_ms=5000, idle_ms=0, rerun_done=False, idle_max_ms=0):
    """Runs all scenarios; when the child dies, bisects down to single culprits (each re-run alone in a fresh
    child) and continues without them. Returns (deaths, reports) where deaths = [(scenario, banner, site)]."""
    deaths, reports = [], []
    todo = list(scs)
    byid = {s["id"]: s for s in scs}
    for round_ in range(12):
        if not todo:
            break
        res = run_child(lab, todo, "%s-%d" % (label, round_), settle_ms, idle_ms, idle_max_ms=idle_max_ms)
        if res["report"] is not None and res["rc"] == 0:
            reports.append(res["report"])
            break
        if not res["began"] and "baseline" not in res["marks"]:
            raise lib.Infra("life child failed before the baseline: %s" % res["stderr"][-1500:])
        suspects = res["in_flight"] or res["began"][-24:]
        if "alldone" in res["marks"]:
            suspects = list(res["began"])
        culprits = []

        late = "alldone" in res["marks"]        # it died while idle, after every scenario had finished: a timer of the server's

        def dies(ids):
            one = run_child(lab, [byid[i] for i in ids], "%s-one" % label, 1500, idle_ms if late else 0, par=max(1, min(len(ids), 24)))
            return (one["report"] is None or one["rc"] != 0), one

        def bisect(ids):
            """scenarios of `ids` that end the process on their own (a child per probe costs seconds: halve instead of trying each)"""
            if not ids or len(deaths) >= 8:
                return
            dead, one = dies(ids)
            if not dead:
                return
            if len(ids) == 1:
                banner, site = death_banner(one["stderr"])
                deaths.append((byid[ids[0]], banner, site))
                culprits.append(ids[0])
                return
            before = len(culprits)
            bisect(ids[:len(ids) // 2])
            bisect(ids[len(ids) // 2:])
            if len(culprits) == before and len(deaths) < 8:
                # the group dies, neither half does: it takes company
                banner, site = death_banner(one["stderr"])
                deaths.append(({"id": -1, "svc": "+".join(sorted({byid[i]["svc"] for i in ids})), "steps": [],
                                "together": [byid[i] for i in ids[:6]]}, banner, site))
                culprits.extend(ids)
        bisect(suspects if "alldone" in res["marks"] else suspects[:48])
        if not culprits:
            # only dies in the company of the whole run: report the set
            banner, site = death_banner(res["stderr"])
            deaths.append(({"id": -1, "svc": "+".join(sorted({byid[s]["svc"] for s in suspects})), "steps": [],
                            "together": [byid[s] for s in suspects[:6]]}, banner, site))
            culprits = suspects
        done = set(res["began"]) - set(res["in_flight"])
        todo = [s for s in todo if s["id"] not in culprits and (rerun_done or s["id"] not in done)]
        if len(deaths) >= 8:      # enough to report; every further culprit costs a child process
            break
    return deaths, reports
