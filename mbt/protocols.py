"""Concretisation tables: abstract protocol tokens -> bytes on the wire, how to wait for the
reply, and how to normalise what comes back. Kept dumb on purpose (formatting only).

A dialogue step is a dict:
  {"t": token name, "bytes": b"...", "wait": "re"|"quiet"|"none"|"eof", "re": regex, "udp": bool}
"""
import re, struct

LOCAL_IP = "127.0.0.1"   # ftp passive mode listens on the connection's local address

PORTS = {"ftp": 21, "smtp": 25, "telnet": 23, "redis": 6379, "memcached": 11211, "http": 80, "tftp": 69,
         "ldap": 389, "ssh-simulator": 22, "ssh-auth": 2222, "vnc": 5900, "ipp": 631, "adb": 5555,
         "cwmp": 7547, "docker": 2375, "elasticsearch": 9200, "eos": 8888, "ethereum": 8545, "https": 443,
         "dns": 53, "ntp": 123, "echo": 7, "snmp": 161, "counterstrike": 27015}

UDP_SERVICES = {"tftp", "dns", "ntp", "snmp", "counterstrike"}

FTP_RE = r'(?s)(^|\r\n)\d{3} [^\r\n]*\r\n$'
SMTP_RE = FTP_RE
FTP_RE2 = r'(?s)^(.*\r\n)?\d{3} [^\r\n]*\r\n(.*\r\n)?\d{3} [^\r\n]*\r\n$'


def cfg_all(services):
    """TOML configuration hosting the given services, each on its usual port (tcp, and udp for the
    datagram ones), with one capture channel."""
    out = ['[listener]\ntype="verif-mem"\n[channel.cap]\ntype="verif-capture"\nname="cap"\n[[filter]]\nchannel=["cap"]\n']
    for s in services:
        extra = ""
        if s == "ftp":
            extra = 'fs_base="{SCRATCH}/ftpbase"\n'
        if s == "ldap":
            extra = 'credentials=["root:root", "admin:admin"]\n'
        if s == "vnc":
            extra = 'image="{SCRATCH}/vnc.png"\n'
        if s == "ipp":
            extra = 'storage-dir="{SCRATCH}/ipp"\n'
        if s == "ssh-simulator":
            extra = 'credentials=["root:root", "admin:*"]\n'
        out.append('[service.%s]\ntype="%s"\n%s' % (s.replace("-", "_"), s, extra))
        proto = "udp" if s in UDP_SERVICES else "tcp"
        out.append('[[port]]\nport="%s/%d"\nservices=["%s"]\n' % (proto, PORTS[s], s.replace("-", "_")))
        if s == "memcached":
            out.append('[[port]]\nport="udp/%d"\nservices=["%s"]\n' % (PORTS[s], s))
    return "".join(out)


def line(t, text, wait="re", rx=FTP_RE):
    return {"t": t, "bytes": text.encode("latin1"), "wait": wait, "re": rx}


# ---------------------------------------------------------------- C03 scripts
# per service: greeting wait mode, and 3 scripts whose replies depend on per-connection state

def redis_cmd(*args):
    out = "*%d\r\n" % len(args)
    for a in args:
        out += "$%d\r\n%s\r\n" % (len(a), a)
    return out


def http_req(method, path, body=b"", extra=""):
    head = "%s %s HTTP/1.1\r\nHost: example.org\r\n%s" % (method, path, extra)
    if body:
        head += "Content-Length: %d\r\n" % len(body)
    return (head + "\r\n").encode() + body


def ber_len(n):
    if n < 128:
        return bytes([n])
    b = n.to_bytes((n.bit_length() + 7) // 8, "big")
    return bytes([0x80 | len(b)]) + b


def tlv(tag, content):
    return bytes([tag]) + ber_len(len(content)) + content


def ber_int(n):
    return tlv(0x02, bytes([n]))


def ldap_msg(mid, op):
    return tlv(0x30, ber_int(mid) + op)


def ldap_bind(mid, dn, pw):
    return ldap_msg(mid, tlv(0x60, ber_int(3) + tlv(0x04, dn.encode()) + tlv(0x80, pw.encode())))


def ldap_search(mid, base, attr, val):
    flt = tlv(0xa3, tlv(0x04, attr.encode()) + tlv(0x04, val.encode())) if val != "*" else tlv(0x87, attr.encode())
    body = (tlv(0x04, base.encode()) + tlv(0x0a, b"\x02") + tlv(0x0a, b"\x00") + ber_int(0) + ber_int(0)
            + tlv(0x01, b"\x00") + flt + tlv(0x30, b""))
    return ldap_msg(mid, tlv(0x63, body))


def ldap_add(mid, dn):
    attrs = tlv(0x30, tlv(0x30, tlv(0x04, b"cn") + tlv(0x31, tlv(0x04, b"x"))))
    return ldap_msg(mid, tlv(0x68, tlv(0x04, dn.encode()) + attrs))


def ldap_delete(mid, dn):
    return ldap_msg(mid, tlv(0x4a, dn.encode()))


def ldap_compare(mid, dn):
    return ldap_msg(mid, tlv(0x6e, tlv(0x04, dn.encode()) + tlv(0x30, tlv(0x04, b"cn") + tlv(0x04, b"x"))))


def ldap_modify(mid, dn):
    change = tlv(0x30, tlv(0x0a, b"\x02") + tlv(0x30, tlv(0x04, b"cn") + tlv(0x31, tlv(0x04, b"y"))))
    return ldap_msg(mid, tlv(0x66, tlv(0x04, dn.encode()) + tlv(0x30, change)))


def ldap_moddn(mid, dn):
    return ldap_msg(mid, tlv(0x6c, tlv(0x04, dn.encode()) + tlv(0x04, b"cn=new") + tlv(0x01, b"\xff")))


def ldap_unbind(mid):
    return ldap_msg(mid, tlv(0x42, b""))


def raw(t, b, wait="quiet"):
    return {"t": t, "bytes": b, "wait": wait, "re": ""}


def tftp_rrq(name):
    return b"\x00\x01" + name.encode() + b"\x00octet\x00"


def tftp_wrq(name):
    return b"\x00\x02" + name.encode() + b"\x00octet\x00"


def tftp_data(blk, data):
    return b"\x00\x03" + struct.pack(">H", blk) + data


C03 = {
    # {c} is replaced by the connection number: directories are persistent service state, every
    # connection works in its own one so that replies depend on per-connection state only
    "ftp": {"greet": ("re", FTP_RE), "scripts": [
        [line("LOGIN", "USER anonymous\r\nPASS anonymous\r\n", rx=FTP_RE2), line("MKD+CWD", "MKD d{c}\r\nCWD d{c}\r\n", rx=FTP_RE2),
         line("PWD", "PWD\r\n")],
        [line("USER", "USER anonymous\r\n"), line("PASS", "PASS wrong\r\n"), line("PWD", "PWD\r\n")],
        [line("LOGIN", "USER anonymous\r\nPASS anonymous\r\n", rx=FTP_RE2), line("PWD", "PWD\r\n"), line("FEAT", "FEAT\r\n")],
    ]},
    "smtp": {"greet": ("re", SMTP_RE), "scripts": [
        [line("HELO", "HELO one.example\r\n"), line("MAIL", "MAIL FROM:<a@one.example>\r\n"), line("RCPT", "RCPT TO:<x@y>\r\n"),
         line("DATA", "DATA\r\n"), line("BODY", "Subject: one\r\n\r\nbody one\r\n.\r\n")],
        [line("EHLO", "EHLO two.example\r\n"), line("NOOP", "NOOP\r\n"), line("MAIL", "MAIL FROM:<b@two.example>\r\n"),
         line("RSET", "RSET\r\n"), line("QUIT", "QUIT\r\n")],
        [line("HELO", "HELO three.example\r\n"), line("MAIL", "MAIL FROM:<c@three.example>\r\n"),
         line("BDAT", "BDAT 24 LAST\r\nSubject: three\r\n\r\nthree\r\n"), line("HELP", "HELP\r\n"), line("NOOP", "NOOP\r\n")],
    ]},
    "telnet": {"greet": ("quiet", ""), "scripts": [
        [raw("user", b"alice\r\n"), raw("pass", b"secret1\r\n"), raw("cmd", b"uname -a\r\n"), raw("cmd2", b"id\r\n")],
        [raw("user", b"bob\r\n"), raw("pass", b"hunter2\r\n"), raw("cmd", b"ls\r\n"), raw("cmd2", b"\r\n")],
        [raw("user", b"carol\r\n"), raw("pass", b"pw3\r\n"), raw("cmd", b"wget http://x/y\r\n"), raw("cmd2", b"exit\r\n")],
    ]},
    "redis": {"greet": ("none", ""), "scripts": [
        [raw("info", redis_cmd("INFO").encode()), raw("get", redis_cmd("GET", "k1").encode()), raw("info-s", redis_cmd("INFO", "server").encode())],
        [raw("set", redis_cmd("SET", "k2", "v").encode()), raw("info-c", redis_cmd("INFO", "clients").encode()), raw("ping", redis_cmd("PING").encode())],
        [raw("auth", redis_cmd("AUTH", "pw").encode()), raw("keys", redis_cmd("KEYS", "*").encode()), raw("info-x", redis_cmd("INFO", "nosuch").encode())],
    ]},
    "memcached": {"greet": ("none", ""), "scripts": [
        [raw("stats", b"stats\r\n"), raw("set", b"set k1 0 0 3\r\nabc\r\n"), raw("get", b"get k1\r\n")],
        [raw("flush", b"flush_all\r\n"), raw("add", b"add k2 1 2 2\r\nxy\r\n"), raw("bogus", b"bogus\r\n")],
        [raw("get", b"get k3\r\n"), raw("stats", b"stats\r\n"), raw("set", b"set k3 0 0 1\r\nz\r\n")],
    ]},
    "http": {"greet": ("none", ""), "scripts": [
        [raw("get", http_req("GET", "/one")), raw("post", http_req("POST", "/one/form", b"a=1&b=2")), raw("head", http_req("HEAD", "/one"))],
        [raw("get", http_req("GET", "/two?x=1", extra="Cookie: sid=two\r\n")), raw("put", http_req("PUT", "/two/file", b"data-two")), raw("options", http_req("OPTIONS", "*"))],
        [raw("delete", http_req("DELETE", "/three")), raw("get", http_req("GET", "/three/index.html", extra="X-Probe: 3\r\n")), raw("post", http_req("POST", "/three", b"three"))],
    ]},
    "ldap": {"greet": ("none", ""), "scripts": [
        [raw("bind-root", ldap_bind(1, "root", "root")), raw("search-uid", ldap_search(2, "dc=example,dc=com", "uid", "alice")),
         raw("add", ldap_add(3, "cn=a,dc=example,dc=com")), raw("delete", ldap_delete(4, "cn=a,dc=example,dc=com"))],
        [raw("bind-bad", ldap_bind(1, "root", "wrong")), raw("add", ldap_add(2, "cn=b,dc=example,dc=com")),
         raw("search-dse", ldap_search(3, "", "objectClass", "*")), raw("compare", ldap_compare(4, "cn=b,dc=example,dc=com"))],
        [raw("search-dse", ldap_search(1, "", "objectClass", "*")), raw("bind-admin", ldap_bind(2, "admin", "admin")),
         raw("modify", ldap_modify(3, "cn=c,dc=example,dc=com")), raw("moddn", ldap_moddn(4, "cn=c,dc=example,dc=com"))],
    ]},
    "tftp": {"greet": ("none", ""), "udp": True, "scripts": [
        [raw("wrq", tftp_wrq("one.bin")), raw("data", tftp_data(1, b"one-content")), raw("rrq", tftp_rrq("one.bin"))],
        [raw("rrq", tftp_rrq("two.bin")), raw("data-nobuf", tftp_data(1, b"two-content")), raw("ack", b"\x00\x04\x00\x01")],
        [raw("wrq", tftp_wrq("three.bin")), raw("data", tftp_data(1, b"three-content")), raw("data2", tftp_data(2, b"x"))],
    ]},
}


# ---------------------------------------------------------------- normalisation

MASK_KEYS = {"date", "token", "stacktrace"}


def norm_events(events, sid_classes=None):
    """events: list of dicts from the lab. Drops volatile keys; session ids are replaced by an
    equality class index per value (first seen = 0, ...)."""
    out = []
    classes = sid_classes if sid_classes is not None else {}
    for e in events:
        d = {}
        for k, v in e.items():
            if k in MASK_KEYS:
                continue
            if k.endswith("sessionid") or k.endswith("session-id"):
                d[k] = "sid#%d" % classes.setdefault(v, len(classes))
                continue
            d[k] = v
        out.append(d)
    return out


_pasv = re.compile(rb'\(\d+,\d+,\d+,\d+,\d+,\d+\)')
_epsv = re.compile(rb'\(\|\|\|\d+\|\)')
_queued = re.compile(rb'queued as \+[0-9a-f]+')


def _ber_children(b):
    out, i = [], 0
    while i < len(b):
        start = i
        i += 1
        n = b[i]
        i += 1
        if n & 0x80:
            k = n & 0x7f
            n = int.from_bytes(b[i:i + k], "big")
            i += k
        out.append((b[start], b[start:i], b[i:i + n]))
        i += n
    return out


def _ldap_norm(data):
    """attribute lists of search result entries come from Go maps: sort them"""
    try:
        out = b""
        for tag, head, body in _ber_children(data):
            kids = _ber_children(body)
            if tag == 0x30 and len(kids) == 2 and kids[1][0] == 0x64:
                ekids = _ber_children(kids[1][2])
                if len(ekids) == 2 and ekids[1][0] == 0x30:
                    attrs = sorted(h + c for _, h, c in _ber_children(ekids[1][2]))
                    newattrs = ekids[1][1] + b"".join(attrs)
                    entry = kids[1][1] + ekids[0][1] + ekids[0][2] + newattrs
                    out += head + kids[0][1] + kids[0][2] + entry
                    continue
            out += head + body
        return out
    except Exception:
        return data


def norm_reply(svc, data):
    if svc == "ldap":
        data = _ldap_norm(data)
    if svc == "ftp":
        if data.startswith(b"211-"):
            # the extension list is built from a Go map at process start: its order is per process
            lines = data.split(b"\n")
            data = b"\n".join(lines[:1] + sorted(l for l in lines[1:] if l.startswith(b" ")) +
                              [l for l in lines[1:] if not l.startswith(b" ")])
        data = re.sub(rb'/d\d+', b'/dN', data)
        data = _pasv.sub(b"(PASV)", data)
        data = _epsv.sub(b"(EPSV)", data)
    if svc == "http":
        data = re.sub(rb'Date: [^\r\n]*\r\n', b'', data)
    return data.decode("latin1")
