"""Concretisation tables: abstract protocol tokens -> bytes on the wire, how to wait for the
reply, and how to normalise what comes back. Kept dumb on purpose (formatting only).

A dialogue step is a dict:
  {"t": token name, "bytes": b"...", "wait": "re"|"quiet"|"none"|"eof", "re": regex, "udp": bool}
"""
import re, struct

LOCAL_IP = "127.0.0.1"   # ftp passive mode listens on the connection's local address

PORTS = {"ftp": 21, "smtp": 25, "telnet": 23, "redis": 6379, "memcached": 11211, "http": 80, "tftp": 69,
         "ldap": 389, "ssh-simulator": 22, "ssh-auth": 2222, "vnc": 5900, "ipp": 631, "adb": 5555,
         "cwmp": 7547, "docker": 2375, "elasticsearch": 9200, "eos": 8888, "ethereum": 8545, "https": 443,
         "dns": 53, "ntp": 123, "echo": 7, "snmp": 161, "counterstrike": 27015}

UDP_SERVICES = {"tftp", "dns", "ntp", "snmp", "counterstrike"}

FTP_RE = r'(?s)(^|\r\n)\d{3} [^\r\n]*\r\n$'
SMTP_RE = FTP_RE
FTP_RE2 = r'(?s)^(.*\r\n)?\d{3} [^\r\n]*\r\n(.*\r\n)?\d{3} [^\r\n]*\r\n$'


def cfg_all(services):
    """TOML configuration hosting the given services, each on its usual port (tcp, and udp for the
    datagram ones), with one capture channel."""
    out = ['[listener]\ntype="verif-mem"\n[channel.cap]\ntype="verif-capture"\nname="cap"\n[[filter]]\nchannel=["cap"]\n']
    for s in services:
        extra = ""
        if s == "ftp":
            extra = 'fs_base="{SCRATCH}/ftpbase"\n'
        if s == "ldap":
            extra = 'credentials=["root:root", "admin:admin"]\n'
        if s == "vnc":
            extra = 'image="{SCRATCH}/vnc.png"\n'
        # ipp: no storage-dir, so that the document stays in the event (with one it is written to a file)
        if s == "ssh-simulator":
            extra = 'credentials=["root:root", "admin:*"]\n'
        out.append('[service.%s]\ntype="%s"\n%s' % (s.replace("-", "_"), s, extra))
        proto = "udp" if s in UDP_SERVICES else "tcp"
        out.append('[[port]]\nport="%s/%d"\nservices=["%s"]\n' % (proto, PORTS[s], s.replace("-", "_")))
        if s == "memcached":
            out.append('[[port]]\nport="udp/%d"\nservices=["%s"]\n' % (PORTS[s], s))
    return "".join(out)


def line(t, text, wait="re", rx=FTP_RE):
    return {"t": t, "bytes": text.encode("latin1"), "wait": wait, "re": rx}


# ---------------------------------------------------------------- C03 scripts
# per service: greeting wait mode, and 3 scripts whose replies depend on per-connection state

def redis_cmd(*args):
    out = "*%d\r\n" % len(args)
    for a in args:
        out += "$%d\r\n%s\r\n" % (len(a), a)
    return out


def http_req(method, path, body=b"", extra=""):
    head = "%s %s HTTP/1.1\r\nHost: example.org\r\n%s" % (method, path, extra)
    if body:
        head += "Content-Length: %d\r\n" % len(body)
    return (head + "\r\n").encode() + body


def ber_len(n):
    if n < 128:
        return bytes([n])
    b = n.to_bytes((n.bit_length() + 7) // 8, "big")
    return bytes([0x80 | len(b)]) + b


def tlv(tag, content):
    return bytes([tag]) + ber_len(len(content)) + content


def ber_int(n):
    return tlv(0x02, bytes([n]))


def ldap_msg(mid, op):
    return tlv(0x30, ber_int(mid) + op)


def ldap_bind(mid, dn, pw):
    return ldap_msg(mid, tlv(0x60, ber_int(3) + tlv(0x04, dn.encode()) + tlv(0x80, pw.encode())))


def ldap_search(mid, base, attr, val):
    flt = tlv(0xa3, tlv(0x04, attr.encode()) + tlv(0x04, val.encode())) if val != "*" else tlv(0x87, attr.encode())
    body = (tlv(0x04, base.encode()) + tlv(0x0a, b"\x02") + tlv(0x0a, b"\x00") + ber_int(0) + ber_int(0)
            + tlv(0x01, b"\x00") + flt + tlv(0x30, b""))
    return ldap_msg(mid, tlv(0x63, body))


def ldap_add(mid, dn):
    attrs = tlv(0x30, tlv(0x30, tlv(0x04, b"cn") + tlv(0x31, tlv(0x04, b"x"))))
    return ldap_msg(mid, tlv(0x68, tlv(0x04, dn.encode()) + attrs))


def ldap_delete(mid, dn):
    return ldap_msg(mid, tlv(0x4a, dn.encode()))


def ldap_compare(mid, dn):
    return ldap_msg(mid, tlv(0x6e, tlv(0x04, dn.encode()) + tlv(0x30, tlv(0x04, b"cn") + tlv(0x04, b"x"))))


def ldap_modify(mid, dn):
    change = tlv(0x30, tlv(0x0a, b"\x02") + tlv(0x30, tlv(0x04, b"cn") + tlv(0x31, tlv(0x04, b"y"))))
    return ldap_msg(mid, tlv(0x66, tlv(0x04, dn.encode()) + tlv(0x30, change)))


def ldap_moddn(mid, dn):
    return ldap_msg(mid, tlv(0x6c, tlv(0x04, dn.encode()) + tlv(0x04, b"cn=new") + tlv(0x01, b"\xff")))


def ldap_starttls(mid):
    return ldap_msg(mid, tlv(0x77, tlv(0x80, b"1.3.6.1.4.1.1466.20037")))


def ldap_unbind(mid):
    return ldap_msg(mid, tlv(0x42, b""))


def raw(t, b, wait="quiet"):
    return {"t": t, "bytes": b, "wait": wait, "re": ""}


def tftp_rrq(name):
    return b"\x00\x01" + name.encode() + b"\x00octet\x00"


def tftp_wrq(name):
    return b"\x00\x02" + name.encode() + b"\x00octet\x00"


def tftp_data(blk, data):
    return b"\x00\x03" + struct.pack(">H", blk) + data


C03 = {
    # {c} is replaced by the connection number: directories are persistent service state, every
    # connection works in its own one so that replies depend on per-connection state only
    "ftp": {"greet": ("re", FTP_RE), "scripts": [
        [line("LOGIN", "USER anonymous\r\nPASS anonymous\r\n", rx=FTP_RE2), line("MKD+CWD", "MKD d{c}\r\nCWD d{c}\r\n", rx=FTP_RE2),
         line("PWD", "PWD\r\n")],
        [line("USER", "USER anonymous\r\n"), line("PASS", "PASS wrong\r\n"), line("PWD", "PWD\r\n")],
        [line("LOGIN", "USER anonymous\r\nPASS anonymous\r\n", rx=FTP_RE2), line("PWD", "PWD\r\n"), line("FEAT", "FEAT\r\n")],
    ]},
    "smtp": {"greet": ("re", SMTP_RE), "scripts": [
        [line("HELO", "HELO one.example\r\n"), line("MAIL", "MAIL FROM:<a@one.example>\r\n"), line("RCPT", "RCPT TO:<x@y>\r\n"),
         line("DATA", "DATA\r\n"), line("BODY", "Subject: one\r\n\r\nbody one\r\n.\r\n")],
        [line("EHLO", "EHLO two.example\r\n"), line("NOOP", "NOOP\r\n"), line("MAIL", "MAIL FROM:<b@two.example>\r\n"),
         line("RSET", "RSET\r\n"), line("QUIT", "QUIT\r\n")],
        [line("HELO", "HELO three.example\r\n"), line("MAIL", "MAIL FROM:<c@three.example>\r\n"),
         line("BDAT", "BDAT 24 LAST\r\nSubject: three\r\n\r\nthree\r\n"), line("HELP", "HELP\r\n"), line("NOOP", "NOOP\r\n")],
    ]},
    "telnet": {"greet": ("quiet", ""), "scripts": [
        [raw("user", b"alice\r\n"), raw("pass", b"secret1\r\n"), raw("cmd", b"uname -a\r\n"), raw("cmd2", b"id\r\n")],
        [raw("user", b"bob\r\n"), raw("pass", b"hunter2\r\n"), raw("cmd", b"ls\r\n"), raw("cmd2", b"\r\n")],
        [raw("user", b"carol\r\n"), raw("pass", b"pw3\r\n"), raw("cmd", b"wget http://x/y\r\n"), raw("cmd2", b"exit\r\n")],
    ]},
    "redis": {"greet": ("none", ""), "scripts": [
        [raw("info", redis_cmd("INFO").encode()), raw("get", redis_cmd("GET", "k1").encode()), raw("info-s", redis_cmd("INFO", "server").encode())],
        [raw("set", redis_cmd("SET", "k2", "v").encode()), raw("info-c", redis_cmd("INFO", "clients").encode()), raw("ping", redis_cmd("PING").encode())],
        [raw("auth", redis_cmd("AUTH", "pw").encode()), raw("keys", redis_cmd("KEYS", "*").encode()), raw("info-x", redis_cmd("INFO", "nosuch").encode())],
    ]},
    "memcached": {"greet": ("none", ""), "scripts": [
        [raw("stats", b"stats\r\n"), raw("set", b"set k1 0 0 3\r\nabc\r\n"), raw("get", b"get k1\r\n")],
        [raw("flush", b"flush_all\r\n"), raw("add", b"add k2 1 2 2\r\nxy\r\n"), raw("bogus", b"bogus\r\n")],
        [raw("get", b"get k3\r\n"), raw("stats", b"stats\r\n"), raw("set", b"set k3 0 0 1\r\nz\r\n")],
    ]},
    "http": {"greet": ("none", ""), "scripts": [
        # bodies of different lengths, body-bearing requests first, in the middle and last (what is recorded of a body must
        # not depend on the requests other connections sent before)
        [raw("post", http_req("POST", "/one/form", b"username=admin&password=hunter2&remember=1&next=%2Fone")), raw("get", http_req("GET", "/one")),
         raw("post2", http_req("POST", "/one/form", b"username=admin&password=hunter2&remember=1&next=%2Fone"))],
        [raw("put", http_req("PUT", "/two/file", b"two")), raw("get", http_req("GET", "/two?x=1", extra="Cookie: sid=two\r\n")), raw("options", http_req("OPTIONS", "*"))],
        [raw("delete", http_req("DELETE", "/three")), raw("get", http_req("GET", "/three/index.html", extra="X-Probe: 3\r\n")), raw("post", http_req("POST", "/three", b"three-3-three"))],
    ]},
    "ldap": {"greet": ("none", ""), "scripts": [
        [raw("bind-root", ldap_bind(1, "root", "root")), raw("search-uid", ldap_search(2, "dc=example,dc=com", "uid", "alice")),
         raw("add", ldap_add(3, "cn=a,dc=example,dc=com")), raw("delete", ldap_delete(4, "cn=a,dc=example,dc=com"))],
        [raw("bind-bad", ldap_bind(1, "root", "wrong")), raw("add", ldap_add(2, "cn=b,dc=example,dc=com")),
         raw("search-dse", ldap_search(3, "", "objectClass", "*")), raw("compare", ldap_compare(4, "cn=b,dc=example,dc=com"))],
        [raw("search-dse", ldap_search(1, "", "objectClass", "*")), raw("bind-admin", ldap_bind(2, "admin", "admin")),
         raw("modify", ldap_modify(3, "cn=c,dc=example,dc=com")), raw("moddn", ldap_moddn(4, "cn=c,dc=example,dc=com"))],
    ]},
    "tftp": {"greet": ("none", ""), "udp": True, "scripts": [
        [raw("wrq", tftp_wrq("one.bin")), raw("data", tftp_data(1, b"one-content")), raw("rrq", tftp_rrq("one.bin"))],
        [raw("rrq", tftp_rrq("two.bin")), raw("data-nobuf", tftp_data(1, b"two-content")), raw("ack", b"\x00\x04\x00\x01")],
        [raw("wrq", tftp_wrq("three.bin")), raw("data", tftp_data(1, b"three-content")), raw("data2", tftp_data(2, b"x"))],
    ]},
}


# ---------------------------------------------------------------- normalisation

MASK_KEYS = {"date", "token", "stacktrace"}


def norm_events(events, sid_classes=None):
    """events: list of dicts from the lab. Drops volatile keys; session ids are replaced by an
    equality class index per value (first seen = 0, ...)."""
    out = []
    classes = sid_classes if sid_classes is not None else {}
    for e in events:
        d = {}
        for k, v in e.items():
            if k in MASK_KEYS:
                continue
            if k.endswith("sessionid") or k.endswith("session-id"):
                d[k] = "sid#%d" % classes.setdefault(v, len(classes))
                continue
            d[k] = v
        out.append(d)
    return out


_pasv = re.compile(rb'\(\d+,\d+,\d+,\d+,\d+,\d+\)')
_epsv = re.compile(rb'\(\|\|\|\d+\|\)')
_queued = re.compile(rb'queued as \+[0-9a-f]+')


def _ber_children(b):
    out, i = [], 0
    while i < len(b):
        start = i
        i += 1
        n = b[i]
        i += 1
        if n & 0x80:
            k = n & 0x7f
            n = int.from_bytes(b[i:i + k], "big")
            i += k
        out.append((b[start], b[start:i], b[i:i + n]))
        i += n
    return out


def _ldap_norm(data):
    """attribute lists of search result entries come from Go maps: sort them"""
    try:
        out = b""
        for tag, head, body in _ber_children(data):
            kids = _ber_children(body)
            if tag == 0x30 and len(kids) == 2 and kids[1][0] == 0x64:
                ekids = _ber_children(kids[1][2])
                if len(ekids) == 2 and ekids[1][0] == 0x30:
                    attrs = sorted(h + c for _, h, c in _ber_children(ekids[1][2]))
                    newattrs = ekids[1][1] + b"".join(attrs)
                    entry = kids[1][1] + ekids[0][1] + ekids[0][2] + newattrs
                    out += head + kids[0][1] + kids[0][2] + entry
                    continue
            out += head + body
        return out
    except Exception:
        return data


def norm_reply(svc, data):
    if svc == "ldap":
        data = _ldap_norm(data)
    if svc == "ftp":
        if data.startswith(b"211-"):
            # the extension list is built from a Go map at process start: its order is per process
            lines = data.split(b"\n")
            data = b"\n".join(lines[:1] + sorted(l for l in lines[1:] if l.startswith(b" ")) +
                              [l for l in lines[1:] if not l.startswith(b" ")])
        data = re.sub(rb'/d\d+', b'/dN', data)
        data = _pasv.sub(b"(PASV)", data)
        data = _epsv.sub(b"(EPSV)", data)
    if svc == "http":
        data = re.sub(rb'Date: [^\r\n]*\r\n', b'', data)
    return data.decode("latin1")


# ---------------------------------------------------------------- C04 streams
# request = {"h": header bytes (ends with its terminator), "b": body bytes, "ev": [expected event projections]}
# `setup`: lock-step dialogue before the stream (its events are skipped by count)

def rq(h, b=b"", ev=None):
    return {"h": h if isinstance(h, bytes) else h.encode("latin1"), "b": b if isinstance(b, bytes) else b.encode("latin1"), "ev": ev or []}


def ipp_request(op=0x000b, reqid=1, uri="ipp://localhost/printers/x", doc=b"", user=None, jobname=None):
    def attr(tag, name, val):
        return bytes([tag]) + struct.pack(">H", len(name)) + name.encode() + struct.pack(">H", len(val)) + val.encode()
    body = struct.pack(">BBHI", 1, 1, op, reqid) + b"\x01"
    body += attr(0x47, "attributes-charset", "utf-8") + attr(0x48, "attributes-natural-language", "en")
    body += attr(0x45, "printer-uri", uri)
    if user is not None:
        body += attr(0x42, "requesting-user-name", user)
    if jobname is not None:
        body += attr(0x42, "job-name", jobname)
    body += b"\x03" + doc
    return body


def http_post(path, body, ctype="application/json", host="example.org"):
    return ("POST %s HTTP/1.1\r\nHost: %s\r\nContent-Type: %s\r\nContent-Length: %d\r\n\r\n" % (path, host, ctype, len(body))).encode()


def dns_query(qid, name):
    q = struct.pack(">HHHHHH", qid, 0x0100, 1, 0, 0, 0)
    for label in name.split("."):
        q += bytes([len(label)]) + label.encode()
    return q + b"\x00" + struct.pack(">HH", 1, 1)


_eth = b'{"jsonrpc":"2.0","method":"eth_blockNumber","params":[],"id":7}'
_eth_batch = b'[{"jsonrpc":"2.0","method":"eth_blockNumber","params":[],"id":1},{"jsonrpc":"2.0","method":"eth_accounts","params":[],"id":2}]'
_eos = b'{"block_num_or_id": 5}'
_cwmp = (b'<soapenv:Envelope xmlns:soapenv="http://schemas.xmlsoap.org/soap/envelope/" xmlns:cwmp="urn:dslforum-org:cwmp-1-0">'
         b'<soapenv:Header/><soapenv:Body><cwmp:Inform><DeviceId>x</DeviceId></cwmp:Inform></soapenv:Body></soapenv:Envelope>')
_es = b'{"query":{"match_all":{}}}'
_ippdoc = b"%!PS-Adobe-3.0\nhello printer\n"

C04 = {
    "ftp": {"greet": ("re", FTP_RE), "streams": [
        [rq("USER alice\r\n", ev=[{"ftp.command": "USER alice"}]), rq("PASS s3cret\r\n", ev=[{"ftp.command": "PASS s3cret"}]),
         rq("NOOP\r\n", ev=[{"ftp.command": "NOOP"}])],
        [rq("SYST\r\n", ev=[{"ftp.command": "SYST"}]), rq("FEAT\r\n", ev=[{"ftp.command": "FEAT"}]),
         rq("HELP me please\r\n", ev=[{"ftp.command": "HELP me please"}])]],
        "keys": ["ftp.command"]},
    "smtp": {"greet": ("re", SMTP_RE), "streams": [
        [rq("HELO seg.example\r\n", ev=[{"type": "input", "smtp.line": "HELO seg.example"}]),
         rq("NOOP\r\n", ev=[{"type": "input", "smtp.line": "NOOP"}]), rq("RSET\r\n", ev=[{"type": "input", "smtp.line": "RSET"}])],
        {"setup": [line("HELO", "HELO seg.example\r\n")], "skip": 1, "reqs": [
            rq("MAIL FROM:<a@b>\r\n", ev=[{"type": "input", "smtp.line": "MAIL FROM:<a@b>"}]),
            rq("BDAT 27 LAST\r\n", "Subject: seg\r\n\r\nbody-text\r\n", ev=[{"type": "input", "smtp.line": "BDAT 27 LAST"},
                                                                      {"type": "email", "smtp.Subject": "seg", "smtp.body": "body-text\r\n"}]),
            rq("NOOP\r\n", ev=[{"type": "input", "smtp.line": "NOOP"}])]},
        {"setup": [line("HELO", "HELO seg.example\r\n")], "skip": 1, "reqs": [
            rq("MAIL FROM:<a@b>\r\n", ev=[{"type": "input", "smtp.line": "MAIL FROM:<a@b>"}]),
            rq("DATA\r\n", "Subject: dot\r\n\r\nline one\r\nline two\r\n.\r\n",
               ev=[{"type": "input", "smtp.line": "DATA"}, {"type": "email", "smtp.Subject": "dot", "smtp.body": "line one\nline two\n"}]),
            rq("QUIT\r\n", ev=[{"type": "input", "smtp.line": "QUIT"}])]}],
        "keys": ["type", "smtp.line", "smtp.Subject", "smtp.body"]},
    "redis": {"greet": ("none", ""), "streams": [
        [rq(redis_cmd("INFO"), ev=[{"redis.command": "INFO"}]), rq(redis_cmd("PING"), ev=[{"redis.command": "PING"}]),
         rq(redis_cmd("GET", "k"), ev=[{"redis.command": "GET"}])]],
        "keys": ["redis.command"]},
    "memcached": {"greet": ("none", ""), "streams": [
        [rq("stats\r\n", ev=[{"type": "memcached-command", "memcached.command": "stats"}]),
         rq("get a\r\n", ev=[{"type": "memcached-command", "memcached.command": "get a"}]),
         rq("flush_all\r\n", ev=[{"type": "memcached-command", "memcached.command": "flush_all"}])],
        [rq("get a\r\n", ev=[{"type": "memcached-command", "memcached.command": "get a"}]),
         rq("set k 0 0 5\r\n", "hello\r\n", ev=[{"type": "memcached-command", "memcached.command": "set k 0 0 5"},
                                              {"type": "memcached-set", "memcached.key": "k", "memcached.bytes": "5", "payload": "hello"}]),
         rq("stats\r\n", ev=[{"type": "memcached-command", "memcached.command": "stats"}])]],
        "keys": ["type", "memcached.command", "memcached.key", "memcached.bytes", "payload"]},
    "telnet": {"greet": ("quiet", ""), "streams": [
        {"setup": [raw("user", b"alice\r\n"), raw("pass", b"pw\r\n")], "skip": 0, "reqs": [
            rq("uname -a\r\n", ev=[{"type": "session", "telnet.command": "uname -a"}]),
            rq("id\r\n", ev=[{"type": "session", "telnet.command": "id"}]),
            rq("cat /etc/passwd\r\n", ev=[{"type": "session", "telnet.command": "cat /etc/passwd"}])]},
        # the whole dialogue as one stream: the cut may fall between the password and the first command (type-ahead)
        {"setup": [], "skip": 0, "reqs": [
            rq("bob\r\n", ev=[]),
            rq("hunter2\r\n", ev=[]),
            rq("ls -la\r\n", ev=[{"type": "session", "telnet.command": "ls -la"}]),
            rq("uname -a\r\n", ev=[{"type": "session", "telnet.command": "uname -a"}]),
            rq("exit\r\n", ev=[{"type": "session", "telnet.command": "exit"}])]}],
        "keys": ["type", "telnet.command"]},
    "http": {"greet": ("none", ""), "streams": [
        [rq(http_req("GET", "/a"), ev=[{"http.method": "GET", "http.url": "/a", "payload": ""}]),
         rq(http_post("/b", b"0123456789abcdef"), b"0123456789abcdef", ev=[{"http.method": "POST", "http.url": "/b", "payload": "0123456789abcdef"}]),
         rq(http_req("GET", "/c"), ev=[{"http.method": "GET", "http.url": "/c", "payload": ""}])],
        [rq(http_req("GET", "/one"), ev=[{"http.method": "GET", "http.url": "/one", "payload": ""}]),
         rq(http_req("HEAD", "/two"), ev=[{"http.method": "HEAD", "http.url": "/two", "payload": ""}]),
         rq(http_req("DELETE", "/three"), ev=[{"http.method": "DELETE", "http.url": "/three", "payload": ""}])]],
        "keys": ["http.method", "http.url", "payload"]},
    "ldap": {"greet": ("none", ""), "streams": [
        [rq(ldap_bind(1, "cn=root,dc=x", "pw"), ev=[{"ldap.message-id": 1, "ldap.request-type": "bind", "ldap.username": "root", "ldap.password": "pw"}]),
         rq(ldap_search(2, "dc=example,dc=com", "uid", "bob"), ev=[{"ldap.message-id": 2, "ldap.request-type": "search", "ldap.search-filtervalue": "bob"}]),
         rq(ldap_add(3, "cn=n,dc=x"), ev=[{"ldap.message-id": 3, "ldap.request-type": "add"}])],
        # the last request asks for TLS; the client then ends its stream instead of starting a handshake: the request was complete
        [rq(ldap_bind(1, "cn=admin,dc=x", "pw2"), ev=[{"ldap.message-id": 1, "ldap.request-type": "bind", "ldap.username": "admin", "ldap.password": "pw2"}]),
         rq(ldap_compare(2, "cn=n,dc=x"), ev=[{"ldap.message-id": 2, "ldap.request-type": "compare"}]),
         rq(ldap_starttls(3), ev=[{"ldap.message-id": 3, "ldap.request-type": "extended.tls"}])]],
        "keys": ["ldap.message-id", "ldap.request-type", "ldap.username", "ldap.password", "ldap.search-filtervalue"]},
    "elasticsearch": {"greet": ("none", ""), "one": True, "streams": [
        [rq(http_post("/_search", _es), _es, ev=[{"http.method": "POST", "http.url": "/_search", "payload": _es.decode()}])]],
        "keys": ["http.method", "http.url", "payload"]},
    "docker": {"greet": ("none", ""), "one": True, "streams": [
        [rq(http_post("/v1.24/containers/create", _es), _es, ev=[{"http.method": "POST", "http.url": "/v1.24/containers/create", "payload": _es.decode()}])]],
        "keys": ["http.method", "http.url", "payload"]},
    "eos": {"greet": ("none", ""), "one": True, "streams": [
        [rq(http_post("/v1/chain/get_block", _eos), _eos, ev=[{"http.method": "POST", "eos.method": "/v1/chain/get_block", "payload": _eos.decode()}])]],
        "keys": ["http.method", "eos.method", "payload"]},
    "ethereum": {"greet": ("none", ""), "one": True, "streams": [
        [rq(http_post("/", _eth), _eth, ev=[{"http.method": "POST", "ethereum.method": "eth_blockNumber", "payload": _eth.decode()}])],
        # a JSON-RPC batch: a complete, valid request whose body is an array, not an object
        [rq(http_post("/", _eth_batch), _eth_batch, ev=[{"http.method": "POST", "payload": _eth_batch.decode()}])]],
        "keys": ["http.method", "ethereum.method", "payload"]},
    "cwmp": {"greet": ("none", ""), "one": True, "streams": [
        [rq(http_post("/", _cwmp, "text/xml"), _cwmp, ev=[{"http.method": "POST", "cwmp.method": "Inform", "http.body": _cwmp.decode()}])]],
        "keys": ["http.method", "cwmp.method", "http.body"]},
    "ipp": {"greet": ("none", ""), "one": True, "streams": [
        [rq(http_post("/printers/x", ipp_request(0x0002, 9, user="alice", jobname="job-1", doc=_ippdoc), "application/ipp"),
            ipp_request(0x0002, 9, user="alice", jobname="job-1", doc=_ippdoc),
            ev=[{"http.url": "/printers/x", "ipp.uri": "ipp://localhost/printers/x", "ipp.user": "alice", "ipp.job-name": "job-1",
                 "ipp.data": _ippdoc.decode()}])]],
        "keys": ["http.url", "ipp.uri", "ipp.user", "ipp.job-name", "ipp.data"]},
}

C04_UDP = {
    "dns": {"dgrams": [(dns_query(0x1111, "a.example.org"), [{"dns.id": "4369"}]), (dns_query(0x2222, "b.example.org"), [{"dns.id": "8738"}]),
                       (dns_query(0x3333, "c.example.org"), [{"dns.id": "13107"}])], "keys": ["dns.id"]},
    "tftp": {"dgrams": [(tftp_rrq("x.bin"), [{"type": "tftp-read", "tftp.filename": "x.bin\x00"}]),
                        (tftp_wrq("y.bin"), [{"type": "tftp-write", "tftp.filename": "y.bin\x00"}]),
                        (tftp_rrq("z.bin"), [{"type": "tftp-read", "tftp.filename": "z.bin\x00"}])], "keys": ["type", "tftp.filename"]},
    "snmp": {"dgrams": [(bytes.fromhex("302602010004067075626c6963a01902040100000102010002010030 0b300906052b060102010500".replace(" ", "")), [{"type": "get-request", "snmp.community": "public"}]),
                        (bytes.fromhex("302602010004067075626c6963a11902040100000202010002010030 0b300906052b060102010500".replace(" ", "")), [{"type": "get-next-request", "snmp.community": "public"}]),
                        (bytes.fromhex("302602010004067075626c6963a01902040100000302010002010030 0b300906052b060102010500".replace(" ", "")), [{"type": "get-request", "snmp.community": "public"}])],
             "keys": ["type", "snmp.community"]},
    "memcached": {"dgrams": [(b"\x00\x01\x00\x00\x00\x01\x00\x00stats\r\n", [{"memcached.command": "stats"}]),
                             (b"\x00\x02\x00\x00\x00\x01\x00\x00get k\r\nflush_all\r\n", [{"memcached.command": "get k"}, {"memcached.command": "flush_all"}]),
                             (b"\x00\x03\x00\x00\x00\x01\x00\x00get z\r\n", [{"memcached.command": "get z"}])], "keys": ["memcached.command"]},
    "counterstrike": {"dgrams": [(b"\xff\xff\xff\xffTSource Engine Query\x00", [{"counterstrike.query": "a2s_info"}]),
                                 (b"\xff\xff\xff\xff\x55\xff\xff\xff\xff", [{"counterstrike.query": "a2s_player"}]),
                                 (b"\xff\xff\xff\xff\x56\xff\xff\xff\xff", [{"counterstrike.query": "a2s_rules"}])], "keys": ["counterstrike.query"]},
}


# ---------------------------------------------------------------- grammars for the life-cycle explorations (C01, C09)
# per service: canonical dialogue (list of byte strings, in order) and up to 6 further tokens

def adb_pkt(cmd, a0, a1, data):
    crc = sum(data) & 0xffffffff
    magic = bytes(b ^ 0xff for b in cmd)
    return cmd + struct.pack("<IIII", a0, a1, len(data), crc) + magic + data


def vnc_setpixfmt(bpp, depth, be, tc):
    return b"\x00\x00\x00\x00" + bytes([bpp, depth, be, tc]) + struct.pack(">HHH", 31, 31, 31) + bytes([10, 5, 0]) + b"\x00\x00\x00"


def vnc_update(inc, w=32, h=24):
    return b"\x03" + bytes([inc]) + struct.pack(">HHHH", 0, 0, w, h)


def vnc_encodings(n):
    return b"\x02\x00" + struct.pack(">H", n) + b"".join(struct.pack(">i", i) for i in range(min(n, 8)))


_tls_hello = bytes.fromhex("16030100520100004e0303" + "11" * 32 + "00" + "0004c02b002f" + "0100" + "0021" +
                           "0000000e000c0000096c6f63616c686f7374" + "000a00040002001d" + "000b00020100" + "00170000")

GRAMMAR = {
    "ftp": {"canon": [b"USER anonymous\r\n", b"PASS anonymous\r\n", b"PWD\r\n", b"CWD /\r\n", b"PASV\r\n", b"LIST\r\n"],
            "tokens": [b"CDUP\r\n", b"EPSV\r\n", b"PORT 10,1,2,3,4,5\r\n", b"PORT 1,2\r\n", b"FEAT\r\n", b"MKD x\r\nRNFR x\r\nRNTO y\r\nRMD y\r\n"]},
    "smtp": {"canon": [b"EHLO a.example\r\n", b"MAIL FROM:<a@b>\r\n", b"RCPT TO:<c@d>\r\n", b"DATA\r\n", b"Subject: x\r\n\r\nbody\r\n.\r\n", b"QUIT\r\n"],
             "tokens": [b"BDAT 5 LAST\r\nhello", b"BDAT x\r\n", b"BDAT\r\n", b"STARTTLS\r\n", b"RSET\r\n", b"HELP\r\n"]},
    "telnet": {"canon": [b"root\r\n", b"toor\r\n", b"uname -a\r\n", b"exit\r\n"],
               "tokens": [b"\xff\xfb\x01\xff\xfd\x03", b"\x1b[A\x1b[B", b"\x7f\x7f\x08", b"a" * 300 + b"\r\n", b"\x03\x04", b"\t\t"]},
    "redis": {"canon": [redis_cmd("INFO").encode(), redis_cmd("INFO", "server").encode(), redis_cmd("GET", "k").encode()],
              "tokens": [b"*0\r\n", b"*1\r\n:5\r\n", b"*2\r\n$4\r\nINFO\r\n*1\r\n$1\r\nx\r\n", b"*99999999\r\n", b"$5\r\nhello\r\n", b"+OK\r\n"]},
    "memcached": {"canon": [b"stats\r\n", b"set k 0 0 3\r\nabc\r\n", b"get k\r\n"],
                  "tokens": [b"set k 0 0 -5\r\n", b"set k 0 0 99999\r\nab", b"set k\r\n", b"\r\n", b"cas a b c d e\r\n", b"flush_all\r\n"]},
    "http": {"canon": [http_req("GET", "/"), http_post("/x", b"a=1") + b"a=1", http_req("HEAD", "/")],
             "tokens": [b"GET / HTTP/9.9\r\n\r\n", b"POST / HTTP/1.1\r\nContent-Length: 99999\r\n\r\nab", b"GET  HTTP/1.1\r\n\r\n",
                        b"POST / HTTP/1.1\r\nTransfer-Encoding: chunked\r\n\r\n5\r\nhello\r\n0\r\n\r\n", b"OPTIONS * HTTP/1.1\r\nHost: a\r\n\r\n", b"\r\n\r\n"]},
    "ldap": {"canon": [ldap_bind(1, "root", "root"), ldap_search(2, "dc=x", "uid", "a"), ldap_add(3, "cn=a"), ldap_unbind(4)],
             "tokens": [ldap_search(5, "", "objectClass", "*"), tlv(0x30, ber_int(6)), tlv(0x30, ber_int(7) + tlv(0x60, b"")),
                        tlv(0x30, ber_int(8) + tlv(0x77, tlv(0x80, b"1.3.6.1.4.1.1466.20037"))), b"\x30\x84\x7f\xff\xff\xff", ldap_moddn(9, "cn=a")]},
    "elasticsearch": {"canon": [http_post("/_search", _es) + _es], "tokens": [http_req("GET", "/"), http_req("GET", "/_cat/indices"), http_req("DELETE", "/x")]},
    "docker": {"canon": [http_req("GET", "/version"), http_post("/containers/create", _es) + _es], "tokens": [http_req("GET", "/containers/json"), http_req("GET", "/_ping"), http_req("GET", "/images/json")]},
    "eos": {"canon": [http_post("/v1/chain/get_info", _eos) + _eos], "tokens": [http_post("/v1/chain/get_block", b"{") + b"{", http_req("GET", "/v1/chain/get_info")]},
    "ethereum": {"canon": [http_post("/", _eth) + _eth], "tokens": [http_post("/", b"[]") + b"[]", http_post("/", b"{\"method\":5}") + b"{\"method\":5}", http_post("/", b"null") + b"null"]},
    "cwmp": {"canon": [http_post("/", _cwmp, "text/xml") + _cwmp], "tokens": [http_post("/", b"<a>", "text/xml") + b"<a>", http_req("GET", "/")]},
    "ipp": {"canon": [http_post("/printers/x", ipp_request(0x000b, 1), "application/ipp") + ipp_request(0x000b, 1)],
            "tokens": [http_post("/p", ipp_request(0x0002, 2, user="u", jobname="j", doc=b"DOC"), "application/ipp") + ipp_request(0x0002, 2, user="u", jobname="j", doc=b"DOC"),
                       http_post("/p", ipp_request(0x000b, 3)[:-1], "application/ipp") + ipp_request(0x000b, 3)[:-1],      # no end-of-attributes tag
                       http_post("/p", b"\x01\x01\x00\x0b\x00\x00\x00\x01\x01\x22\x00\x01a\x00\x02\x01", "application/ipp") + b"\x01\x01\x00\x0b\x00\x00\x00\x01\x01\x22\x00\x01a\x00\x02\x01",
                       http_post("/p", b"\x01\x01", "application/ipp") + b"\x01\x01", http_req("GET", "/p")]},
    "adb": {"canon": [adb_pkt(b"CNXN", 0x01000000, 4096, b"host::\x00"), adb_pkt(b"OPEN", 1, 0, b"shell:\x00"), adb_pkt(b"WRTE", 1, 9, b"id\r"), adb_pkt(b"CLSE", 1, 9, b"")],
            "tokens": [b"CNX", b"OPEN", adb_pkt(b"WRTE", 1, 9, b"x"), adb_pkt(b"OKAY", 1, 9, b""), adb_pkt(b"ZZZZ", 0, 0, b""), b"CNXN" + b"\x00" * 10]},
    "echo": {"canon": [b"hello\n", b"world\n"], "tokens": [b"\x00" * 100, b"x" * 5000]},
    "https": {"canon": [_tls_hello], "tokens": [b"\x16\x03\x01\x00\x02\x01\x00", b"\x16\x03\x01\xff\xff", b"\x15\x03\x01\x00\x02\x02\x28", _tls_hello[:40], b"\x80\x2e\x01\x00\x02"]},
    "ssh-simulator": {"canon": [b"SSH-2.0-verif\r\n"], "tokens": [b"SSH-1.5-x\r\n", b"\x00\x00\x00\x0c\x0a\x14" + b"\x00" * 10, b"SSH-2.0-" + b"a" * 300 + b"\r\n", b"\x00\x00\xff\xff"]},
    "ssh-auth": {"canon": [b"SSH-2.0-verif\r\n"], "tokens": [b"SSH-1.5-x\r\n", b"\x00\x00\x00\x0c\x0a\x14" + b"\x00" * 10, b"\x00\x00\xff\xff"]},
    "vnc": {"canon": [b"RFB 003.008\n", b"\x01", b"\x01", vnc_setpixfmt(16, 16, 0, 1), vnc_encodings(2), vnc_update(0)],
            "tokens": [vnc_setpixfmt(32, 24, 0, 0) + vnc_update(0), vnc_setpixfmt(24, 24, 0, 1) + vnc_update(0), vnc_update(1), b"\x04\x01\x00\x00\x00\x00\x00\x41",
                       b"\x05\x01\x00\x10\x00\x10", vnc_encodings(65535)]},
    # datagram services
    "dns": {"udp": True, "canon": [dns_query(1, "a.example")], "tokens": [dns_query(2, "b.example")[:12], b"\x00" * 5, dns_query(3, "x" * 60 + ".example")]},
    "ntp": {"udp": True, "canon": [b"\x1b" + b"\x00" * 47], "tokens": [b"\x17\x00\x03\x2a" + b"\x00" * 4, b"\x00"]},
    "tftp": {"udp": True, "canon": [tftp_rrq("a"), tftp_wrq("b"), tftp_data(1, b"x" * 512), tftp_data(2, b"y")], "tokens": [b"\x00\x01a", b"\x00\x03\x00", b"\x00"]},
    "snmp": {"udp": True, "canon": [C04_UDP["snmp"]["dgrams"][0][0]], "tokens": [b"\x30\x02\x02", b"\x30", b"\x30\x82\xff\xff\x02\x01\x00"]},
    "counterstrike": {"udp": True, "canon": [b"\xff\xff\xff\xffTSource Engine Query\x00"], "tokens": [b"\xff\xff\xff\xff", b"\xff", b"\xff\xff\xff\xfeT"]},
    "memcached-udp": {"udp": True, "svc": "memcached", "canon": [b"\x00\x01\x00\x00\x00\x01\x00\x00stats\r\n"], "tokens": [b"\x00\x01", b"\x00\x01\x00\x00\x00\x01\x00\x00set k 0 0 5\r\nab"]},
    "echo-udp": {"udp": True, "svc": "echo", "canon": [b"ping"], "tokens": [b"", b"x" * 1400]},
}

RAW = {1: b"\x00" * 64, 2: bytes(range(128, 256)), 3: b"\r\n", 4: b"A" * 4096, 5: b"\xff\xff\xff\xff\x7f\xff\xff\xff" * 4,
       # terminal escape sequences that never end: longer than a line editor's input buffer (256 bytes), with and without a line end
       6: b"\x1b" + b"1" * 300, 7: b"\x1b[" + b"9;" * 200 + b"\r\n",
       # a line of nothing but blanks and tabs (not empty: parsers that split a line into fields get no field at all)
       8: b" \t  \r\n"}
# the classes the dialogue model (MC_Dialogue) draws from; 6 and 7 are added to every service's core set by life.py
RAW_MODEL = range(1, 6)

ALL_SERVICES = ["adb", "counterstrike", "cwmp", "dns", "docker", "echo", "elasticsearch", "eos", "ethereum", "ftp", "http", "https",
                "ipp", "ldap", "memcached", "ntp", "redis", "smtp", "snmp", "ssh-auth", "ssh-simulator", "telnet", "tftp", "vnc"]


def cfg_life():
    """all 24 director-less services; echo and memcached also over udp"""
    toml = cfg_all(ALL_SERVICES)
    toml += '[[port]]\nport="udp/7"\nservices=["echo"]\n'
    # ports shared by several services: the server waits for the first bytes itself (payload detectors) before a service runs
    for port, members in SHARED_PORTS.items():
        toml += '[[port]]\nport="tcp/%d"\nservices=[%s]\n' % (port, ", ".join('"%s"' % m.replace("-", "_") for m in members))
    return toml


SHARED_PORTS = {8000: ["http", "telnet"], 8001: ["ssh-simulator", "echo"], 8002: ["docker", "cwmp", "redis"]}
