#!/usr/bin/env python3
"""MANIFEST.setup_cmd: offline sanity + warm-up. Builds the lab once (warms the Go build cache),
parses every specification module with SANY."""
import os, re, subprocess, sys
sys.path.insert(0, os.path.dirname(os.path.abspath(__file__)))
import lib

def main():
    try:
        lab, t = lib.build_lab()
        print("lab built in %.1fs" % t)
        bad = 0
        mods = sorted(f for f in os.listdir(lib.SPEC) if f.endswith(".tla"))
        import shutil, tempfile
        wd = tempfile.mkdtemp(prefix="sany-", dir=lib.scratch())
        for f in os.listdir(lib.SPEC):
            shutil.copyfile(os.path.join(lib.SPEC, f), os.path.join(wd, f))
        env = dict(os.environ, JAVA_TOOL_OPTIONS="-Djava.io.tmpdir=%s" % wd)
        for f in mods:
            if re.search(r'^EXTENDS[^\n]*\b(Apalache|TLAPS)\b', open(os.path.join(wd, f)).read(), re.M):
                # typed modules for Apalache import its own standard module, which SANY does not know: they are parsed
                # (and type-checked) by Apalache when C10's thorough tier runs
                print("skipped (Apalache / TLAPS module, parsed by its own tool):", f)
                continue
            p = subprocess.run(["timeout", "120", "tla-sany", f], cwd=wd, env=env, stdout=subprocess.PIPE,
                               stderr=subprocess.STDOUT, text=True)
            if p.returncode != 0 or "*** Errors" in p.stdout or "Fatal errors" in p.stdout:
                print("SANY FAILED:", f, p.stdout[-1500:])
                bad += 1
        print("sany: %d modules parsed, %d failed" % (len(mods), bad))
        return 1 if bad else 0
    except lib.Infra as e:
        print("setup failed:", e)
        return 1
    finally:
        lib.cleanup()

sys.exit(main())
