"""Apalache (symbolic, unbounded in the integers) for the one specification small enough for an inductive invariant.
Every call runs under `timeout` in a scratch copy; a tool failure is reported as 'unavailable', never as a verdict."""
import os, re, shutil, subprocess, tempfile, time
import lib


def check(module, init, inv, length, timeout=1500):
    wd = tempfile.mkdtemp(prefix="apa-", dir=lib.scratch())
    shutil.copyfile(os.path.join(lib.SPEC, module + ".tla"), os.path.join(wd, module + ".tla"))
    tmp = os.path.join(wd, "tmp")
    os.makedirs(tmp)
    env = dict(os.environ, TMPDIR=tmp, JAVA_TOOL_OPTIONS="-Djava.io.tmpdir=%s" % tmp)
    t0 = time.time()
    try:
        p = subprocess.run(["timeout", str(int(timeout)), "apalache-mc", "check", "--init=" + init, "--inv=" + inv, "--length=%d" % length,
                            "--out-dir=" + os.path.join(wd, "out"), module + ".tla"], cwd=wd, env=env,
                           stdout=subprocess.PIPE, stderr=subprocess.STDOUT, text=True)
    except OSError as e:
        return "unavailable", str(e), 0.0
    out = p.stdout
    wall = time.time() - t0
    if "The outcome is: NoError" in out:
        return "ok", "", wall
    if re.search(r"The outcome is: Error", out):
        return "refuted", out[-1500:], wall
    return "unavailable", out[-800:], wall


def tlaps(module, timeout=600):
    """TLAPS (tlapm) on a proof module: -> ("ok", n obligations) | ("failed", detail) | ("unavailable", detail)"""
    wd = tempfile.mkdtemp(prefix="tlaps-", dir=lib.scratch())
    shutil.copyfile(os.path.join(lib.SPEC, module + ".tla"), os.path.join(wd, module + ".tla"))
    t0 = time.time()
    try:
        p = subprocess.run(["timeout", str(int(timeout)), "tlapm", "--threads", "8", module + ".tla"], cwd=wd,
                           stdout=subprocess.PIPE, stderr=subprocess.STDOUT, text=True)
    except OSError as e:
        return "unavailable", str(e), 0.0
    m = re.search(r"All (\d+) obligations? proved", p.stdout)
    if m:
        return "ok", m.group(1), time.time() - t0
    if re.search(r"obligations? failed", p.stdout):
        return "failed", p.stdout[-1200:], time.time() - t0
    return "unavailable", p.stdout[-600:], time.time() - t0
