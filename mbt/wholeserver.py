"""Whole-server conformance (Honeytrap.tla / Honeytrap_Trace.tla): filter configurations drawn by TLC, the real server with
real services (http+telnet on a shared port, ftp, redis), real bus/filters, capture channels and the real file channel; the
recorded whole-server trace is validated by TLC, and the file channel's log is compared with the ids TLC says it must hold.
Used by C06 (the property it decides there: an event reaches exactly the channels whose filters admit it, with the token)."""
import json, os, re
import lib

CATCH_ALL = {"channels": ["all"], "cats": [], "svcs": []}


def configurations(ck, tier):
    r1 = lib.tlc("MC_Honeytrap", timeout=600, constants={"Sim": "FALSE", "NFilters": "1"}, workers=8)
    lib.tlc_must_pass(r1, "Honeytrap composition (ExactlyAdmitted, OrderPreserved, Attributed, SilentIfUnrouted), one filter")
    ck.add_tlc(r1, "Honeytrap: 9 planned connections and datagrams (tcp and udp, routed and unrouted) x every single filter of 168 (7 channel lists x 8 category lists x 3 service lists), exhaustive")
    n = 12 if tier == "quick" else 300
    r2 = lib.tlc("MC_Honeytrap", timeout=600, constants={"Sim": "TRUE", "NFilters": "3"}, simulate=max(1, n // 4), depth=20,
                 tlc_seed=lib.seed(), workers=4)
    lib.tlc_must_pass(r2, "Honeytrap composition, three filters (-simulate)")
    ck.add_tlc(r2, "Honeytrap: three filters drawn (-simulate)")
    dedupe = lambda scn: list({json.dumps(s["filters"], sort_keys=True): s for s in scn}.values())
    return dedupe(r1.scn), dedupe(r2.scn)


def run(ck, tier, lab, rng):
    single, multi = configurations(ck, tier)
    pick = (single if tier == "thorough" else rng.sample(single, min(14, len(single)))) + multi
    scs = [{"id": i, "filters": [CATCH_ALL] + s["filters"]} for i, s in enumerate(pick)]
    if tier == "thorough":
        # two runs long enough for the sensor's heartbeat (every 30 s) to fall between the connections
        for s in multi[:2]:
            scs.append({"id": len(scs), "filters": [CATCH_ALL] + s["filters"], "linger_s": 32})
    results = {r["id"]: r for r in lib.run_sharded(lab, "sys", scs, shards=min(lib.NCPU, 8), timeout=1800)}
    nev = 0
    import concurrent.futures
    for sc in scs:
        res = results.get(sc["id"])
        if res is None or res.get("error"):
            raise lib.Infra("whole-server scenario %s: %s" % (sc["id"], res and res.get("error")))
    # one TLC trace validation per configuration (about a second of JVM start each): eight at a time
    with concurrent.futures.ThreadPoolExecutor(max_workers=8) as ex:
        validated = list(ex.map(lambda sc: validate(sc, results[sc["id"]]), scs))
    for sc, v in zip(scs, validated):
        nev += judge(ck, sc, results[sc["id"]], v)
    ck.cov["whole_server"] = {"configurations": len(scs), "events_validated": nev}
    return len(scs)


def validate(sc, res):
    lines = res["lines"] or []
    events = [ln for ln in lines if ln["k"] in ("event", "fatal", "heartbeat")]
    token = next((e["token"] for e in events if e.get("token")), "")
    trace = [{"k": "cfg", "filters": sc["filters"], "token": token}] + [{k: v for k, v in ln.items() if k != "proj"} for ln in lines]
    if any(ln["k"] == "stray" for ln in lines) or len(events) < 8:
        return None, trace, token
    tr = lib.tlc("Honeytrap_Trace", workers=1, timeout=300, extra_files={"trace.ndjson": "\n".join(json.dumps(x) for x in trace) + "\n"}, want_scn=False)
    return tr, trace, token


def judge(ck, sc, res, v=None):
    tr, trace, token = v if v is not None else validate(sc, res)
    desc = "filters %s" % [(f["channels"], [e.get("kind") + ":" + "".join(e.get("s", [])) + ("|" + "".join(e["t"]) if e.get("t") else "") for e in f["cats"]],
                            [e.get("kind") + ":" + "".join(e.get("s", [])) for e in f["svcs"]]) for f in sc["filters"][1:]]
    rp = {"system": True, "filters": sc["filters"]}
    lines = res["lines"] or []
    stray = [ln for ln in lines if ln["k"] == "stray"]
    if stray:
        ck.disagree("system/event-without-known-source", "%s: event of category %s with source %s" % (desc, stray[0]["cat"], stray[0]["src"]), rp)
        return 0
    events = [ln for ln in lines if ln["k"] in ("event", "fatal", "heartbeat")]       # in bus order: ids 1..n
    if len(events) < 8:
        raise lib.Infra("whole-server scenario %s: only %d events reached the catch-all channel" % (sc["id"], len(events)))
    if not tr.ok:
        at = lib.rejected_at(tr)
        if not at:
            raise lib.Infra("Honeytrap_Trace failed without a rejected line:\n" + tr.out[-1500:])
        bad = trace[at - 1]
        if bad["k"] == "accept":
            ck.disagree("system/routed-to-other-service", "%s: connection %s was expected at %s" % (desc, json.dumps(bad["c"]), bad["svc"]), rp)
        else:
            kind = "token" if bad.get("token") != token else ("heartbeat" if bad["k"] == "heartbeat" else "delivery")
            ck.disagree("system/%s" % kind, "%s: event %s of connection %s (category %s) arrived at positions %s - not what Honeytrap.tla prescribes" % (
                desc, at, bad.get("conn"), "".join(bad.get("cat", [])), bad.get("pos")), dict(rp, line=bad))
        return len(events)
    # the file channel: the ids TLC says it holds, as projections, against the lines of its log
    # (TLC wraps a long tuple over several lines: the pattern must not depend on the layout)
    m = re.search(r'<<\s*"FILE",\s*(<<.*?>>)\s*>>', tr.out, re.S)
    if not m:
        raise lib.Infra("Honeytrap_Trace printed no FILE line:\n" + tr.out[-800:])
    ids = [int(x) for x in re.findall(r'\d+', m.group(1))]
    want = [events[i - 1]["proj"] for i in ids]
    got = res.get("file") or []
    if got != want:
        k = next((i for i, (a, b) in enumerate(zip(got, want)) if a != b), min(len(got), len(want)))
        ck.disagree("system/file-channel", "%s: the file channel's log has %d event lines, the specification %d; first difference at line %d: %s vs %s" % (
            desc, len(got), len(want), k + 1, json.dumps(got[k] if k < len(got) else None)[:160], json.dumps(want[k] if k < len(want) else None)[:160]), rp)
    return len(events)


def replay(ck, lab, rp):
    sc = {"id": 0, "filters": rp["filters"]}
    res = lib.run_sharded(lab, "sys", [sc], shards=1, timeout=600)[0]
    if res.get("error"):
        raise lib.Infra(res["error"])
    judge(ck, sc, res)
