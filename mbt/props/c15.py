"""C15 — proxy services relay requests and replies unchanged to the configured backend.
Spec: Proxy.tla (+ MC_Proxy)."""
import json, os
import lib

PROP = "C15"


def judge(ck, ex, res):
    kind = ex["kind"]
    desc = "%s exchange: %s, replies %s, %s, cut %d, %d client(s)" % (
        kind, [(r.get("method"), r.get("target"), r.get("headers"), r["body"], r.get("chunked")) for r in ex["reqs"]] if kind == "http" else [r["body"] for r in ex["reqs"]],
        ex["replies"], "pipelined" if ex["pipelined"] else "lock-step", ex["cut"], ex["clients"])
    rp = {"exchange": ex, "observed": res}
    if res["decoy_connections"]:
        ck.disagree("%s-proxy/dialled-other-address" % kind, "%s: the decoy listener received %d connection(s)" % (desc, res["decoy_connections"]), rp)
        return
    for ci in range(len(res["sent"])):
        sent, back, client, replied = res["sent"][ci] or [], res["backend"][ci] or [], res["client"][ci] or [], res["replied"][ci] or []
        if back != sent:
            if not back:
                sig, what = "%s-proxy/nothing-forwarded" % kind, "the backend received nothing"
            elif len(back) < len(sent):
                sig, what = "%s-proxy/requests-missing" % kind, "the backend received %d of %d requests" % (len(back), len(sent))
            else:
                k = next((i for i, (a, b) in enumerate(zip(sent, back)) if a != b), 0)
                fld = next((f for f in ("method", "target", "headers", "body") if sent[k].get(f) != back[k].get(f)), "?")
                sig, what = "%s-proxy/request-%s-changed" % (kind, fld), "request %d: client sent %s, backend received %s" % (k, json.dumps(sent[k])[:200], json.dumps(back[k])[:200])
            ck.disagree(sig, "%s: client %d: %s (%s)" % (desc, ci, what, res.get("notes")), rp)
            return
        if client != replied[:len(client)] or len(client) != len(sent):
            k = next((i for i, (a, b) in enumerate(zip(replied, client)) if a != b), len(client))
            ck.disagree("%s-proxy/reply-changed-or-missing" % kind, "%s: client %d: reply %d: backend sent %s, client received %s (%s)" % (
                desc, ci, k, json.dumps(replied[k])[:200] if k < len(replied) else None, json.dumps(client[k])[:200] if k < len(client) else None, res.get("notes")), rp)
            return
    nreq = sum(len(s or []) for s in res["sent"])
    evs = [e for e in (res.get("events") or []) if e.get("category") in ("http", "copy", "dns-proxy") or e.get("service") == "http-proxy"]
    want = nreq if kind != "copy" else len(res["sent"])
    if len(evs) < want:
        ck.disagree("%s-proxy/request-not-recorded" % kind, "%s: %d relayed requests, %d events" % (desc, want, len(evs)), rp)


def run(tier, lab):
    ck = lib.Check(PROP, tier, "model_checking")
    nex = 120 if tier == "quick" else 1500
    r = lib.tlc("MC_Proxy", timeout=600, constants={"Devs": "{}", "NEx": str(nex)}, tlc_seed=lib.seed(), workers=8)
    lib.tlc_must_pass(r, "Proxy (BackendSawExactlyClientSent, ClientSawExactlyBackendSent, OnlyBackendDialled) on the drawn exchanges")
    ck.add_tlc(r, "Proxy: all interleavings of send/forward/reply/back for %d drawn exchanges" % nex)
    for dev in ("adds_header", "does_nothing"):
        rd = lib.tlc("MC_Proxy", timeout=300, constants={"Devs": '{"%s"}' % dev, "NEx": "60"}, tlc_seed=lib.seed(), workers=4, want_scn=False)
        if dev == "adds_header" and rd.violated != "Inv":
            raise lib.Infra("deviation adds_header does not violate BackendSawExactlyClientSent in the model")
    exs = [dict(e, id=i) for i, e in enumerate({json.dumps(s, sort_keys=True): s for s in r.scn}.values())]
    results = {x["id"]: x for x in lib.run_sharded(lab, "c15", exs, shards=min(lib.NCPU, 8), timeout=1800)}
    kinds = {}
    for ex in exs:
        res = results.get(ex["id"])
        if res is None:
            raise lib.Infra("no result for exchange %d" % ex["id"])
        judge(ck, ex, res)
        kinds[ex["kind"]] = kinds.get(ex["kind"], 0) + 1
    ck.cov.update({"traces_validated_against_impl": len(exs), "exchanges": len(exs), "by_kind": kinds, "evaluations": len(exs),
                   "distinct_nontrivial": len(exs),
                   "rule": "exchange drawn by TLC (kind http/copy/dns; 1..3 requests with methods, targets, header sets incl. repeated names and "
                           "with/without User-Agent, bodies 0..64 KiB with content-length or chunked; reply sizes 0..64 KiB split at a cut point; "
                           "pipelined or lock-step; 1..3 concurrent clients); distinct by construction"})
    ck.sample(exs[0])
    ck.assumptions += ["the ssh proxy leg is NOT covered by this check (no ssh backend fixture was built)",
                       "content is compared at the level the property names: method, target, header multiset (Host, Content-Length and "
                       "Transfer-Encoding framing excluded), body; raw bytes for copy; datagram payloads for dns-proxy",
                       "real socket listener and forward directors on loopback; a decoy listener detects connections to other addresses"]
    return ck.finish()


def replay(lab, path):
    rp = json.load(open(path))["replay"]
    ex = dict(rp["exchange"], id=0)
    res = lib.run_sharded(lab, "c15", [ex], shards=1, timeout=300)[0]
    ck = lib.Check(PROP, "quick", "model_checking")
    ck.findings.entries = []
    judge(ck, ex, res)
    print(json.dumps(res)[:2500])
    if ck.violations:
        print("VIOLATION property=C15 replay=%s" % path)
        return 1
    return 0
