"""C15 — proxy services relay requests and replies unchanged to the configured backend.
Spec: Proxy.tla (+ MC_Proxy)."""
import json, os
import lib

PROP = "C15"


def judge_ssh(ck, ex, res):
    units = [(u["method"], u["target"], u["body"]) for u in ex["reqs"]]
    desc = "ssh exchange: %s, reply %s, %d client(s)" % (units, sum(ex["replies"]), ex["clients"])
    rp = {"exchange": ex, "observed": res}
    if res["decoy_connections"]:
        ck.disagree("ssh-proxy/dialled-other-address", "%s: the decoy listener received %d connection(s)" % (desc, res["decoy_connections"]), rp)
        return
    accepted = any(u["method"] == "auth-ok" for u in ex["reqs"])
    runs = any(u["method"] in ("shell", "exec") for u in ex["reqs"])
    for ci in range(len(res["sent"])):
        sent, back, client, replied = res["sent"][ci] or [], res["backend"][ci] or [], res["client"][ci] or [], res["replied"][ci] or []
        for what, sig in (("password", "credentials"), ("request", "channel-requests"), ("data", "channel-data")):
            a = [x for x in sent if x.get("method") == what]
            b = [x for x in back if x.get("method") == what]
            if a != b:
                ck.disagree("ssh-proxy/%s-differ" % sig, "%s: client %d sent %s, the backend received %s (%s)" % (
                    desc, ci, json.dumps(a)[:300], json.dumps(b)[:300], res.get("notes")), rp)
                return
        auth = next((x["target"] for x in client if x.get("method") == "auth"), None)
        if auth != ("accepted" if accepted else "rejected"):
            ck.disagree("ssh-proxy/authentication-outcome", "%s: client %d: the backend %s the last password, the client saw %s (%s)" % (
                desc, ci, "accepts" if accepted else "rejects", auth, res.get("notes")), rp)
            return
        if accepted and runs:
            got_err, want_err = [x for x in client if x.get("method") == "stderr"], [x for x in replied if x.get("method") == "stderr"]
            replied = [x for x in replied if x.get("method") == "data"]
            if got_err != want_err:
                ck.disagree("ssh-proxy/stderr-changed-or-missing", "%s: client %d: the backend wrote %s to the session's standard error, the client read %s (%s)" % (
                    desc, ci, json.dumps(want_err)[:200], json.dumps(got_err)[:200], res.get("notes")), rp)
                return
            got = [x for x in client if x.get("method") == "data"]
            if got != replied:
                ck.disagree("ssh-proxy/reply-changed-or-missing", "%s: client %d: backend wrote %s, client read %s (%s)" % (
                    desc, ci, json.dumps(replied)[:200], json.dumps(got)[:200], res.get("notes")), rp)
                return
            if not any(x.get("method") == "request" and x.get("target", "").startswith("exit-status") for x in client):
                ck.notes.append("MODEL-DRIFT ssh: the backend's exit-status did not reach client %d in %s" % (ci, desc[:120]))
    # every credential pair and every channel request is recorded in an event attributed to the client
    evs = res.get("events") or []
    npw = sum(1 for c in res["sent"] for x in (c or []) if x.get("method") == "password")
    nrq = sum(1 for c in res["sent"] for x in (c or []) if x.get("method") == "request")
    have_pw = sum(1 for e in evs if e.get("type") == "password-authentication")
    have_rq = sum(1 for e in evs if e.get("type") == "ssh-request")
    if have_pw < npw or have_rq < nrq:
        ck.disagree("ssh-proxy/request-not-recorded", "%s: %d credential pairs / %d channel requests relayed, %d / %d events" % (desc, npw, nrq, have_pw, have_rq), rp)


def judge(ck, ex, res):
    kind = ex["kind"]
    if kind == "ssh":
        return judge_ssh(ck, ex, res)
    desc = "%s exchange: %s, replies %s, %s, cut %d, %d client(s)" % (
        kind, [(r.get("method"), r.get("target"), r.get("headers"), r["body"], r.get("chunked")) for r in ex["reqs"]] if kind == "http" else [r["body"] for r in ex["reqs"]],
        ex["replies"], ("pipelined" if ex["pipelined"] else "lock-step") + (", client half-closes before reading" if ex.get("halfclose") else "") + (", via port-less director proxy %d" % ex["portless"] if ex.get("portless") else ""), ex["cut"], ex["clients"])
    rp = {"exchange": ex, "observed": res}
    if res["decoy_connections"]:
        ck.disagree("%s-proxy/dialled-other-address" % kind, "%s: the decoy listener received %d connection(s)" % (desc, res["decoy_connections"]), rp)
        return
    for ci in range(len(res["sent"])):
        sent, back, client, replied = res["sent"][ci] or [], res["backend"][ci] or [], res["client"][ci] or [], res["replied"][ci] or []
        if ex.get("portless") and (res.get("backend_at") or [""] * 9)[ci] != (res.get("want_at") or [""] * 9)[ci] and (res.get("backend_at") or [""] * 9)[ci]:
            ck.disagree("%s-proxy/dialled-other-address" % kind, "%s: client %d went through the proxy whose backend is %s (director host without port: the "
                        "client's port decides), its stream arrived at %s" % (desc, ci, res["want_at"][ci], res["backend_at"][ci]), rp)
            return
        if back != sent:
            if not back:
                sig, what = "%s-proxy/nothing-forwarded" % kind, "the backend received nothing"
            elif len(back) < len(sent):
                sig, what = "%s-proxy/requests-missing" % kind, "the backend received %d of %d requests" % (len(back), len(sent))
            else:
                k = next((i for i, (a, b) in enumerate(zip(sent, back)) if a != b), 0)
                fld = next((f for f in ("method", "target", "headers", "body") if sent[k].get(f) != back[k].get(f)), "?")
                sig, what = "%s-proxy/request-%s-changed" % (kind, fld), "request %d: client sent %s, backend received %s" % (k, json.dumps(sent[k])[:200], json.dumps(back[k])[:200])
            ck.disagree(sig, "%s: client %d: %s (%s)" % (desc, ci, what, res.get("notes")), rp)
            return
        if client != replied[:len(client)] or len(client) != len(sent):
            k = next((i for i, (a, b) in enumerate(zip(replied, client)) if a != b), len(client))
            ck.disagree("%s-proxy/reply-changed-or-missing" % kind, "%s: client %d: reply %d: backend sent %s, client received %s (%s)" % (
                desc, ci, k, json.dumps(replied[k])[:200] if k < len(replied) else None, json.dumps(client[k])[:200] if k < len(client) else None, res.get("notes")), rp)
            return
    nreq = sum(len(s or []) for s in res["sent"])
    evs = [e for e in (res.get("events") or []) if e.get("category") in ("http", "copy", "dns-proxy") or e.get("service") == "http-proxy"]
    want = nreq if kind != "copy" else len(res["sent"])
    if len(evs) < want:
        ck.disagree("%s-proxy/request-not-recorded" % kind, "%s: %d relayed requests, %d events" % (desc, want, len(evs)), rp)


def run(tier, lab):
    ck = lib.Check(PROP, tier, "model_checking")
    nex = 120 if tier == "quick" else 6000
    r = lib.tlc("MC_Proxy", timeout=600, constants={"Devs": "{}", "NEx": str(nex)}, tlc_seed=lib.seed(), workers=8)
    lib.tlc_must_pass(r, "Proxy (BackendSawExactlyClientSent, ClientSawExactlyBackendSent, OnlyBackendDialled) on the drawn exchanges")
    ck.add_tlc(r, "Proxy: all interleavings of send/forward/reply/back for %d drawn exchanges" % nex)
    rl = lib.tlc("MC_Proxy", cfg="MC_ProxyLive.cfg", timeout=300, constants={"Devs": "{}", "NEx": "40"}, tlc_seed=lib.seed(), workers=4, want_scn=False)
    lib.tlc_must_pass(rl, "Proxy liveness (everything arrives under fairness, also after a half-close)")
    ck.add_tlc(rl, "Proxy: liveness Arrives on 40 drawn exchanges")
    rl2 = lib.tlc("MC_Proxy", cfg="MC_ProxyLive.cfg", timeout=300, constants={"Devs": '{"returns_on_first_eof"}', "NEx": "40"}, tlc_seed=lib.seed(),
                  workers=4, want_scn=False)
    if rl2.violated is None:
        raise lib.Infra("deviation returns_on_first_eof does not violate Arrives in the model")
    rl3 = lib.tlc("MC_Proxy", cfg="MC_ProxyLive.cfg", timeout=300, constants={"Devs": '{"stderr_not_relayed"}', "NEx": "40"}, tlc_seed=lib.seed(),
                  workers=4, want_scn=False)
    if rl3.violated is None:
        raise lib.Infra("deviation stderr_not_relayed does not violate Arrives in the model")
    for dev in ("adds_header", "does_nothing"):
        rd = lib.tlc("MC_Proxy", timeout=300, constants={"Devs": '{"%s"}' % dev, "NEx": "60"}, tlc_seed=lib.seed(), workers=4, want_scn=False)
        if dev == "adds_header" and rd.violated != "Inv":
            raise lib.Infra("deviation adds_header does not violate BackendSawExactlyClientSent in the model")
    exs = [dict(e, id=i) for i, e in enumerate({json.dumps(s, sort_keys=True): s for s in r.scn}.values())]
    # ssh: the backend's reply has two streams (standard output and, as extended data of the same channel, standard error); each
    # is a FIFO leg of Proxy.tla of its own
    # (Proxy.tla's ErrOut, drawn by MC_Proxy as a list of piece sizes; the fixture writes them as one piece)
    for e in exs:
        e["stderr"] = sum(e.get("stderr") or []) if e["kind"] == "ssh" else 0
    results = {x["id"]: x for x in lib.run_sharded(lab, "c15", exs, shards=min(lib.NCPU, 8), timeout=1800)}
    kinds = {}
    for ex in exs:
        res = results.get(ex["id"])
        if res is None:
            raise lib.Infra("no result for exchange %d" % ex["id"])
        judge(ck, ex, res)
        kinds[ex["kind"]] = kinds.get(ex["kind"], 0) + 1
    ck.cov.update({"traces_validated_against_impl": len(exs), "exchanges": len(exs), "by_kind": kinds, "evaluations": len(exs),
                   "distinct_nontrivial": len(exs),
                   "rule": "exchange drawn by TLC (kind http/copy/dns/ssh; ssh: 0..2 rejected passwords, the accepted one or none, env/pty-req, shell or exec, "
                           "channel data 0..64 KiB each way; copy: with and without the client half-closing before it reads; 1..3 requests with methods, targets, header sets incl. repeated names and "
                           "with/without User-Agent, bodies 0..64 KiB with content-length or chunked; reply sizes 0..64 KiB split at a cut point; "
                           "pipelined or lock-step; 1..3 concurrent clients); distinct by construction"})
    ck.sample(exs[0])
    ck.assumptions += ["ssh: the backend fixture is a golang.org/x/crypto/ssh server accepting exactly one password; one session channel per "
                       "connection; the exit-status request racing the channel close is reported as drift only",
                       "content is compared at the level the property names: method, target, header multiset (Host, Content-Length and "
                       "Transfer-Encoding framing excluded), body; raw bytes for copy; datagram payloads for dns-proxy",
                       "real socket listener and forward directors on loopback; a decoy listener detects connections to other addresses"]
    return ck.finish()


def replay(lab, path):
    rp = json.load(open(path))["replay"]
    ex = dict(rp["exchange"], id=0)
    res = lib.run_sharded(lab, "c15", [ex], shards=1, timeout=300)[0]
    ck = lib.Check(PROP, "quick", "model_checking")
    ck.findings.entries = []
    judge(ck, ex, res)
    print(json.dumps(res)[:2500])
    if ck.violations:
        print("VIOLATION property=C15 replay=%s" % path)
        return 1
    return 0
