"""C19 — exactly the well-formed port entries that name a service are listened on.
Spec: Ports.tla (+ MC_Ports, Ports_Trace)."""
import json, os, re
import lib

PROP = "C19"


def norm_addr(a):
    return (a["proto"], a["ip"], a["port"])


def compare(ck, sc, res):
    exp_l = [norm_addr(a) for a in sc["listened"]]
    got_l = [norm_addr(a) for a in res["listened"]]
    texts = [[p["text"] for p in (e["ports"] if e["hasPorts"] else []) + e["port"]] + [e["svcs"]] for e in sc["cfg"]]
    rp = {"cfg": sc["cfg"], "targets": sc["targets"], "listened": sc["listened"], "reach": sc["reach"], "observed": res}
    if res.get("notes"):
        ck.disagree("ports/probe-stuck", "%s: %s" % (texts, res["notes"][:2]), rp)
        return
    if sorted(exp_l) != sorted(got_l):
        extra = [a for a in got_l if a not in exp_l]
        missing = [a for a in exp_l if a not in got_l]
        kind = "listens-on-unexpected" if extra else "does-not-listen"
        ck.disagree("ports/%s" % kind, "config %s: spec listens on %s, real server asked the listener for %s" % (texts, exp_l, got_l), rp)
        return
    for t, e, g in zip(sc["targets"], sc["reach"], res["reach"]):
        if e != g:
            ck.disagree("ports/reach", "config %s: connection to %s reaches %s, spec says %s" % (texts, norm_addr(t), g, e), rp)
            return
    if exp_l != got_l:
        # same set, different order: the property does not order the listen calls
        ck.notes.append("listen order differs from the specification for %s" % texts)


def decompose(text):
    """structural description of the simple numeric strings used for the flat parse space"""
    m = re.match(r'^(tcp|udp)/(?:(\d+\.\d+\.\d+\.\d+):)?(-?\d+)$', text)
    proto, host, num = m.group(1), m.group(2) or "", int(m.group(3))
    return proto, host, (num if num >= 0 else -1)


def parse_space(ck, lab):
    out = os.path.join(lib.scratch(), "c19-parse.ndjson")
    rc, so, se = lib.run_lab(lab, ["c19", "-parse", "-out", out])
    if rc != 0:
        raise lib.Infra("lab c19 -parse rc=%d %s" % (rc, se[-1000:]))
    rows = lib.read_ndjson(out)
    for r in rows:
        r["mproto"], r["mhost"], r["mnum"] = decompose(r["text"])
        for k, d in (("proto", ""), ("ip", ""), ("port", -1), ("proto2", ""), ("port2", -1)):
            r.setdefault(k, d)
    path = os.path.join(lib.scratch(), "c19-trace.ndjson")
    lib.write_ndjson(path, rows)
    tr = lib.tlc("Ports_Trace", workers=1, timeout=600, extra_files={"trace.ndjson": path}, want_scn=False)
    ck.add_tlc(tr, "Ports_Trace: ToAddr over all port numbers -5..65540")
    if not tr.ok:
        at = lib.rejected_at(tr)
        if not at:
            raise lib.Infra("Ports_Trace failed without a rejected line:\n" + tr.out[-1500:])
        bad = rows[at - 1]
        ck.disagree("ports/parse", "ToAddr(%r) -> %s, not what Ports!WellFormed/Addr prescribe" % (bad["text"], json.dumps(bad)),
                    {"parse": bad})
    return len(rows)


def run(tier, lab):
    ck = lib.Check(PROP, tier, "model_checking")
    r1 = lib.tlc("MC_Ports", timeout=240, constants={"NEntries": "1", "MaxPorts": "1", "Sim": "FALSE"})
    lib.tlc_must_pass(r1, "Ports single-entry exhaustive (ListenedExactly, ReachUnique)")
    ck.add_tlc(r1, "Ports: every single [[port]] entry over 21 port strings x port/ports keys x 10 service lists, exhaustive")
    n = 300 if tier == "quick" else 20000
    r2 = lib.tlc("MC_Ports", timeout=240, constants={"NEntries": "4", "MaxPorts": "1", "Sim": "TRUE"}, simulate=n, depth=6,
                 tlc_seed=lib.seed(), workers=1)
    lib.tlc_must_pass(r2, "Ports multi-entry simulate")
    ck.add_tlc(r2, "Ports: up to 4 entries, ports lists up to 2 strings (-simulate)")
    scs = [dict(s, id=i) for i, s in enumerate(r1.scn + r2.scn)]
    slim = [{"id": s["id"], "cfg": s["cfg"], "targets": s["targets"]} for s in scs]
    results = lib.run_sharded(lab, "c19", slim, shards=min(lib.NCPU, 14))
    byid = {r["id"]: r for r in results}
    nontrivial = 0
    for sc in scs:
        res = byid.get(sc["id"])
        if res is None or res.get("error"):
            raise lib.Infra("scenario %s: %s" % (sc["id"], res and res.get("error")))
        compare(ck, sc, res)
        if sc["listened"]:
            nontrivial += 1
    nparse = parse_space(ck, lab)
    ck.cov.update({
        "traces_validated_against_impl": len(scs) + 1, "configurations_replayed": len(scs),
        "single_entry_configs": len(r1.scn), "multi_entry_configs": len(r2.scn),
        "configs_listening_on_something": nontrivial, "probe_connections": sum(len(s["targets"]) for s in scs),
        "port_strings_parsed": nparse, "evaluations": len(scs) + nparse, "distinct_nontrivial": nontrivial,
        "exhaustive": True,
        "rule": "configuration = sequence of [[port]] entries; single-entry space enumerated completely, up to 4 entries by "
                "-simulate; non-trivial = the specification listens on at least one address",
    })
    ck.sample({"cfg": scs[4000 % len(scs)]["cfg"], "listened": scs[4000 % len(scs)]["listened"]})
    ck.sample({"cfg": scs[-1]["cfg"], "listened": scs[-1]["listened"], "reach": scs[-1]["reach"]})
    ck.assumptions += ["only IP literals are used as hosts (no DNS offline)", "0.0.0.0 is not used (whether it is 'unspecified' "
                       "for the compatibility rule is not fixed by the property)",
                       "the order of listen calls is not part of the property (compared as a set)"]
    return ck.finish()


def replay(lab, path):
    rp = json.load(open(path))["replay"]
    if "parse" in rp:
        ck = lib.Check(PROP, "quick", "model_checking")
        ck.findings.entries = []
        parse_space(ck, lab)
        if ck.violations:
            print("VIOLATION property=C19 replay=%s" % path)
            return 1
        return 0
    sc = dict(rp, id=0)
    res = lib.run_sharded(lab, "c19", [{"id": 0, "cfg": sc["cfg"], "targets": sc["targets"]}], shards=1)[0]
    ck = lib.Check(PROP, "quick", "model_checking")
    ck.findings.entries = []
    compare(ck, sc, res)
    print(json.dumps(res, indent=1))
    if ck.violations:
        print("VIOLATION property=C19 replay=%s" % path)
        return 1
    return 0


def selftest(lab):
    """binding demonstration for Ports_Trace: the recorded parse results are accepted; one corrupted field is rejected"""
    out = os.path.join(lib.scratch(), "c19-parse.ndjson")
    rc, so, se = lib.run_lab(lab, ["c19", "-parse", "-out", out])
    rows = lib.read_ndjson(out)[:3000]
    for r in rows:
        r["mproto"], r["mhost"], r["mnum"] = decompose(r["text"])
        for k, d in (("proto", ""), ("ip", ""), ("port", -1), ("proto2", ""), ("port2", -1)):
            r.setdefault(k, d)

    def validate(rs, tag):
        path = os.path.join(lib.scratch(), "c19-selftest-%s.ndjson" % tag)
        lib.write_ndjson(path, rs)
        return lib.tlc("Ports_Trace", workers=1, timeout=300, extra_files={"trace.ndjson": path}, want_scn=False)
    clean = validate(rows, "clean")
    bad = json.loads(json.dumps(rows))
    k = next(i for i, r in enumerate(bad) if r["port"] == 80)
    bad[k]["port"] = 81
    r1 = validate(bad, "port")
    bad2 = json.loads(json.dumps(rows))
    k2 = next(i for i, r in enumerate(bad2) if r["proto"] == "tcp")
    bad2[k2]["proto"] = "udp"
    r2 = validate(bad2, "proto")
    print("selftest C19: clean accepted=%s; port 80 recorded as 81 rejected=%s (line %s, expected %d); tcp recorded as udp rejected=%s" % (
        clean.ok, not r1.ok, lib.rejected_at(r1), k + 1, not r2.ok))
    return 0 if clean.ok and not r1.ok and lib.rejected_at(r1) == k + 1 and not r2.ok else 1
