"""C06 — every event reaches exactly the channels whose filters admit it.  Spec: Bus.tla (+ MC_Bus)."""
import json, os
import lib

PROP = "C06"


def describe(f):
    def rx(e):
        s, t = "".join(e["s"]), "".join(e["t"])
        return {"lit": s, "pre": "^" + s, "full": "^" + s + "$", "alt": s + "|" + t}[e["kind"]]
    return {"channel": f["channels"], "categories": [rx(e) for e in f["cats"]], "services": [rx(e) for e in f["svcs"]]}


def compare(ck, sc, res, events):
    cfg = [describe(f) for f in sc["filters"]]
    rp = {"filters": sc["filters"], "delivered": sc["delivered"], "observed": res}
    if not res["token_ok"]:
        ck.disagree("bus/token", "config %s: %s" % (cfg, res.get("token_note")), rp)
        return
    for ch in ("a", "b", "c"):
        exp, got = sc["delivered"][ch], res["delivered"][ch]
        if exp == got:
            continue
        if sorted(exp) == sorted(got):
            ck.disagree("bus/order", "config %s: channel %s received %s, specification order %s" % (cfg, ch, got[:12], exp[:12]), rp)
            return
        extra = [i for i in got if got.count(i) > exp.count(i)]
        missing = [i for i in exp if exp.count(i) > got.count(i)]
        ev = events[(extra or missing)[0] - 1]
        kind = "delivered-but-not-admitted" if extra else "admitted-but-not-delivered"
        ck.disagree("bus/%s" % kind,
                    "config %s: channel %s, event category=%s service=%s: spec delivers it %d time(s), real bus %d" % (
                        cfg, ch, ev["cat"], ev["svc"], exp.count(ev["id"]), got.count(ev["id"])), rp)
        return


def run(tier, lab):
    ck = lib.Check(PROP, tier, "model_checking")
    r1 = lib.tlc("MC_Bus", timeout=300, constants={"NFilters": "1", "Sim": "FALSE"})
    lib.tlc_must_pass(r1, "Bus single-filter exhaustive (ExactlyAdmitted, OrderPreserved, ChannelIndependence)")
    ck.add_tlc(r1, "Bus: 0..1 filter over 9 channel lists x 10 category lists x 10 service lists, 64 events each, exhaustive")
    events = next(s["events"] for s in r1.scn if s["events"])
    n = 120 if tier == "quick" else 3000
    r2 = lib.tlc("MC_Bus", timeout=600, constants={"NFilters": "4", "Sim": "TRUE"}, simulate=max(1, n // 8), depth=80,
                 tlc_seed=lib.seed(), workers=8)
    lib.tlc_must_pass(r2, "Bus 4-filter simulate")
    ck.add_tlc(r2, "Bus: 4 filters sampled (-simulate), 64 events each")
    r3 = lib.tlc("MC_Bus", timeout=600, constants={"NFilters": "2", "Sim": "TRUE"}, simulate=max(1, n // 16), depth=80,
                 tlc_seed=lib.seed() + 1, workers=8)
    lib.tlc_must_pass(r3, "Bus 2-filter simulate")
    ck.add_tlc(r3, "Bus: 2 filters sampled (-simulate)")
    scs = [dict(s, id=i) for i, s in enumerate(r1.scn + r2.scn + r3.scn)]
    evf = os.path.join(lib.scratch(), "c06-events.json")
    json.dump(events, open(evf, "w"))
    slim = [{"id": s["id"], "filters": s["filters"]} for s in scs]
    results = lib.run_sharded(lab, "c06", slim, shards=min(lib.NCPU, 12), extra_args=["-events", evf])
    byid = {r["id"]: r for r in results}
    nontrivial = 0
    for sc in scs:
        res = byid.get(sc["id"])
        if res is None or res.get("error"):
            raise lib.Infra("scenario %s: %s" % (sc["id"], res and res.get("error")))
        compare(ck, sc, res, events)
        if any(sc["delivered"][c] for c in "abc") and any(len(sc["delivered"][c]) < len(events) for c in "abc"):
            nontrivial += 1
    # the same property on the whole server: real services emit the events, the real file channel is one of the channels
    import wholeserver, random
    nsys = wholeserver.run(ck, tier, lab, random.Random(lib.seed()))
    ck.cov.update({
        "traces_validated_against_impl": len(scs) + nsys, "configurations_replayed": len(scs),
        "events_per_configuration": len(events), "evaluations": len(scs) * len(events),
        "distinct_nontrivial": nontrivial, "exhaustive": True,
        "rule": "configuration = filter list; every configuration receives the full 8x8 (category, service) value alphabet; "
                "non-trivial = some but not all events are delivered somewhere",
    })
    ck.sample({"filters": [describe(f) for f in scs[300]["filters"]], "delivered": scs[300]["delivered"]})
    ck.sample({"filters": [describe(f) for f in scs[-1]["filters"]], "delivered": scs[-1]["delivered"]})
    ck.assumptions += ["a missing or non-string category/service field is matched as the empty string",
                       "regular expressions are drawn from literal / ^prefix / ^full$ / alternation / empty; "
                       "Bus!Match is the meaning given to them",
                       "whole-server part (Honeytrap.tla): real http/telnet (shared port), ftp, redis and a stub that panics on demand; clients "
                       "connect one at a time; events are identified across capture channels by object identity and in the file channel's log "
                       "by category, source, token and protocol field"]
    return ck.finish()


def replay(lab, path):
    rp = json.load(open(path))["replay"]
    if rp.get("system"):
        import wholeserver
        ck = lib.Check(PROP, "quick", "model_checking")
        ck.findings.entries = []
        wholeserver.replay(ck, lab, rp)
        for sig, p, what in ck.violations:
            print(sig, what[:400])
        if ck.violations:
            print("VIOLATION property=C06 replay=%s" % path)
            return 1
        return 0
    r1 = lib.tlc("MC_Bus", timeout=300, constants={"NFilters": "0", "Sim": "FALSE"})
    events = next(s["events"] for s in r1.scn if s["events"])
    evf = os.path.join(lib.scratch(), "c06-events.json")
    json.dump(events, open(evf, "w"))
    sc = {"id": 0, "filters": rp["filters"], "delivered": rp["delivered"]}
    res = lib.run_sharded(lab, "c06", [{"id": 0, "filters": rp["filters"]}], shards=1, extra_args=["-events", evf])[0]
    ck = lib.Check(PROP, "quick", "model_checking")
    ck.findings.entries = []
    compare(ck, sc, res, events)
    print(json.dumps(res)[:2000])
    if ck.violations:
        print("VIOLATION property=C06 replay=%s" % path)
        return 1
    return 0


def selftest(lab):
    """binding demonstration for Honeytrap_Trace: the whole-server trace recorded from the real server is accepted; a wrong
    delivery position, a wrong category, a missing token and a connection routed to another service are rejected"""
    import wholeserver
    sc = {"id": 0, "filters": [wholeserver.CATCH_ALL, {"channels": ["a", "f"], "cats": [{"kind": "lit", "s": ["t", "p"]}], "svcs": []},
                               {"channels": ["b"], "cats": [], "svcs": [{"kind": "full", "s": []}]}]}
    res = lib.run_sharded(lab, "sys", [sc], shards=1)[0]
    clean, trace, token = wholeserver.validate(sc, res)

    def check(mutate):
        r2 = json.loads(json.dumps(res))
        mutate(r2["lines"])
        tr, _, _ = wholeserver.validate(sc, r2)
        return tr is not None and not tr.ok
    first_a = lambda ls: next(ln for ln in ls if ln["k"] == "event" and ln["pos"]["a"])

    def m_pos(ls):
        first_a(ls)["pos"]["a"] = []

    def m_cat(ls):
        next(ln for ln in ls if ln["k"] == "event" and "".join(ln["cat"]) == "ftp")["cat"] = list("telnet")

    def m_tok(ls):
        [ln for ln in ls if ln["k"] == "event"][3]["token"] = ""

    def m_route(ls):
        next(ln for ln in ls if ln["k"] == "accept" and ln["svc"] == "telnet")["svc"] = "http"
    out = {"position": check(m_pos), "category": check(m_cat), "token": check(m_tok), "routing": check(m_route)}
    print("selftest C06 (whole server): clean accepted=%s; corrupted rejected: %s" % (clean is not None and clean.ok, out))
    return 0 if clean is not None and clean.ok and all(out.values()) else 1
