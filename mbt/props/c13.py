"""C13 — the recorded JA3 fingerprint is the specification's JA3 of the ClientHello sent.
Spec: Ja3.tla (+ MC_Ja3)."""
import hashlib, json, os, random
import lib

PROP = "C13"


def describe(h):
    return "vers=%d ciphers=%s exts=%s groups=%s points=%s sni=%r" % (h["vers"], h["ciphers"], h["exts"], h["groups"], h["points"], h["sni"])


def run(tier, lab):
    ck = lib.Check(PROP, tier, "model_checking")
    rng = random.Random(lib.seed())
    r1 = lib.tlc("MC_Ja3", timeout=300, constants={"Sim": "FALSE", "MaxC": "3", "MaxE": "3"}, workers=4)
    lib.tlc_must_pass(r1, "Ja3 exhaustive small hellos (GreaseInvariant, OrderSensitive)")
    ck.add_tlc(r1, "Ja3: all hellos over 2 versions x <=2 of 4 ciphers x <=2 of 5 extension types x 3 group lists x 3 point lists")
    n = 300 if tier == "quick" else 40000
    r2 = lib.tlc("MC_Ja3", timeout=600, constants={"Sim": "TRUE", "MaxC": "40", "MaxE": "20"}, simulate=max(1, n // 8), depth=3,
                 tlc_seed=lib.seed(), workers=8)
    lib.tlc_must_pass(r2, "Ja3 simulate large hellos")
    ck.add_tlc(r2, "Ja3: random hellos up to 40 ciphers / 20 extensions (-simulate)")
    pool = r1.scn if tier == "thorough" else rng.sample(r1.scn, min(350, len(r1.scn)))
    items = []
    for s in pool + r2.scn:
        frag = []
        if rng.random() < 0.3:
            # record-layer fragmentation of the hello
            frag = sorted({rng.randint(1, 40) for _ in range(rng.randint(1, 3))})
        items.append({"id": len(items), "hello": s["hello"], "ja3": s["ja3"], "frag": frag})
    items.append({"id": len(items), "hello": {"vers": 771, "ciphers": [], "exts": [], "groups": [], "points": [], "sni": "a.example"},
                  "ja3": None, "frag": [], "real": True})
    results = {r["id"]: r for r in lib.run_sharded(lab, "c13", items, shards=4, timeout=2400)}
    greasy = 0
    for it in items:
        res = results.get(it["id"])
        if res is None:
            raise lib.Infra("no result for hello %d" % it["id"])
        h = it["hello"]
        rp = {"hello": h, "frag": it["frag"], "real": it.get("real", False), "ja3": it["ja3"]}
        if it.get("real"):
            want = res["harness_ja3"]
            if res.get("note"):
                ck.disagree("https/real-handshake", "complete handshake with crypto/tls failed: %s (events %s)" % (res["note"], res["events"]), rp)
            elif res["event_type"] != "request":
                ck.disagree("https/no-request-event", "after a complete handshake and GET the events are %s: no http request event carries the digest" % res["events"], rp)
            elif res["digest"] != hashlib.md5(want.encode()).hexdigest():
                ck.disagree("https/ja3-digest", "real client hello %s: recorded %s" % (want, res["digest"]), rp)
            continue
        if res["harness_ja3"] != it["ja3"]:
            raise lib.Infra("the harness's JA3 (%s) disagrees with Ja3.tla (%s) for %s" % (res["harness_ja3"], it["ja3"], describe(h)))
        if any(v in range(0x0a0a, 0x10000, 0x1010) for v in h["ciphers"] + h["exts"] + h["groups"]):
            greasy += 1
        want = hashlib.md5(it["ja3"].encode()).hexdigest()
        if res.get("note"):
            ck.disagree("https/connection", "%s: %s" % (describe(h), res["note"]), rp)
        elif not res["events"]:
            ck.disagree("https/no-event", "%s: no event for the connection" % describe(h), rp)
        elif res["digest"] != want:
            kind = "no-digest" if not res["digest"] else "ja3-digest"
            ck.disagree("https/%s" % kind, "%s (fragments %s): spec string %r -> %s, recorded %r" % (describe(h), it["frag"], it["ja3"], want, res["digest"]), rp)
        elif res["server_name"] != h["sni"]:
            ck.disagree("https/server-name", "%s: recorded server name %r" % (describe(h), res["server_name"]), rp)
    ck.cov.update({"traces_validated_against_impl": len(items), "hellos_sent": len(items), "hellos_with_grease": greasy,
                   "evaluations": len(items), "distinct_nontrivial": len(items),
                   "rule": "hello = record generated from Ja3.tla (exhaustive small space sampled in quick, -simulate up to 40 ciphers / "
                           "20 extensions), 30% sent fragmented over several TLS records; one complete handshake with crypto/tls"})
    ck.sample({"hello": items[5]["hello"], "ja3": items[5]["ja3"]})
    ck.sample({"hello": items[-2]["hello"], "ja3": items[-2]["ja3"]})
    ck.assumptions += ["MD5 is computed by the orchestrator (hashlib) over the string Ja3.tla prescribes", "the hello serialiser and "
                       "the harness's own JA3 are cross-checked against Ja3.tla on every generated hello",
                       "extension bodies are well-formed for the types the TLS library parses; at most 3 server names per run"]
    return ck.finish()


def replay(lab, path):
    rp = json.load(open(path))["replay"]
    it = {"id": 0, "hello": rp["hello"], "frag": rp["frag"], "real": rp.get("real", False)}
    res = lib.run_sharded(lab, "c13", [it], shards=1, timeout=600)[0]
    print(json.dumps(res, indent=1))
    if rp.get("real"):
        bad = res["event_type"] != "request" or res["digest"] != hashlib.md5(res["harness_ja3"].encode()).hexdigest()
    else:
        bad = res["digest"] != hashlib.md5(rp["ja3"].encode()).hexdigest() or res["server_name"] != rp["hello"]["sni"]
    if bad:
        print("VIOLATION property=C13 replay=%s" % path)
        return 1
    return 0
