"""C04 — every client command is captured exactly once, however the stream is segmented.
Spec: Framing.tla (+ MC_Framing).  TLC proves SegmentationIndependence on abstract request streams and
enumerates the cut sets; real protocol streams are sent to the real server whole, with every single byte
cut, with TLC's multi-cut sets over the request landmarks, dribbled, and lock-step; the captured events
(decoded fields) must be exactly Framing!RefParse of the stream: one per request, in order."""
import json, os, random
import lib, protocols as P

PROP = "C04"
SERVICES = os.environ.get("C04_SERVICES", ",".join(list(P.C04) + ["udp"])).split(",")


def norm_stream(st):
    if isinstance(st, dict):
        return st.get("setup", []), st.get("skip", 0), st["reqs"]
    return [], 0, st


def chunks_of(reqs):
    """byte offsets of chunk boundaries following Framing's stream structure (h=2 pieces + terminator, b=2 pieces)"""
    bounds, shape, pos = [], [], 0
    for r in reqs:
        h, b = r["h"], r["b"]
        cuts = [len(h) - 2, len(h) - 1, len(h)]
        if b:
            cuts += [len(h) + len(b) // 2, len(h) + len(b)]
        for c in cuts:
            bounds.append(pos + c)
        pos += len(h) + len(b)
        shape.append({"h": 2, "b": 2 if b else 0})
    return bounds, shape, pos


def scenario(svc, sid, ip, setup, reqs, cuts, mode, greet):
    port = P.PORTS[svc]
    steps = [{"op": "open", "c": "c", "laddr": "127.0.0.1:%d" % port, "raddr": "%s:%d" % (ip, 7000)}]
    if greet[0] != "none":
        steps.append({"op": "recv", "c": "c", "until": greet[0], "re": greet[1], "timeout_ms": 3000, "quiet_ms": 40})
    for tok in setup:
        steps.append({"op": "send", "c": "c", "hex": tok["bytes"].hex()})
        steps.append({"op": "recv", "c": "c", "until": tok["wait"], "re": tok["re"], "timeout_ms": 3000, "quiet_ms": 40})
    data = b"".join(r["h"] + r["b"] for r in reqs)
    if mode == "lockstep":
        for r in reqs:
            steps.append({"op": "send", "c": "c", "hex": (r["h"] + r["b"]).hex()})
            steps.append({"op": "recv", "c": "c", "until": "quiet", "quiet_ms": 50, "timeout_ms": 800})
    else:
        steps.append({"op": "send", "c": "c", "hex": data.hex(), "cuts": cuts, "gap_ms": 2 if len(cuts) > 6 else 6})
        steps.append({"op": "recv", "c": "c", "until": "quiet", "quiet_ms": 80, "timeout_ms": 1500})
    steps.append({"op": "shut", "c": "c"})
    steps.append({"op": "recv", "c": "c", "until": "eof", "timeout_ms": 400})
    steps.append({"op": "events", "wait_ms": 80})
    return {"id": sid, "steps": steps}


def project(events, ip, keys, skip):
    out = []
    for e in events:
        if e.get("source-ip") != ip:
            continue
        p = {k: e[k] for k in keys if k in e}
        if [k for k in p if k != "type"]:
            out.append(p)
    return out[skip:]


def matches(exp, got):
    """expected projections list only the keys they care about"""
    if len(exp) != len(got):
        return False
    return all(all(g.get(k) == v for k, v in e.items()) for e, g in zip(exp, got))


def run_tcp(ck, lab, svc, tier, cutsets_by_shape, rng):
    spec = P.C04[svc]
    scs, info = [], {}
    n = 0
    for si, st in enumerate(spec["streams"]):
        setup, skip, reqs = norm_stream(st)
        bounds, shape, total = chunks_of(reqs)
        expected = [e for r in reqs for e in r["ev"]]
        plans = [("whole", [])]
        plans += [("cut1", [c]) for c in range(1, total)]
        key = json.dumps(shape)
        tl = cutsets_by_shape.get(key, [])
        for cs in (tl if tier == "thorough" or len(tl) <= 40 else rng.sample(tl, 40)):
            plans.append(("landmarks", [bounds[c - 1] for c in sorted(cs)]))
        plans.append(("dribble", list(range(1, total))))
        for _ in range(3 if tier == "quick" else 60):
            k = rng.randint(2, 6)
            plans.append(("multi", sorted(rng.sample(range(1, total), min(k, total - 1)))))
        if len(reqs) > 1:
            plans.append(("lockstep", []))
        for mode, cuts in plans:
            ip = "10.4.%d.%d" % (n // 250, 1 + n % 250)
            scs.append(scenario(svc, n, ip, setup, reqs, cuts, mode, spec["greet"]))
            info[n] = (si, mode, cuts, ip, skip, expected)
            n += 1
    cfg = os.path.join(lib.scratch(), "c04-%s.toml" % svc)
    open(cfg, "w").write(P.cfg_all([svc]))
    results = lib.run_sharded(lab, "script", scs, shards=1, extra_args=["-config", cfg, "-par", "24"], timeout=2400)
    first_bad = {}
    for res in results:
        si, mode, cuts, ip, skip, expected = info[res["id"]]
        if res.get("error"):
            raise lib.Infra("%s scenario %d: %s" % (svc, res["id"], res["error"]))
        evs = [e for ob in res["obs"] if ob["op"] == "events" for e in (ob.get("events") or [])]
        got = project(evs, ip, spec["keys"], skip)
        if not matches(expected, got):
            kind = "whole-stream" if mode in ("whole", "lockstep") else "segmentation"
            sig = "%s/%s/events-differ" % (svc, kind)
            if (sig, si) in first_bad:
                first_bad[(sig, si)][1] += 1
                continue
            first_bad[(sig, si)] = [(mode, cuts, expected, got), 1]
    for (sig, si), ((mode, cuts, expected, got), count) in first_bad.items():
        diff = next((i for i, (e, g) in enumerate(zip(expected, got)) if not all(g.get(k) == v for k, v in e.items())), min(len(expected), len(got)))
        ck.disagree(sig, "%s stream %d, %s cuts %s (%d segmentations fail): %d events for %d expected; first difference at #%d: expected %s, got %s" % (
            svc, si, mode, cuts[:8], count, len(got), len(expected), diff,
            json.dumps(expected[diff])[:150] if diff < len(expected) else None, json.dumps(got[diff])[:150] if diff < len(got) else None),
            {"svc": svc, "stream": si, "mode": mode, "cuts": cuts})
    return len(scs)


def run_udp(ck, lab):
    n = 0
    for svc, spec in P.C04_UDP.items():
        port = P.PORTS[svc]
        steps = []
        ip = "10.4.200.%d" % (1 + n)
        for k, (dg, ev) in enumerate(spec["dgrams"]):
            steps.append({"op": "udp", "laddr": "127.0.0.1:%d" % port, "raddr": "%s:%d" % (ip, 7000 + k), "hex": dg.hex(), "timeout_ms": 3000})
        steps.append({"op": "events", "wait_ms": 60})
        cfg = os.path.join(lib.scratch(), "c04-udp-%s.toml" % svc)
        open(cfg, "w").write(P.cfg_all([svc]))
        res = lib.run_sharded(lab, "script", [{"id": 0, "steps": steps}], shards=1, extra_args=["-config", cfg], timeout=600)[0]
        evs = [e for ob in res["obs"] if ob["op"] == "events" for e in (ob.get("events") or [])]
        got = project(evs, ip, spec["keys"], 0)
        expected = [e for dg, ev in spec["dgrams"] for e in ev]
        stuck = [k for k, ob in enumerate(res["obs"]) if ob["op"] == "udp" and not ob.get("done")]
        if not matches(expected, got):
            ck.disagree("%s/udp/events-differ" % svc, "%s over udp: %d datagrams sent, events %s, expected %s" % (
                svc, len(spec["dgrams"]), json.dumps(got)[:200], json.dumps(expected)[:200]), {"svc": svc, "udp": True})
        n += 1
    return n


def socket_scenarios():
    """the datagram services behind honeytrap's own socket listener: 48 datagrams each from its own source address, sent back
    to back (several in flight between the receive loop and their handlers)"""
    scs = []
    for svc, spec in P.C04_UDP.items():
        if svc == "dns":
            dg = [(P.dns_query(0x1000 + 7 * i, "h%d.example.org" % i), [{"dns.id": str(0x1000 + 7 * i)}]) for i in range(48)]
        else:
            dg = [spec["dgrams"][i % len(spec["dgrams"])] for i in range(48)]
        scs.append({"id": len(scs), "svc": svc, "extra": "", "dgrams": [d.hex() for d, _ in dg], "gap_us": 0, "expect": [ev for _, ev in dg]})
    return scs


def judge_socket(sc, res):
    """-> (wrong, missing): datagrams whose events carry something else than their own fields / that have no events"""
    spec = P.C04_UDP[sc["svc"]]
    wrong, missing = [], []
    for i, exp in enumerate(sc["expect"]):
        ip = "127.9.%d.%d" % (i // 250, 1 + i % 250)
        got = project(res.get("events") or [], ip, spec["keys"], 0)
        if matches(exp, got):
            continue
        (missing if not got else wrong).append((i, exp, got))
    return wrong, missing


def run_udp_socket(ck, lab):
    scs = socket_scenarios()
    slim = lambda xs: [{k: v for k, v in s.items() if k != "expect"} for s in xs]
    results = {r["id"]: r for r in lib.run_sharded(lab, "udpsock", slim(scs), shards=min(len(scs), 5), timeout=600)}
    for sc in scs:
        res = results[sc["id"]]
        if res.get("error"):
            raise lib.Infra("udpsock %s: %s" % (sc["svc"], res["error"]))
        wrong, missing = judge_socket(sc, res)
        if not wrong and not missing:
            continue
        # datagrams may be lost on the way (that is no fault of the listener): believe it only if it happens again, twice
        again = [judge_socket(sc, r) for r in lib.run_sharded(lab, "udpsock", slim([dict(sc, id=0), dict(sc, id=1)]), shards=2, timeout=600)]
        if not all(w or m for w, m in again):
            ck.notes.append("%s behind the socket listener: %d of 48 datagrams without their events in one run, not reproduced" % (sc["svc"], len(wrong) + len(missing)))
            continue
        i, exp, got = (wrong or missing)[0]
        ck.disagree("%s/udp-socket/%s" % (sc["svc"], "events-of-another-datagram" if wrong else "datagram-not-reported"),
                    "%s behind the socket listener, 48 datagrams back to back from 48 sources: datagram %d produced %s, expected %s (%d wrong, %d unreported; "
                    "reproduced in two more runs)" % (sc["svc"], i, json.dumps(got)[:160], json.dumps(exp)[:160], len(wrong), len(missing)),
                    {"svc": sc["svc"], "udp_socket": True})
    return len(scs) * 48


def run(tier, lab):
    ck = lib.Check(PROP, tier, "model_checking")
    rng = random.Random(lib.seed())
    cutsets = {}
    for sid in (1, 2, 3):
        r = lib.tlc("MC_Framing", timeout=300, constants={"Devs": "{}", "ShapeId": str(sid)})
        lib.tlc_must_pass(r, "Framing shape %d (SegmentationIndependence, PrefixAlways)" % sid)
        ck.add_tlc(r, "Framing: all segmentations of abstract stream shape %d" % sid)
        seen = set()
        for s in r.scn:
            key = json.dumps(s["shape"])
            t = tuple(sorted(s["cuts"]))
            if t not in seen and len(t) >= 2:
                seen.add(t)
                cutsets.setdefault(key, []).append(list(t))
    for dev in ("reader_per_request", "body_single_read"):
        rd = lib.tlc("MC_Framing", timeout=200, constants={"Devs": '{"%s"}' % dev, "ShapeId": "2"}, want_scn=False)
        if rd.violated != "Inv":
            raise lib.Infra("deviation %s does not violate SegmentationIndependence in the model" % dev)
    total = 0
    for svc in SERVICES:
        if svc == "udp":
            total += run_udp(ck, lab)
            total += run_udp_socket(ck, lab)
            continue
        n = run_tcp(ck, lab, svc, tier, cutsets, rng)
        ck.cov.setdefault("per_service", {})[svc] = n
        total += n
    ck.cov.update({"traces_validated_against_impl": total, "evaluations": total, "distinct_nontrivial": total,
                   "rule": "scenario = (service, request stream, segmentation): whole, every single byte cut (exhaustive), TLC's cut "
                           "sets over request landmarks (sampled in quick), 1-byte dribble, random multi-cuts, lock-step; one "
                           "connection each; distinct by construction"})
    ck.sample({"svc": "memcached", "stream": [[r["h"].decode(), r["b"].decode()] for r in P.C04["memcached"]["streams"][1]],
               "expected_events": [e for r in P.C04["memcached"]["streams"][1] for e in r["ev"]]})
    ck.assumptions += ["decoded fields compared are the ones each service documents for its command events (per-service key list in "
                       "mbt/protocols.py); bytes the service never decodes are not compared",
                       "services that serve one request per connection get one request per connection"]
    return ck.finish()


def replay(lab, path):
    rp = json.load(open(path))["replay"]
    ck = lib.Check(PROP, "quick", "model_checking")
    ck.findings.entries = []
    if rp.get("udp_socket"):
        run_udp_socket(ck, lab)
    elif rp.get("udp"):
        run_udp(ck, lab)
    else:
        svc = rp["svc"]
        spec = P.C04[svc]
        setup, skip, reqs = norm_stream(spec["streams"][rp["stream"]])
        expected = [e for r in reqs for e in r["ev"]]
        ip = "10.4.0.1"
        sc = scenario(svc, 0, ip, setup, reqs, rp["cuts"], rp["mode"], spec["greet"])
        cfg = os.path.join(lib.scratch(), "c04-%s.toml" % svc)
        open(cfg, "w").write(P.cfg_all([svc]))
        res = lib.run_sharded(lab, "script", [sc], shards=1, extra_args=["-config", cfg])[0]
        evs = [e for ob in res["obs"] if ob["op"] == "events" for e in (ob.get("events") or [])]
        got = project(evs, ip, spec["keys"], skip)
        print("expected", json.dumps(expected)[:1500])
        print("got     ", json.dumps(got)[:1500])
        if not matches(expected, got):
            ck.violations.append(("x", path, "x"))
    if ck.violations:
        print("VIOLATION property=C04 replay=%s" % path)
        return 1
    return 0
