"""C08 — connections go to the first configured service that accepts them, stream intact.
Spec: Dispatch.tla (+ MC_Dispatch)."""
import json, os
import lib

PROP = "C08"


def payload_hex(c):
    p = "".join(c["head"]).encode() + bytes((ord('a') + i % 26) for i in range(c["pad"]))
    return p.hex()


def compare(ck, sc, res, pairs=None, tag=""):
    n = 0
    for k, (st, ob) in enumerate(pairs if pairs is not None else zip(sc["conns"], res["obs"])):
        if ob.get("note") == "skipped":
            continue
        n += 1
        c = st["conn"]
        det = "%s:%s" % (c["proto"], "".join(c["head"]))
        full = payload_hex(c)
        exp_hex = full[2 * st["from"]:2 * st["to"]] if st["chosen"] != "none" else ""
        rp = {"cfg": sc["cfg"], "conns": [st], "observed": ob}
        if sc.get("listener"):
            rp.update({"listener": sc["listener"], "delay_ms": sc.get("delay_ms", 0), "scheds": sc.get("scheds", []),
                       "all_conns": sc["conns"]})
        if ob.get("note"):
            ck.disagree("dispatch/%s%s/%s" % (tag, c["proto"], "stuck"), "conn %s: %s" % (json.dumps(c), ob["note"]), rp)
        elif ob["ran"] > 1:
            ck.disagree("dispatch/%s%s/more-than-one-service" % (tag, c["proto"]), "%d services saw connection %s" % (ob["ran"], json.dumps(c)), rp)
        elif ob["chosen"] != st["chosen"]:
            kind = "wrong-service" if st["chosen"] != "none" and ob["chosen"] != "none" else (
                "nobody-chosen" if ob["chosen"] == "none" else "served-but-should-be-closed")
            ck.disagree("dispatch/%s%s/%s" % (tag, c["proto"], kind),
                        "services %s, first segment of %s (r=%d): spec chooses %s, real server %s" % (
                            [s["name"] for e in sc["table"] for s in e["svcs"]], det, c["r"], st["chosen"], ob["chosen"]), rp)
        elif ob["hex"] != exp_hex:
            lost = "peeked-bytes-lost" if full.endswith(ob["hex"]) and len(ob["hex"]) < len(full) else "stream-differs"
            ck.disagree("dispatch/%s%s/%s" % (tag, c["proto"], lost),
                        "service %s read %d of %d bytes (%s...) for %s" % (ob["chosen"], len(ob["hex"]) // 2, len(full) // 2,
                                                                          ob["hex"][:16], json.dumps(c)), rp)
    return n


def generate(ck, tier):
    r = lib.tlc("MC_Dispatch", timeout=600, constants={"Mode": '"single"'})
    lib.tlc_must_pass(r, "Dispatch single-entry exhaustive (FirstInOrder, StreamIntact, NobodyIfNone)")
    ck.add_tlc(r, "Dispatch: one port entry x all 206 service lists (<=4 of 5 services) x tcp/udp x 34 connection shapes, exhaustive")
    scs = r.scn
    n = 150 if tier == "quick" else 1500
    r2 = lib.tlc("MC_Dispatch", timeout=900, constants={"Mode": '"multi"'}, simulate=n, depth=200, tlc_seed=lib.seed(), workers=1)
    lib.tlc_must_pass(r2, "Dispatch multi-entry simulate")
    ck.add_tlc(r2, "Dispatch: 3 port entries over 8 addresses, lists sampled (-simulate)")
    return scs, r2.scn


def schedules(ck):
    """Delivery.tla: the listener side (kernel queue, receive buffers, connections aliasing them)."""
    rdev = lib.tlc("MC_Delivery", timeout=120, constants={"Dev": "TRUE"}, want_scn=False)
    if rdev.violated != "Inv":
        raise lib.Infra("deviation shared_receive_buffer no longer violates StreamIntact/NoAliasing in Delivery")
    r = lib.tlc("MC_Delivery", timeout=120, constants={"Dev": "FALSE"})
    lib.tlc_must_pass(r, "Delivery (StreamIntact, NoAliasing, EveryoneServed)")
    ck.add_tlc(r, "Delivery: 3 datagrams, every interleaving of send / listener receive / service read, exhaustive")
    seen, out = set(), []
    for s in r.scn:
        key = (tuple(s["order"]), s["inflight"])
        if key not in seen:
            seen.add(key)
            out.append(s)
    return out


def socket_scenarios(ck, tier, single, scheds, rng):
    """single-entry configurations served by honeytrap's own socket listener on loopback"""
    n = 48 if tier == "quick" else len(single)
    # (a port entry without services is not bound by the socket listener: nothing to deliver)
    usable = [sc for sc in single if sc["cfg"][0]["svcs"]]
    pick = rng.sample(usable, min(n, len(usable)))
    out = []
    for sc in pick:
        sc = dict(sc, listener="socket", delay_ms=12)
        udp = [i for i, st in enumerate(sc["conns"]) if st["conn"]["proto"] == "udp" and st["conn"]["proto"] == sc["cfg"][0]["proto"]
               and st["conn"]["port"] == sc["cfg"][0]["port"]]
        sc["scheds"] = []
        if udp:
            for sd in (rng.sample(scheds, 5) if tier == "quick" else scheds):
                three = rng.sample(udp, 3)
                m = {"d1": three[0], "d2": three[1], "d3": three[2]}
                sc["scheds"].append({"order": [m[d] for d in sd["order"]], "inflight": sd["inflight"]})
            # and everything back to back
            sc["scheds"].append({"order": rng.sample(udp, len(udp)), "inflight": len(udp)})
        out.append(sc)
    return out


def run(tier, lab):
    import random
    ck = lib.Check(PROP, tier, "model_checking")
    # model regression: the deviation must break StreamIntact in TLC (else the invariant is too weak)
    rd = lib.tlc("MC_DispatchDev", timeout=300, want_scn=False)
    if rd.violated != "Inv":
        raise lib.Infra("deviation detectorless_after_peek_gets_raw_conn no longer violates StreamIntact in the model")
    single, multi = generate(ck, tier)
    scheds = schedules(ck)
    sock = socket_scenarios(ck, tier, single, scheds, random.Random(lib.seed()))
    scs = [dict(s, id=i) for i, s in enumerate(single + multi + sock)]
    results = lib.run_sharded(lab, "c08", scs, shards=min(lib.NCPU, 12))
    byid = {r["id"]: r for r in results}
    nconn = nsock = nsched = 0
    for sc in scs:
        res = byid.get(sc["id"])
        if res is None or res.get("error"):
            raise lib.Infra("scenario %s: %s" % (sc["id"], res and res.get("error")))
        if sc.get("listener"):
            nsock += compare(ck, sc, res, tag="socket-")
            for sd, obs in zip(sc["scheds"], res.get("sched_obs") or []):
                nsched += compare(ck, sc, res, pairs=[(sc["conns"][i], ob) for i, ob in zip(sd["order"], obs)],
                                  tag="socket-inflight%s-" % ("1" if sd["inflight"] == 1 else "N"))
        else:
            nconn += compare(ck, sc, res)
    nconn += nsock + nsched
    ck.cov.update({
        "traces_validated_against_impl": len(scs),
        "configurations_replayed": len(scs), "single_entry_configs": len(single), "multi_entry_configs": len(multi),
        "connections_replayed": nconn, "socket_listener_configs": len(sock), "socket_listener_connections": nsock,
        "socket_listener_scheduled_datagrams": nsched, "delivery_schedules": len(scheds), "evaluations": nconn, "distinct_nontrivial": len(scs),
        "exhaustive": True,
        "rule": "configuration x connection; single-entry space enumerated completely by TLC, multi-entry tables by -simulate; "
                "distinct by construction (TLC states)",
    })
    ck.sample({"cfg": scs[7]["cfg"], "conns": scs[7]["conns"][:3]})
    ck.sample({"cfg": scs[-1]["cfg"], "conns": scs[-1]["conns"][:3]})
    ck.assumptions += ["the detector sees the client's first segment (one Read of <= 1024 bytes), as the property's "
                       "'first bytes the client sent'", "connections are real loopback TCP sockets presenting the chosen "
                       "local/remote addresses (verif-mem listener) or listener.DummyUDPConn datagrams",
                       "empty client streams are not explored (the property is silent on a client that sends nothing)"]
    return ck.finish()


def replay(lab, path):
    rp = json.load(open(path))["replay"]
    sc = {"id": 0, "cfg": rp["cfg"], "table": rp["cfg"], "conns": rp["conns"]}
    if rp.get("listener"):
        sc.update({"listener": rp["listener"], "delay_ms": rp.get("delay_ms", 0), "scheds": rp.get("scheds", []),
                   "conns": rp["all_conns"]})
    res = lib.run_sharded(lab, "c08", [sc], shards=1)[0]
    ck = lib.Check(PROP, "quick", "model_checking")
    ck.findings.entries = []
    compare(ck, sc, res, tag="socket-" if rp.get("listener") else "")
    for sd, obs in zip(sc.get("scheds", []), res.get("sched_obs") or []):
        compare(ck, sc, res, pairs=[(sc["conns"][i], ob) for i, ob in zip(sd["order"], obs)], tag="socket-sched-")
    print(json.dumps(res, indent=1))
    if ck.violations:
        print("VIOLATION property=C08 replay=%s" % path)
        return 1
    return 0
