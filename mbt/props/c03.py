"""C03 — connections are isolated; events name the connection that caused them.
Spec: Sessions.tla (+ MC_Sessions).  Every interleaving TLC enumerates is executed step by step
against one real server instance in a fresh process; each connection's replies and events must equal
what its script gets when it runs alone (Sessions!Solo)."""
import json, os, random, re
import lib, protocols as P

PROP = "C03"
SERVICES = os.environ.get("C03_SERVICES", "ftp,smtp,ldap,telnet,redis,memcached,http,tftp").split(",")


def conn_addr(c, amode="distinct"):
    """address of connection number c (1-based); amode "sameport": the clients differ in their IP address only (they all use
    the same source port, as clients behind different hosts may)"""
    return "10.9.%d.1" % c, (4000 if amode == "sameport" else 4000 + c)


def steps_for(svc, order, scripts_idx, nreq, amode="distinct"):
    """order: list of connection numbers (1-based) from TLC; connection k runs script scripts_idx[k-1].
    Each connection has nreq+2 steps: open, nreq requests, close."""
    spec = P.C03[svc]
    udp = spec.get("udp", False)
    port = P.PORTS[svc]
    pos = {}
    steps, meta = [], []
    for c in order:
        si = scripts_idx[c - 1]
        k = pos.get(c, 0)
        pos[c] = k + 1
        ip, rport = conn_addr(c, amode)
        name = "c%d" % c
        if k == 0:
            if not udp:
                steps.append({"op": "open", "c": name, "laddr": "%s:%d" % (P.LOCAL_IP, port), "raddr": "%s:%d" % (ip, rport)})
                meta.append(None)
                mode, rx = spec["greet"]
                if mode != "none":
                    steps.append({"op": "recv", "c": name, "until": mode, "re": rx, "timeout_ms": 3000, "quiet_ms": 40})
                    meta.append((c, si, "open"))
        elif k == nreq + 1:
            if not udp:
                steps.append({"op": "close", "c": name})
                meta.append(None)
        else:
            tok = spec["scripts"][si][k - 1]
            if udp:
                steps.append({"op": "udp", "laddr": "%s:%d" % (P.LOCAL_IP, port), "raddr": "%s:%d" % (ip, rport),
                              "hex": tok["bytes"].replace(b"{c}", b"%d" % c).hex()})
                meta.append((c, si, k))
            else:
                steps.append({"op": "send", "c": name, "hex": tok["bytes"].replace(b"{c}", b"%d" % c).hex()})
                meta.append(None)
                steps.append({"op": "recv", "c": name, "until": tok["wait"], "re": tok["re"], "timeout_ms": 3000, "quiet_ms": 40})
                meta.append((c, si, k))
    steps.append({"op": "events", "wait_ms": 120})
    meta.append("events")
    return steps, meta


def project(svc, scripts_idx, meta, res, amode="distinct"):
    """-> per connection c: {"script": si, "replies": {step: text}, "events": [...]}, stray events, session ids per c"""
    out = {c + 1: {"script": si, "replies": {}, "events": []} for c, si in enumerate(scripts_idx)}
    ip_to_c = {conn_addr(c)[0]: c for c in out}
    stray, sids = [], {}
    for m, ob in zip(meta, res["obs"]):
        if m is None:
            continue
        if m == "events":
            for e in ob.get("events") or []:
                c = ip_to_c.get(e.get("source-ip"))
                n = {}
                for k, v in e.items():
                    if k in P.MASK_KEYS:
                        continue
                    if k.endswith("sessionid") or k.endswith("session-id"):
                        sids.setdefault(c, set()).add(v)
                        v = "sid"
                    if k == "source-ip" and c is not None:
                        v = "CLIENT"
                    if k == "source-port" and c is not None and v == conn_addr(c, amode)[1]:
                        v = "CLIENT-PORT"
                    if k == "ftp.command" and isinstance(v, str):
                        v = re.sub(r' d\d+$', ' dN', v)
                    n[k] = v
                if c is None:
                    if n.get("category") != "heartbeat":
                        stray.append(n)
                else:
                    out[c]["events"].append(n)
            continue
        c, si, k = m
        if ob["op"] == "udp":
            text = "|".join(ob.get("replies") or [])
        else:
            text = P.norm_reply(svc, bytes.fromhex(ob.get("hex", "")))
            if ob.get("eof"):
                text += "<EOF>"
        out[c]["replies"][k] = text
    return out, stray, sids


def run_scenarios(lab, svc, scs):
    cfg = os.path.join(lib.scratch(), "c03-%s.toml" % svc)
    with open(cfg, "w") as fh:
        fh.write(P.cfg_all([svc]))
    return lib.run_sharded(lab, "script", scs, shards=1, extra_args=["-config", cfg, "-fresh", "-par", str(min(lib.NCPU, 16))],
                           timeout=2400)


def token_name(svc, si, k):
    return "open" if k == "open" else P.C03[svc]["scripts"][si][k - 1]["t"]


def diff(svc, solo, got, stray, sids):
    """-> list of (signature, text)"""
    out = []
    for c, g in got.items():
        si = g["script"]
        s = solo[si]
        for k, text in g["replies"].items():
            if s["replies"].get(k) != text:
                out.append(("%s/%s/reply" % (svc, token_name(svc, si, k)),
                            "connection %d (script %d) step %s: alone it receives %r, here %r" % (
                                c, si, k, (s["replies"].get(k) or "")[:120], text[:120])))
                break
        if g["events"] != s["events"]:
            extra = [e for e in g["events"] if e not in s["events"]]
            missing = [e for e in s["events"] if e not in g["events"]]
            what = "order or multiplicity differs (%d events, alone %d)" % (len(g["events"]), len(s["events"]))
            if extra:
                what = "unexpected event %s" % json.dumps(extra[0])[:240]
            elif missing:
                what = "missing event %s" % json.dumps(missing[0])[:240]
            out.append(("%s/events" % svc, "connection %d (script %d, client %s): %s" % (c, si, conn_addr(c)[0], what)))
    if stray:
        out.append(("%s/events-without-known-source" % svc, json.dumps(stray[0])[:240]))
    seen = {}
    for c, vals in sids.items():
        for v in vals:
            if v in seen and seen[v] != c:
                out.append(("%s/sessionid-shared" % svc, "session id %s appears on connections %s and %s" % (v, seen[v], c)))
            seen[v] = c
    return out


def solo_runs(lab, svc, nreq=3):
    nscripts = len(P.C03[svc]["scripts"])
    scs, metas = [], {}
    for si in range(nscripts):
        steps, meta = steps_for(svc, [1] * (nreq + 2), [si], nreq)
        scs.append({"id": si, "steps": steps})
        metas[si] = meta
    solo_res = {r["id"]: r for r in run_scenarios(lab, svc, scs)}
    solo = {}
    for si in range(nscripts):
        if solo_res[si].get("error"):
            raise lib.Infra("%s solo %d: %s" % (svc, si, solo_res[si]["error"]))
        p, stray, _ = project(svc, [si], metas[si], solo_res[si])
        solo[si] = p[1]
    return solo


def run(tier, lab):
    ck = lib.Check(PROP, tier, "model_checking")
    rng = random.Random(lib.seed())
    orders = {}
    k3 = (3, 5) if tier == "thorough" else (3, 4)
    for K, N in ((2, 5), k3):
        r = lib.tlc("MC_Sessions", timeout=400, constants={"K": str(K), "N": str(N), "Devs": "{}"})
        lib.tlc_must_pass(r, "Sessions K=%d N=%d (NonInterference)" % (K, N))
        ck.add_tlc(r, "Sessions: all interleavings of %d sessions x %d steps (open, requests, close), free protocol" % (K, N))
        orders[(K, N)] = [s["order"] for s in r.scn]
    for dev in ("shared_state", "stale_address"):
        rd = lib.tlc("MC_Sessions", timeout=200, constants={"K": "2", "N": "3", "Devs": '{"%s"}' % dev}, want_scn=False)
        if rd.violated != "Inv":
            raise lib.Infra("deviation %s does not violate NonInterference in the model" % dev)
    per_pair = 14 if tier == "quick" else 120
    per_triple = 8 if tier == "quick" else 150
    total, distinct = 0, set()
    for svc in SERVICES:
        # Sessions!Solo: each script alone on a fresh server (per number of requests used)
        solos = {3: solo_runs(lab, svc, 3), k3[1] - 2: solo_runs(lab, svc, k3[1] - 2)}
        solo = solos[3]
        plan = []
        o2 = orders[(2, 5)]
        seq2 = [o for o in o2 if o == sorted(o) or o == sorted(o, reverse=True)]
        for pair in ((0, 1), (1, 2), (2, 0)):
            for o in seq2 + rng.sample(o2, min(per_pair, len(o2))):
                plan.append((o, list(pair), 3))
        o3 = orders[k3]
        for o in rng.sample(o3, min(per_triple, len(o3))):
            plan.append((o, [0, 1, 2], k3[1] - 2))
        # sequential histories: earlier sessions, then a probe session
        for hist in ([0, 1, 2, 0, 1], [2, 2, 2, 1], [1, 0, 0, 0, 0, 2]):
            order = []
            for c in range(1, len(hist) + 1):
                order += [c] * 5
            plan.append((order, hist, 3))
        plan = [p + ("distinct",) for p in plan]
        # the same with clients that differ in their IP address only (one source port for all): state keyed by less than the
        # whole peer address shows here
        for o in seq2 + rng.sample(o2, min(per_pair, len(o2))):
            plan.append((o, [0, 1], 3, "sameport"))
        for o in rng.sample(o3, min(per_triple // 2, len(o3))):
            plan.append((o, [0, 1, 2], k3[1] - 2, "sameport"))
        scs, info = [], {}
        for i, (order, sidx, nreq, amode) in enumerate(plan):
            steps, meta = steps_for(svc, order, sidx, nreq, amode)
            scs.append({"id": i, "steps": steps})
            info[i] = (order, sidx, nreq, meta, amode)
            distinct.add(json.dumps([svc, order, sidx, amode]))
        results = {r["id"]: r for r in run_scenarios(lab, svc, scs)}

        def judge(i, res):
            order, sidx, nreq, meta, amode = info[i]
            if res.get("error"):
                raise lib.Infra("%s scenario %d: %s" % (svc, i, res["error"]))
            got, stray, sids = project(svc, sidx, meta, res, amode)
            return diff(svc, solos[nreq], got, stray, sids)

        failing = {}
        for i in sorted(results):
            d = judge(i, results[i])
            if d:
                failing[i] = d
        total += len(scs)
        if failing:
            # reproduce once on a fresh process before believing it
            again = {r["id"]: r for r in run_scenarios(lab, svc, [s for s in scs if s["id"] in failing][:40])}
            for i, res in again.items():
                sigs2 = {s for s, _ in judge(i, res)}
                for sig, text in failing[i]:
                    if sig in sigs2:
                        order, sidx, nreq, meta, amode = info[i]
                        ck.disagree(sig, "%s, schedule %s of scripts %s%s: %s" % (svc, order, sidx, " (all clients on one source port)" if amode == "sameport" else "", text),
                                    {"svc": svc, "order": order, "scripts": sidx, "nreq": nreq, "amode": amode})
        ck.cov.setdefault("per_service", {})[svc] = {"scenarios": len(scs), "failing_first_run": len(failing)}
        if svc == SERVICES[0]:
            ck.sample({"svc": svc, "order": plan[5][0], "scripts": plan[5][1],
                       "solo_replies_script0": solo[0]["replies"], "solo_events_script0": solo[0]["events"][:3]})
    ck.cov.update({
        "traces_validated_against_impl": total, "evaluations": total, "distinct_nontrivial": len(distinct),
        "rule": "scenario = (service, schedule enumerated by TLC for K sessions x N steps, scripts); sampled by seed from the "
                "complete set of interleavings, always including the sequential ones and histories of 4..6 sessions; "
                "distinct by (service, schedule, scripts)",
    })
    ck.assumptions += ["step granularity is request/response (lock-step)", "volatile fields masked: dates, session-id values "
                       "(their equality structure is checked), passive-mode ports, the client's own address",
                       "a disagreement counts only if it reproduces in a second fresh process"]
    return ck.finish()


def replay(lab, path):
    rp = json.load(open(path))["replay"]
    svc = rp["svc"]
    solo = solo_runs(lab, svc, rp["nreq"])
    amode = rp.get("amode", "distinct")
    steps, meta = steps_for(svc, rp["order"], rp["scripts"], rp["nreq"], amode)
    res = run_scenarios(lab, svc, [{"id": 0, "steps": steps}])[0]
    got, stray, sids = project(svc, rp["scripts"], meta, res, amode)
    d = diff(svc, solo, got, stray, sids)
    for sig, text in d:
        print(sig, text)
    if d:
        print("VIOLATION property=C03 replay=%s" % path)
        return 1
    return 0
