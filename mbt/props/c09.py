"""C09 — handlers finish and release everything once the peer is gone.
Spec: ConnLife.tla (ReleasedWhenQuiescent, ReturnsAfterPeerGone) + MC_Dialogue (shape generator)."""
import json, os
import lib, life, protocols as P
from props.c01 import describe

PROP = "C09"


def site_of(key):
    """goroutine key 'created by X | innermost Y' -> short site"""
    created, inner = (key.split(" | ") + [""])[:2]
    return (inner or created).split("(")[0][-70:]


def run(tier, lab):
    ck = lib.Check(PROP, tier, "exploration")
    r = lib.tlc("MC_ConnLife", timeout=300, constants={"Devs": "{}"}, want_scn=False)
    lib.tlc_must_pass(r, "ConnLife strict (ReleasedWhenQuiescent, ReturnsAfterPeerGone and SilentPeersExpire under fairness)")
    ck.add_tlc(r, "ConnLife: 2 connections, all interleavings incl. idle expiry, safety + liveness")
    for dev, want in (("helper_never_exits", "ReleasedWhenQuiescent"), ("listener_never_closed", "ReleasedWhenQuiescent"), ("never_eof", None),
                      ("peek_without_deadline", "SilentPeersExpire"), ("transfer_without_deadline", "SilentPeersExpire"), ("editor_spins", None)):
        rd = lib.tlc("MC_ConnLife", timeout=300, constants={"Devs": '{"%s"}' % dev}, want_scn=False)
        if rd.violated is None or (want and rd.violated != want):
            raise lib.Infra("deviation %s does not violate the expected ConnLife property (got %s)" % (dev, rd.violated))
    # silence (30 s idle timeout) is explored for a representative subset in quick, for everything in thorough
    silent = None if tier == "thorough" else {"ftp", "smtp", "telnet", "http", "redis", "vnc", "ldap", "adb"}
    scs = life.build(ck, tier, lib.seed() + 1000, silent_services=silent)
    nsilent = sum(1 for s in scs if s.get("ending") == "silent")
    # final snapshot: after the idle timeout, and - while something is still running - polled up to 3 idle timeouts + slack
    # (a handler may wait for a passive data connection first and for its peer afterwards: bounded, but more than one timeout)
    deaths, reports = life.explore(lab, scs, "c09", settle_ms=5000, idle_ms=33000, rerun_done=True, idle_max_ms=100000)
    for sc, banner, site in deaths:
        ck.notes.append("process died during the exploration (C01's territory): %s: %s" % (describe(sc), banner))
    if not reports:
        raise lib.Infra("no report from the life child (process deaths: %d)" % len(deaths))
    rep = reports[-1]
    byid = {s["id"]: s for s in scs}
    # (1) how long does a handler take after the peer is gone? Slower than 6 s is only noted here: the bound the property
    # asks for is checked at the end - after the idle timeout nothing may be left running
    slow = {}
    for res in rep["results"]:
        sc = byid.get(res["id"])
        if not sc:
            continue
        for ob in (res.get("obs") or []):
            if (ob["op"] == "recv" and sc.get("ending") == "shut" and ob.get("timeout")) or (ob["op"] == "udp" and not ob.get("done")):
                slow[sc["svc"]] = slow.get(sc["svc"], 0) + 1
                break
    if slow:
        ck.notes.append("handlers that needed more than 6 s after close/datagram (bounded by the 30 s timeouts, see final snapshot): %s" % slow)
    # (2) quiescence: same goroutines and descriptors as before the first connection
    base, final = rep["baseline"], rep["final"]
    for key, n in sorted(final["goroutines"].items()):
        extra = n - base["goroutines"].get(key, 0)
        if extra > 0:
            ck.disagree("leak/goroutine/%s" % site_of(key), "%d goroutine(s) left after all peers are gone (%d connections served): %s" % (extra, len(scs), key),
                        {"key": key, "extra": extra})
    if final["handlers"] > 0:
        ck.disagree("leak/handler-still-running", "%d handler goroutine(s) still inside handle() after every peer is gone and the idle timeout has passed" % final["handlers"], {})
    fd_extra = final["fds"] - base["fds"] - rep.get("held_open_by_lab", 0)     # the lab's own ends of the silent connections
    if fd_extra > 2:
        ck.disagree("leak/descriptors", "%d more descriptors open than before the first connection" % fd_extra, {"base": base["fds"], "final": final["fds"]})
    cpu = rep["idle2"]["cpu_ms"] - rep["idle1"]["cpu_ms"]
    if cpu > 400:
        ck.disagree("leak/spinning-while-idle", "%d ms of CPU per second while no client is connected or sending" % cpu, {"idle1": rep["idle1"], "idle2": rep["idle2"]})
    ck.cov.update({"evaluations": len(scs), "distinct_nontrivial": len({json.dumps(s["steps"]) + json.dumps(s.get("ssh")) for s in scs}),
                   "silent_connections": nsilent, "half_closed_checked": sum(1 for s in scs if s.get("ending") == "shut"),
                   "baseline": {"goroutine_kinds": len(base["goroutines"]), "fds": base["fds"]},
                   "final": {"goroutine_kinds": len(final["goroutines"]), "fds": final["fds"], "handlers": final["handlers"]},
                   "idle_cpu_ms_per_s": cpu,
                   "rule": "same scenarios as C01's exploration (all 24 services, dialogue shapes cut at every stage) ending in peer close, "
                           "half-close, a single datagram, or silence; runtime facts compared with the baseline taken before the first connection"})
    ck.sample(describe(scs[5]))
    ck.assumptions += ["thresholds: 6 s for a handler to end after close/datagram; silent peers really stay connected: the final snapshot is taken 33 s "
                       "after the last scenario and, while anything is still running, every 3 s up to 100 s (three idle timeouts in a row), "
                       "400 ms CPU per idle second, 2 descriptors of slack", "goroutines are identified by creation site and innermost honeytrap frame"]
    return ck.finish()


def replay(lab, path):
    print("C09 findings are properties of the whole exploration (leaks at quiescence): re-run the check")
    rp = json.load(open(path))["replay"]
    sc = rp.get("scenario")
    if not sc:
        return 2
    one = life.run_child(lab, [sc], "replay", 5000, 0, par=1)
    rep = one["report"]
    if rep is None:
        return 2
    bad = rep["final"]["handlers"] > 0
    for res in rep["results"]:
        for ob in (res.get("obs") or []):
            if (ob["op"] == "recv" and not ob.get("eof")) or (ob["op"] == "udp" and not ob.get("done")):
                bad = True
    print(json.dumps(rep["final"]))
    if bad:
        print("VIOLATION property=C09 replay=%s" % path)
        return 1
    return 0
