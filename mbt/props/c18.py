"""C18 — sensor identity survives restarts and interrupted first starts.
Spec: Identity.tla (+ MC_Identity, MC_IdentityGen).  TLC-generated restart histories are executed as
separate lab processes on one data directory; starts the model marks as not completed are killed
(SIGKILL) at a seeded random instant of their start-up; completed starts observe the identity from
outside; WellFormed and Stable are evaluated on the observations."""
import json, os, random, re, shutil, signal, subprocess, tempfile, threading, time
import lib

PROP = "C18"
XID = re.compile(r'^[0-9a-v]{20}$')
FULL = "9m4e2mr0ui3e8a215n4g"
OTHER = "b4k7c1p0ts9d2e6f3g8h"      # a complete identifier a killed start left in token.tmp


def one_start(lab, datadir, services, kill_after=None):
    out = os.path.join(datadir, "..", "obs-%d.json" % int(time.time() * 1e6))
    env = dict(os.environ, VERIF_SCRATCH=lib.scratch())
    p = subprocess.Popen([lab, "c18", "-datadir", datadir, "-services", ",".join(services), "-out", out],
                         stdout=subprocess.DEVNULL, stderr=subprocess.PIPE, env=env)
    if kill_after is not None:
        time.sleep(kill_after)
        p.send_signal(signal.SIGKILL)
        p.wait()
        return None, "killed after %.3fs" % kill_after
    try:
        _, se = p.communicate(timeout=120)
    except subprocess.TimeoutExpired:
        p.kill()
        return None, "start did not finish in 120s"
    if p.returncode != 0 or not os.path.exists(out):
        return None, "rc=%s %s" % (p.returncode, se.decode("utf8", "replace")[-600:])
    obs = json.load(open(out))
    os.remove(out)
    return obs, None


def run_history(lab, sc, rng_seed):
    rng = random.Random(rng_seed)
    base = tempfile.mkdtemp(prefix="c18-", dir=lib.scratch())
    datadir = os.path.join(base, "data")
    os.makedirs(datadir)
    tok = sc["token_file"]
    if tok is not None:
        with open(os.path.join(datadir, "token"), "w") as fh:
            fh.write(tok)
    if sc.get("tmp_file") is not None:
        # what a start killed between creating the temporary file and renaming it leaves behind
        with open(os.path.join(datadir, "token.tmp"), "w") as fh:
            fh.write(sc["tmp_file"])
    observations, log = [], []
    for st in sc["starts"]:
        if st["completed"]:
            obs, err = one_start(lab, datadir, st["enabled"])
            if err:
                log.append(err)
                observations.append({"error": err, "enabled": st["enabled"]})
            else:
                obs["enabled"] = st["enabled"]
                observations.append(obs)
        elif st.get("half"):
            # killed after the key of these services was stored and before their certificate was: the start runs to its end
            # and the certificates are taken out of the store again (every item is stored in a transaction of its own, so this
            # is the state that kill leaves); what the start presented is not an observation
            _, err = one_start(lab, datadir, st["enabled"])
            p = subprocess.run([lab, "c18", "-datadir", datadir, "-dropkeys", ",".join("%s.pemcert" % i for i in st["half"])],
                               stdout=subprocess.DEVNULL, stderr=subprocess.PIPE, env=dict(os.environ, VERIF_SCRATCH=lib.scratch()))
            if err or p.returncode != 0:
                raise lib.Infra("could not prepare the half-written state %s: %s %s" % (st["half"], err, p.stderr.decode("utf8", "replace")[-300:]))
            log.append("killed between key and certificate of %s" % st["half"])
            observations.append({"killed": "between key and certificate of %s" % ",".join(st["half"]), "enabled": st["enabled"]})
        else:
            delay = rng.choice([0.0, 0.005, 0.02, 0.05]) + rng.random() * 0.4
            _, msg = one_start(lab, datadir, st["enabled"], kill_after=delay)
            log.append(msg)
            observations.append({"killed": msg, "enabled": st["enabled"]})
    shutil.rmtree(base, ignore_errors=True)
    return observations, log


def judge(ck, sc, observations):
    desc = "token file %r%s, starts %s" % (sc["token_file"], (", leftover token.tmp %r" % sc["tmp_file"]) if sc.get("tmp_file") is not None else "",
                                           [(s["enabled"], "completed" if s["completed"] else ("killed between key and certificate of %s" % s["half"] if s.get("half") else "killed")) for s in sc["starts"]])
    rp = {"scenario": sc, "observations": observations}
    done = [o for o in observations if "token" in o]
    for o in observations:
        if o.get("error"):
            ck.disagree("identity/start-failed", "%s: a clean start failed: %s" % (desc, o["error"][:300]), rp)
            return
    for o in done:
        if not XID.match(o["token"] or ""):
            kind = "empty-token" if not o["token"] else "malformed-token"
            ck.disagree("identity/%s" % kind, "%s: a completed start presents token %r" % (desc, o["token"]), rp)
            return
        for svc in o["enabled"]:
            if not o["items"].get(svc):
                ck.disagree("identity/%s-missing" % svc, "%s: no %s identity observed (%s)" % (desc, svc, o.get("notes")), rp)
                return
    for a in range(len(done)):
        for b in range(a + 1, len(done)):
            if done[a]["token"] != done[b]["token"]:
                ck.disagree("identity/token-changed", "%s: token %s then %s" % (desc, done[a]["token"], done[b]["token"]), rp)
                return
            for svc in set(done[a]["enabled"]) & set(done[b]["enabled"]):
                if done[a]["items"][svc] != done[b]["items"][svc]:
                    ck.disagree("identity/%s-changed" % svc, "%s: %s identity %s then %s" % (desc, svc, done[a]["items"][svc], done[b]["items"][svc]), rp)
                    return


def concretise(s, rng):
    kind = s["token"]
    if kind == "absent":
        tf = None
    elif kind == "partial":
        tf = FULL[:rng.choice([0, 0, 1, 10, 19])]
    else:
        tf = FULL
    tmp = {"absent": None, "partial": OTHER[:rng.choice([0, 0, 7, 19])], "id": OTHER}[s.get("tmp", "absent")]
    return {"token_file": tf, "tmp_file": tmp, "starts": s["starts"]}


def run(tier, lab):
    ck = lib.Check(PROP, tier, "model_checking")
    rng = random.Random(lib.seed())
    r = lib.tlc("MC_Identity", timeout=300, constants={"Devs": "{}"}, want_scn=False)
    lib.tlc_must_pass(r, "Identity (WellFormed, Stable) with kills at every step")
    ck.add_tlc(r, "Identity: 2 items, 3 starts, every kill point, 3 initial token states, exhaustive")
    rd = lib.tlc("MC_Identity", timeout=300, constants={"Devs": '{"token_read_back_unvalidated"}'}, want_scn=False)
    if rd.violated is None:
        raise lib.Infra("deviation token_read_back_unvalidated does not violate WellFormed in the model")
    rd2 = lib.tlc("MC_Identity", timeout=300, constants={"Devs": '{"tmp_exclusive_create"}'}, want_scn=False)
    if rd2.violated != "Stable":
        raise lib.Infra("deviation tmp_exclusive_create does not violate Stable in the model")
    rd3 = lib.tlc("MC_Identity", timeout=300, constants={"Devs": '{"pair_only_if_both_missing"}'}, want_scn=False)
    if rd3.violated != "WellFormed":
        raise lib.Infra("deviation pair_only_if_both_missing does not violate WellFormed in the model")
    g = lib.tlc("MC_IdentityGen", timeout=300, constants={"NStarts": "3" if tier == "quick" else "4"})
    lib.tlc_must_pass(g, "Identity history generation")
    ck.add_tlc(g, "Identity: restart histories over 5 service sets x completed/killed x 3 initial token states")
    # (TLC's workers print in no fixed order: sort, so that a seed always draws the same histories)
    uniq = [v for k, v in sorted({json.dumps(s, sort_keys=True): s for s in g.scn}.items())]
    uniq = [s for s in uniq if sum(1 for st in s["starts"] if st["completed"]) >= 1]
    n = 24 if tier == "quick" else 300
    # always include every initial token state with a plain two-start history
    halves = [s for s in uniq if any(st.get("half") for st in s["starts"])]
    pick = rng.sample(uniq, min(n, len(uniq))) + rng.sample(halves, min(n // 2, len(halves)))
    scs = [concretise(s, rng) for s in pick]
    # ... the certificate-bearing services enabled in changing sets and orders (what one stores must never be handed to another)
    for sets in ([["ftp"], ["smtp", "ftp"], ["ldap", "smtp", "ftp"]], [["ftp", "smtp", "ldap"], ["ldap"], ["smtp"], ["ftp"]],
                 [["ldap", "smtp"], ["ftp", "ldap"], ["smtp", "ftp"]]):
        scs.append({"token_file": None, "tmp_file": None, "starts": [{"enabled": e, "completed": True} for e in sets]})
    # ... and the key of every certificate-bearing service without its certificate, each on its own
    for svc in ("ftp", "smtp", "ldap"):
        scs.append({"token_file": None, "tmp_file": None, "starts": [{"enabled": [svc], "completed": False, "half": [svc]},
                                                                     {"enabled": [svc], "completed": True}, {"enabled": [svc, "ssh"], "completed": True}]})
    for tf in (None, "", FULL[:1], FULL[:10], FULL[:19], FULL):
        scs.append({"token_file": tf, "tmp_file": None, "starts": [{"enabled": ["ssh", "ftp"], "completed": True}, {"enabled": ["ssh", "ftp", "ldap"], "completed": True}]})
    # ... and every leftover of the temporary file beside an absent / truncated / complete token file
    for tf in (None, FULL[:10], FULL):
        for tmp in ("", OTHER[:7], OTHER):
            scs.append({"token_file": tf, "tmp_file": tmp, "starts": [{"enabled": ["ssh"], "completed": True}, {"enabled": ["ssh"], "completed": True},
                                                                       {"enabled": ["ssh", "agent"], "completed": True}]})
    results = [None] * len(scs)
    sem = threading.Semaphore(min(lib.NCPU, 12))

    def work(i):
        with sem:
            results[i] = run_history(lab, scs[i], lib.seed() * 7919 + i)

    ts = [threading.Thread(target=work, args=(i,)) for i in range(len(scs))]
    [t.start() for t in ts]
    [t.join() for t in ts]
    nstarts = 0
    for sc, (obs, log) in zip(scs, results):
        judge(ck, sc, obs)
        nstarts += len(sc["starts"])
    ck.cov.update({"traces_validated_against_impl": len(scs), "histories": len(scs), "process_starts": nstarts,
                   "evaluations": len(scs), "distinct_nontrivial": len(scs),
                   "rule": "history = initial token file (absent, empty, proper prefixes of 1/10/19 characters, complete) + sequence of "
                           "starts with enabled service sets, each completed or killed (SIGKILL at a seeded instant 0..450 ms into the "
                           "start-up); generated by TLC from Identity.tla, sampled by seed"})
    ck.sample({"scenario": scs[0], "observations": results[0][0]})
    ck.assumptions += ["the model's kill points (between any two start-up steps) are approximated by SIGKILL at random instants; the on-disk "
                       "token states a kill can leave are prepared directly", "crash consistency inside the badger store is observed, not modelled",
                       "identity is observed from outside: token of a delivered event, SSH host key, certificates after AUTH TLS / STARTTLS / "
                       "LDAP StartTLS, agent public key"]
    return ck.finish()


def replay(lab, path):
    rp = json.load(open(path))["replay"]
    ck = lib.Check(PROP, "quick", "model_checking")
    ck.findings.entries = []
    obs, log = run_history(lab, rp["scenario"], 1)
    print(json.dumps(obs, indent=1)[:3000])
    judge(ck, rp["scenario"], obs)
    if ck.violations:
        print("VIOLATION property=C18 replay=%s" % path)
        return 1
    return 0
