"""C14 — raw-listener TCP handshake, acks and checksums hold for all sequence numbers.
Spec: CanaryTCP.tla (+ MC_CanaryTCP, CanaryTCP_Trace)."""
import json, os, random
import lib

PROP = "C14"
ISNS = [0, 1, 2**31 - 1, 2**31, 2**32 - 2, 2**32 - 1]
DECODED = [23, 80, 443, 445, 1433, 6379, 9200]
UNDECODED = [9999, 8081, 31337]


def stream(n):
    return bytes((ord('a') + i % 26) for i in range(n))


def concretise(scn, sid, rng, k):
    nconn = max(f["c"] for f in scn["frames"])
    conns = []
    for c in range(nconn):
        isn = ISNS[(k + c) % len(ISNS)] if rng.random() < 0.8 else rng.randrange(2**32)
        dport = rng.choice(UNDECODED) if rng.random() < 0.75 else rng.choice(DECODED)
        conns.append({"isn": isn, "cip": "10.0.1.%d" % (10 + c), "cport": rng.choice([1024, 40000 + c, 65535, 2000 + c]), "dport": dport})
    return {"id": sid, "conns": conns, "frames": scn["frames"]}


def special_cases(first_id):
    """same client, swapped port pairs: two different connections that must not disturb each other"""
    out = []
    fr = [{"c": 1, "k": "syn", "n": 0, "psh": False}, {"c": 2, "k": "syn", "n": 0, "psh": False},
          {"c": 1, "k": "ack", "n": 0, "psh": False}, {"c": 2, "k": "ack", "n": 0, "psh": False},
          {"c": 2, "k": "data", "n": 5, "psh": False}, {"c": 1, "k": "data", "n": 3, "psh": True}, {"c": 2, "k": "data", "n": 7, "psh": True}]
    out.append({"id": first_id, "conns": [{"isn": 1000, "cip": "10.0.1.10", "cport": 5000, "dport": 6000},
                                          {"isn": 2**32 - 2, "cip": "10.0.1.10", "cport": 6000, "dport": 5000}], "frames": fr})
    # decoded ports whose handler answers with data: the listener emits segments with payloads of odd and even length
    for k, (port, req) in enumerate([(80, b"GET / HTTP/1.1\r\nHost: a\r\n\r\n"), (80, b"GET /x HTTP/1.0\r\n\r\n"),
                                     (9200, b"GET /_search HTTP/1.1\r\nHost: es\r\n\r\n"), (9200, b"GET / HTTP/1.1\r\nHost: e\r\n\r\n")]):
        out.append({"id": first_id + 1 + k, "conns": [{"isn": ISNS[k], "cip": "10.0.1.10", "cport": 3000 + k, "dport": port, "stream": req.hex()}],
                    "frames": [{"c": 1, "k": "syn", "n": 0, "psh": False}, {"c": 1, "k": "ack", "n": 0, "psh": False},
                               {"c": 1, "k": "data", "n": len(req), "psh": True}, {"c": 1, "k": "fin", "n": 0, "psh": False}]})
    # overlapping connections of which an EARLIER one goes away (close completed by the client's ACK, or RST after its
    # FIN) while a LATER one is still being served: the later one must go on being acknowledged
    F = lambda c, k, n=0, psh=False: {"c": c, "k": k, "n": n, "psh": psh}
    sid = first_id + 5
    for nconn, gone in ((2, [1]), (3, [1]), (3, [2]), (3, [1, 2]), (4, [2, 3])):
        for how in ("ack", "rst", "ack-silent", "rst-silent"):
            fr = []
            for c in range(1, nconn + 1):
                fr += [F(c, "syn"), F(c, "ack")]
            for c in range(1, nconn + 1):
                # "-silent": the connections that go away never sent data (their handlers are still waiting in Read)
                if not (how.endswith("-silent") and c in gone):
                    fr.append(F(c, "data", 2, False))
            how = how.split("-")[0]
            for c in gone:
                fr += [F(c, "fin"), F(c, how)]
            for c in range(1, nconn + 1):
                if c not in gone:
                    fr += [F(c, "data", 3, True), F(c, "data", 1460, False), F(c, "fin")]
            # the connections that go away talk to decoded ports (80, 9200: the protocol handler keeps waiting for a complete
            # request and the record is dropped as soon as the client has finished its close), the others to either kind
            out.append({"id": sid, "conns": [{"isn": ISNS[(sid + c) % len(ISNS)], "cip": "10.0.1.%d" % (10 + c), "cport": 4000 + c,
                                              "dport": ([80, 9200][c % 2] if (c + 1) in gone or (sid + c) % 2 else UNDECODED[c % len(UNDECODED)])}
                                             for c in range(nconn)], "frames": fr})
            sid += 1
    # the handler's reader and the receive loop (AgentConn.tla, the same protocol as the agent tunnel's connections): the
    # first pushed segment arrives while the handler is between finding its buffer empty and starting to wait (held there
    # through hook canary.VerifSocketGap); it must still be reported
    for k, (n1, n2) in enumerate([(0, 7), (0, 1460), (5, 3), (0, 1)]):
        fr = [F(1, "syn"), F(1, "ack")]
        if n1:
            fr.append(F(1, "data", n1, False))              # not pushed: stays in the buffer, nobody is told
        fr.append(dict(F(1, "data", n2, True), at="gap"))
        fr.append(F(1, "fin"))
        out.append({"id": sid, "conns": [{"isn": ISNS[k % len(ISNS)], "cip": "10.0.1.%d" % (40 + k), "cport": 4100 + k, "dport": UNDECODED[k % len(UNDECODED)]}], "frames": fr})
        sid += 1
    # ... and with a second connection going on meanwhile
    fr = [F(1, "syn"), F(2, "syn"), F(1, "ack"), F(2, "ack"), F(2, "data", 9, True), dict(F(1, "data", 11, True), at="gap"), F(2, "fin"), F(1, "fin")]
    out.append({"id": sid, "conns": [{"isn": 7, "cip": "10.0.1.50", "cport": 4200, "dport": UNDECODED[0]}, {"isn": 9, "cip": "10.0.1.51", "cport": 4200, "dport": UNDECODED[0]}], "frames": fr})
    return out


def check_events(ck, sc, res):
    """the connection is reported with the client's addresses and a payload that is a prefix of its stream
    containing the first pushed segment (undecoded ports)"""
    for ci, cn in enumerate(sc["conns"], 1):
        if cn["dport"] in DECODED:
            continue
        sent, first_push, established = 0, None, False
        for f in sc["frames"]:
            if f["c"] != ci:
                continue
            if f["k"] in ("ack", "data", "fin"):
                established = True
            if f["k"] in ("data", "fin"):
                sent += f["n"]
                if (f["psh"] or f["k"] == "fin") and first_push is None:
                    first_push = sent
        if first_push is None or not established:
            continue
        evs = [e for e in (res.get("events") or []) if e["c"] == ci and e["payload_hex"] != "-"]
        rp = {"scenario": sc, "events": res.get("events")}
        if not evs:
            ck.disagree("canarytcp/no-connection-event", "connection %s pushed %d bytes but no event names it: %s" % (
                cn, first_push, res.get("events")), rp)
            continue
        e = evs[0]
        payload = bytes.fromhex(e["payload_hex"])
        full = stream(sent)
        if e["destination_port"] != cn["dport"]:
            ck.disagree("canarytcp/event-wrong-port", "event for %s carries destination port %s" % (cn, e["destination_port"]), rp)
        elif not full.startswith(payload) or len(payload) < min(first_push, 2048):
            ck.disagree("canarytcp/event-payload", "connection %s: stream %d bytes (first push at %d), event payload %d bytes %r..." % (
                cn, sent, first_push, len(payload), payload[:20]), rp)


def run(tier, lab):
    ck = lib.Check(PROP, tier, "model_checking")
    rng = random.Random(lib.seed())
    r1 = lib.tlc("MC_CanaryTCP", timeout=300, constants={"NConns": "1", "MaxFrames": "5" if tier == "quick" else "6"})
    lib.tlc_must_pass(r1, "CanaryTCP generation, 1 connection")
    ck.add_tlc(r1, "CanaryTCP: all client behaviours of one connection up to 5 frames (4 segment lengths, PSH, FIN with/without data)")
    r2 = lib.tlc("MC_CanaryTCP", timeout=300, constants={"NConns": "2", "MaxFrames": "6"}, simulate=40 if tier == "quick" else 3000,
                 depth=8, tlc_seed=lib.seed(), workers=8)
    lib.tlc_must_pass(r2, "CanaryTCP generation, 2 connections")
    ck.add_tlc(r2, "CanaryTCP: interleaved frames of two connections (-simulate)")
    # the handler's reader and the receive loop follow the protocol of AgentConn.tla (buffer + notification channel)
    ra = lib.tlc("MC_AgentConn", timeout=200, constants={"MCCap": "1", "MCRecheck": "FALSE", "MCChunks": "3"}, want_scn=False)
    lib.tlc_must_pass(ra, "AgentConn (NoStall, InOrder, NoLoss, Delivered) for the canary socket's reader")
    ck.add_tlc(ra, "AgentConn: reader x receive loop at the grain of their critical sections, safety + liveness")
    rb = lib.tlc("MC_AgentConn", timeout=200, constants={"MCCap": "0", "MCRecheck": "FALSE", "MCChunks": "3"}, want_scn=False)
    if rb.violated != "NoStall":
        raise lib.Infra("an unbuffered notification channel does not violate NoStall in AgentConn (got %s)" % rb.violated)
    uniq = {json.dumps(s["frames"]): s for s in r1.scn + r2.scn}
    pool = [s for s in uniq.values() if len(s["frames"]) >= 3]
    pick = pool if tier == "thorough" else rng.sample(pool, min(420, len(pool)))
    scs = [concretise(s, i, rng, i) for i, s in enumerate(pick)]
    scs += special_cases(len(scs))
    results = {r["id"]: r for r in lib.run_sharded(lab, "c14", scs, shards=min(lib.NCPU, 16), timeout=2400)}
    todo = []
    for sc in scs:
        res = results.get(sc["id"])
        if res is None or res.get("error"):
            raise lib.Infra("scenario %s: %s" % (sc["id"], res and res.get("error")))
        check_events(ck, sc, res)
        todo.append((sc, res))
    # code -> spec: TLC validates every recorded step
    validated = 0
    for attempt in range(8):
        lines = [ln for sc, res in todo for ln in res["lines"]]
        path = os.path.join(lib.scratch(), "c14-trace.ndjson")
        lib.write_ndjson(path, lines)
        tr = lib.tlc("CanaryTCP_Trace", workers=1, timeout=600, extra_files={"trace.ndjson": path}, want_scn=False)
        ck.add_tlc(tr, "CanaryTCP_Trace validation")
        if tr.ok:
            validated = len(todo)
            break
        at = lib.rejected_at(tr)
        if not at or at > len(lines):
            raise lib.Infra("CanaryTCP_Trace failed without a rejected line:\n" + tr.out[-1500:])
        bad = lines[at - 1]
        scn = next(lines[k]["scn"] for k in range(at - 1, -1, -1) if lines[k]["k"] == "reset")
        sc, res = next((s, r) for s, r in todo if s["id"] == scn)
        cn = sc["conns"][bad["c"] - 1] if bad.get("c") else None
        kinds = []
        for e in bad["emitted"]:
            if not e["ipok"] or not e["tcpok"]:
                kinds.append("checksum")
            if e["to"] == 0:
                kinds.append("not-addressed-back")
        if not kinds:
            kinds.append({"syn": "synack", "ack": "after-ack", "data": "ack-number", "fin": "fin-answer", "rst": "after-rst"}[bad["k"]])
        ck.disagree("canarytcp/%s" % kinds[0], "client %s, frames %s: after %s(n=%d) the listener emitted %s" % (
            cn, [(f["c"], f["k"], f["n"]) for f in sc["frames"]], bad["k"], bad["n"], json.dumps(bad["emitted"])[:400]),
            {"scenario": sc, "line": bad})
        todo = [(s, r) for s, r in todo if s["id"] != scn]
    ck.cov.update({"traces_validated_against_impl": validated, "scenarios": len(scs), "client_frames_injected": sum(len(s["frames"]) for s in scs),
                   "evaluations": len(scs), "distinct_nontrivial": len(scs),
                   "rule": "scenario = TLC-generated client behaviour (1 connection exhaustive to 5 frames, sampled in quick; 2 connections "
                           "by -simulate, incl. the client's closing ACK and RST) bound to boundary/random ISNs, decoded/undecoded ports, odd "
                           "and even segment lengths; plus a swapped-port-pair scenario and 20 overlap scenarios (2-4 connections, an earlier "
                           "one completes its close or is reset while later ones go on)"})
    ck.sample({"conns": scs[3]["conns"], "frames": scs[3]["frames"], "lines": results[scs[3]["id"]]["lines"][:4]})
    ck.assumptions += ["the listener's initial sequence number is whatever the implementation draws (its wrap boundary is not steerable)",
                       "frames are injected synchronously through hook VerifInject and read back from the transmit ring",
                       "events are checked for connections to undecoded ports (decoded ports report protocol-specific events)"]
    return ck.finish()


def replay(lab, path):
    rp = json.load(open(path))["replay"]
    sc = dict(rp["scenario"], id=0)
    res = lib.run_sharded(lab, "c14", [sc], shards=1)[0]
    ck = lib.Check(PROP, "quick", "model_checking")
    ck.findings.entries = []
    check_events(ck, sc, res)
    p = os.path.join(lib.scratch(), "c14-trace.ndjson")
    lib.write_ndjson(p, res["lines"])
    tr = lib.tlc("CanaryTCP_Trace", workers=1, timeout=300, extra_files={"trace.ndjson": p}, want_scn=False)
    print(json.dumps(res["lines"], indent=0)[:3000])
    if ck.violations or not tr.ok:
        print("VIOLATION property=C14 replay=%s" % path)
        return 1
    return 0


def selftest(lab):
    """binding demonstration for CanaryTCP_Trace: recorded reactions of the real listener are accepted; an acknowledgement number
    off by one, a frame addressed to nobody and a dropped SYN line are rejected"""
    scs = special_cases(0)[1:4]
    results = {r["id"]: r for r in lib.run_sharded(lab, "c14", scs, shards=1, timeout=600)}
    lines = [ln for sc in scs for ln in results[sc["id"]]["lines"]]

    def validate(ls, tag):
        path = os.path.join(lib.scratch(), "c14-selftest-%s.ndjson" % tag)
        lib.write_ndjson(path, ls)
        return lib.tlc("CanaryTCP_Trace", workers=1, timeout=300, extra_files={"trace.ndjson": path}, want_scn=False)
    clean = validate(lines, "clean")
    b1 = json.loads(json.dumps(lines))
    k = next(i for i, ln in enumerate(b1) if ln["k"] == "data" and ln["emitted"])
    b1[k]["emitted"][0]["ackRel"] += 1
    r1 = validate(b1, "ack")
    b2 = json.loads(json.dumps(lines))
    b2[k]["emitted"][0]["to"] = 0
    r2 = validate(b2, "to")
    ks = next(i for i, ln in enumerate(lines) if ln["k"] == "syn")
    r3 = validate(lines[:ks] + lines[ks + 1:], "drop")
    print("selftest C14: clean accepted=%s; ack+1 rejected=%s (line %s, expected %d); addressed to nobody rejected=%s; SYN line dropped rejected=%s" % (
        clean.ok, not r1.ok, lib.rejected_at(r1), k + 1, not r2.ok, not r3.ok))
    return 0 if clean.ok and not r1.ok and lib.rejected_at(r1) == k + 1 and not r2.ok and not r3.ok else 1
