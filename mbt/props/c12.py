"""C12 — logins succeed exactly for configured credentials; gated commands stay gated.
Spec: Auth.tla (+ MC_Auth).  TLC generates credential sets x attempt sequences with gated probes and
reconnects; they are replayed against the real ssh-simulator (x/crypto client), ldap (hand-built BER)
and ftp services through the real server."""
import json, os, random
import lib, protocols as P

PROP = "C12"


def generate(ck, svc, tier):
    out = []
    r = lib.tlc("MC_Auth", timeout=300, constants={"Svc": '"%s"' % svc, "MaxCreds": "1", "MaxSteps": "2", "Sim": "FALSE"})
    lib.tlc_must_pass(r, "Auth %s exhaustive (SuccessIffConfigured, GateHolds, EveryAttemptLogged)" % svc)
    ck.add_tlc(r, "Auth/%s: credential sets of size <= 1 (+wildcard) x all sequences of 2 steps, exhaustive" % svc)
    out += r.scn
    n = 160 if tier == "quick" else 4000
    r2 = lib.tlc("MC_Auth", timeout=600, constants={"Svc": '"%s"' % svc, "MaxCreds": "3", "MaxSteps": "5", "Sim": "TRUE"},
                 simulate=max(1, n // 8), depth=8, tlc_seed=lib.seed(), workers=8)
    lib.tlc_must_pass(r2, "Auth %s simulate" % svc)
    ck.add_tlc(r2, "Auth/%s: credential sets of size <= 3 x sequences of 5 steps (-simulate)" % svc)
    out += r2.scn
    return out


def group(scns, cap, rng):
    g = {}
    for s in scns:
        key = json.dumps([sorted(s["creds"]), s["wildcard"]])
        g.setdefault(key, []).append(s["steps"])
    out = []
    for key, seqs in sorted(g.items()):
        creds, wild = json.loads(key)
        if len(seqs) > cap:
            seqs = rng.sample(seqs, cap)
        out.append({"creds": creds, "wildcard": wild, "seqs": seqs})
    return out


def check_seq(ck, svc, cfg, steps, oks, events, note=None):
    rp = {"svc": svc, "creds": cfg["creds"], "wildcard": cfg["wildcard"], "steps": steps}
    desc = "%s credentials %s%s" % (svc, cfg["creds"], " + wildcard" if cfg["wildcard"] else "")
    if note:
        ck.disagree("%s/client-error" % svc, "%s: %s" % (desc, note), rp)
        return
    exp_events = [[s["user"], s["password"]] for s in steps if s["a"] == "attempt"]
    for k, (s, ok) in enumerate(zip(steps, oks)):
        if s["a"] == "reconnect" or (svc == "ssh" and s["a"] != "attempt"):
            continue
        if ok != s["ok"]:
            if s["a"] == "attempt":
                kind = "accepted-but-not-configured" if ok else "rejected-although-configured"
                ck.disagree("%s/login/%s" % (svc, kind), "%s: attempt %r/%r after %s: spec %s, real %s" % (
                    desc, s["user"], s["password"], [(x["a"], x["user"], x["password"]) for x in steps[:k]], s["ok"], ok), rp)
            elif not ok and k > 0 and steps[k - 1]["a"] == "attempt" and steps[k - 1]["ok"] and oks[k - 1] and steps[k - 1]["user"] != "":
                # "refused UNTIL a login has succeeded": the attempt right before this probe, on the same connection, was a
                # successful login of a named user (the property's anchor: an empty bound user means anonymous) - the gate must be open
                ck.disagree("%s/gate/refused-after-login" % svc, "%s: gated operation refused right after the successful login %r/%r (sequence %s)" % (
                    desc, steps[k - 1]["user"], steps[k - 1]["password"], [(x["a"], x["user"], x["password"]) for x in steps[:k]]), rp)
            elif not ok:
                # otherwise the property only demands refusal BEFORE a login; being refused later (after an anonymous bind, after
                # further attempts) is not against it
                ck.notes.append("MODEL-DRIFT %s: gated operation refused although the specification has the connection logged in: %s"
                                % (desc, [(x["a"], x["user"], x["password"]) for x in steps[:k]]))
                continue
            else:
                kind = "allowed-before-login"
                ck.disagree("%s/gate/%s" % (svc, kind), "%s: gated operation after %s: spec %s, real %s" % (
                    desc, [(x["a"], x["user"], x["password"], x["ok"]) for x in steps[:k]], s["ok"], ok), rp)
            return
    if events is not None and [list(e) for e in events] != exp_events:
        ck.disagree("%s/auth-events" % svc, "%s: attempts %s recorded as %s" % (desc, exp_events, events), rp)


# ------------------------------------------------------------------ ssh

def run_ssh(ck, lab, cfgs):
    scs = []
    for i, c in enumerate(cfgs):
        scs.append({"id": i, "creds": c["creds"], "wildcard": c["wildcard"],
                    # entries without exactly one ':' must be ignored by the service
                    "extra": ["root", "admin:admin:admin"] if i % 2 else [],
                    "seqs": [{"id": j, "steps": st} for j, st in enumerate(c["seqs"])]})
    results = {r["id"]: r for r in lib.run_sharded(lab, "c12ssh", scs, shards=min(lib.NCPU, 12), timeout=2400)}
    n = 0
    for i, c in enumerate(cfgs):
        res = results[i]
        if res.get("error"):
            raise lib.Infra("ssh config %d: %s" % (i, res["error"]))
        for sq in res["seqs"]:
            steps = c["seqs"][sq["id"]]
            ev = [[e["user"], e["password"]] for e in (sq.get("events") or [])]
            check_seq(ck, "ssh", c, steps, sq["ok"], ev, sq.get("note"))
            n += 1
    return n


# ------------------------------------------------------------------ ldap / ftp through the script executor

LDAP_GATED = [P.ldap_add, P.ldap_modify, P.ldap_delete, P.ldap_moddn, P.ldap_compare]


def ldap_steps(seq, base_ip):
    steps, meta = [], []
    conn, mid = 0, 0

    def open_():
        nonlocal conn
        conn += 1
        steps.append({"op": "open", "c": "c%d" % conn, "laddr": "127.0.0.1:389", "raddr": "%s:%d" % (base_ip, 6000 + conn)})
        meta.append(None)
    open_()
    for k, s in enumerate(seq):
        if s["a"] == "reconnect":
            steps.append({"op": "close", "c": "c%d" % conn})
            meta.append(None)
            open_()
            meta.append(None) if False else None
            continue
        mid += 1
        if s["a"] == "attempt":
            dn = s["user"]
            if dn and k % 2:
                dn = "cn=%s,dc=example,dc=com" % dn     # evaluated as its first RDN value
            msg = P.ldap_bind(mid % 120 + 1, dn, s["password"])
        else:
            # the five gated operations in turn
            msg = LDAP_GATED[k % len(LDAP_GATED)](mid % 120 + 1, "cn=probe,dc=example,dc=com")
        steps.append({"op": "send", "c": "c%d" % conn, "hex": msg.hex()})
        meta.append(None)
        steps.append({"op": "recv", "c": "c%d" % conn, "until": "quiet", "quiet_ms": 30, "timeout_ms": 3000})
        meta.append(k)
    steps.append({"op": "events", "wait_ms": 60})
    meta.append("events")
    return steps, meta


def ldap_result(hexs):
    b = bytes.fromhex(hexs)
    # 30 len 02 01 id  (61|69) len 0a 01 RC ...
    try:
        kids = P._ber_children(P._ber_children(b)[0][2])
        rc = P._ber_children(kids[1][2])[0][2][0]
        return rc
    except Exception:
        return -1


def ftp_steps(seq, base_ip):
    steps, meta = [], []
    conn = 0

    def open_():
        nonlocal conn
        conn += 1
        steps.append({"op": "open", "c": "c%d" % conn, "laddr": "127.0.0.1:21", "raddr": "%s:%d" % (base_ip, 6000 + conn)})
        meta.append(None)
        steps.append({"op": "recv", "c": "c%d" % conn, "until": "re", "re": P.FTP_RE, "timeout_ms": 3000})
        meta.append(None)
    open_()
    for k, s in enumerate(seq):
        if s["a"] == "reconnect":
            steps.append({"op": "close", "c": "c%d" % conn})
            meta.append(None)
            open_()
            continue
        if s["a"] == "attempt":
            text = "USER %s\r\nPASS %s\r\n" % (s["user"], s["password"])
            rx = P.FTP_RE2
        else:
            text = "PWD\r\n"
            rx = P.FTP_RE
        steps.append({"op": "send", "c": "c%d" % conn, "hex": text.encode().hex()})
        meta.append(None)
        steps.append({"op": "recv", "c": "c%d" % conn, "until": "re", "re": rx, "timeout_ms": 3000})
        meta.append(k)
    steps.append({"op": "events", "wait_ms": 60})
    meta.append("events")
    return steps, meta


def run_scripted(ck, lab, svc, cfgs):
    n = 0
    jobs = []
    for ci, c in enumerate(cfgs):
        toml = P.cfg_all([svc])
        if svc == "ldap":
            cs = ",".join(json.dumps("%s:%s" % (u, p)) for u, p in c["creds"])
            toml = toml.replace('credentials=["root:root", "admin:admin"]', "credentials=[%s]" % cs)
        scs, metas = [], {}
        for j, seq in enumerate(c["seqs"]):
            ip = "10.12.%d.%d" % (j // 250, 1 + j % 250)
            steps, meta = (ldap_steps if svc == "ldap" else ftp_steps)(seq, ip)
            scs.append({"id": j, "steps": steps})
            metas[j] = (meta, ip)
        jobs.append((ci, c, toml, scs, metas))

    import threading
    out = {}
    errs = []
    sem = threading.Semaphore(min(lib.NCPU, 12))

    def work(ci, toml, scs):
        with sem:
            cfgp = os.path.join(lib.scratch(), "c12-%s-%d.toml" % (svc, ci))
            inp = os.path.join(lib.scratch(), "c12-%s-%d.in" % (svc, ci))
            outp = os.path.join(lib.scratch(), "c12-%s-%d.out" % (svc, ci))
            open(cfgp, "w").write(toml)
            lib.write_ndjson(inp, scs)
            rc, so, se = lib.run_lab(lab, ["script", "-in", inp, "-out", outp, "-config", cfgp, "-par", "8"], timeout=900)
            if rc != 0:
                errs.append("lab script (%s cfg %d) rc=%d: %s" % (svc, ci, rc, se[-800:]))
                return
            out[ci] = {r["id"]: r for r in lib.read_ndjson(outp)}

    ts = [threading.Thread(target=work, args=(ci, toml, scs)) for ci, c, toml, scs, metas in jobs]
    [t.start() for t in ts]
    [t.join() for t in ts]
    if errs:
        raise lib.Infra("; ".join(errs[:2]))
    for ci, c, toml, scs, metas in jobs:
        for j, seq in enumerate(c["seqs"]):
            res = out[ci][j]
            meta, ip = metas[j]
            oks = [None] * len(seq)
            events = []
            for m, ob in zip(meta, res["obs"]):
                if m is None:
                    continue
                if m == "events":
                    for e in ob.get("events") or []:
                        if e.get("source-ip") != ip:
                            continue
                        if svc == "ldap" and e.get("ldap.request-type") == "bind":
                            events.append([e.get("ldap.username"), e.get("ldap.password")])
                        if svc == "ftp":
                            cmd = e.get("ftp.command", "")
                            if cmd.startswith("USER "):
                                events.append([cmd[5:], None])
                            elif cmd.startswith("PASS ") and events and events[-1][1] is None:
                                events[-1][1] = cmd[5:]
                    continue
                s = seq[m]
                if svc == "ldap":
                    rc = ldap_result(ob.get("hex", ""))
                    oks[m] = (rc == 0)
                else:
                    text = bytes.fromhex(ob.get("hex", "")).decode("latin1")
                    if s["a"] == "attempt":
                        oks[m] = "\r\n230 " in ("\r\n" + text)
                    else:
                        oks[m] = text.startswith("257 ")
            oks = [False if o is None else o for o in oks]
            check_seq(ck, svc, c, seq, oks, events)
            n += 1
    return n


def run(tier, lab):
    ck = lib.Check(PROP, tier, "model_checking")
    rng = random.Random(lib.seed())
    total = 0
    cap = 12 if tier == "quick" else 150
    for svc in os.environ.get("C12_SERVICES", "ssh,ldap,ftp").split(","):
        scns = generate(ck, svc, tier)
        cfgs = group(scns, cap if svc != "ftp" else cap * 20, rng)
        if svc == "ssh":
            n = run_ssh(ck, lab, cfgs)
        else:
            n = run_scripted(ck, lab, svc, cfgs)
        ck.cov.setdefault("per_service", {})[svc] = {"credential_sets": len(cfgs), "sequences": n}
        total += n
        ck.sample({"svc": svc, "creds": cfgs[len(cfgs) // 2]["creds"], "wildcard": cfgs[len(cfgs) // 2]["wildcard"],
                   "steps": cfgs[len(cfgs) // 2]["seqs"][0]})
    ck.cov.update({"traces_validated_against_impl": total, "evaluations": total, "distinct_nontrivial": total,
                   "rule": "sequence = (service, credential set, steps over attempt(u,p)/gated/reconnect) generated by TLC "
                           "(exhaustive for <=1 credential x 2 steps, -simulate for <=3 x 5); sampled per credential set by seed"})
    ck.assumptions += ["ldap anonymous bind (\"\",\"\") is answered with success but is not a login (as the code documents)",
                       "ldap names are also presented as cn=<user>,dc=... and must be evaluated to <user>",
                       "ftp's credential set is the built-in {anonymous:anonymous}; gated probe = PWD (ftp); add, modify, delete, modifyDN, compare in turn (ldap); a gated operation refused right after the successful login of a named user is a violation, refusals later on are drift",
                       "ssh: consecutive attempts for one user share a connection (keyboard retry), another user = new connection"]
    return ck.finish()


def replay(lab, path):
    rp = json.load(open(path))["replay"]
    ck = lib.Check(PROP, "quick", "model_checking")
    ck.findings.entries = []
    cfg = {"creds": rp["creds"], "wildcard": rp["wildcard"], "seqs": [rp["steps"]]}
    if rp["svc"] == "ssh":
        run_ssh(ck, lab, [cfg])
    else:
        run_scripted(ck, lab, rp["svc"], [cfg])
    for sig, p, what in ck.violations:
        print(sig, what)
    if ck.violations:
        print("VIOLATION property=C12 replay=%s" % path)
        return 1
    return 0
