"""C05 — recorded payloads are byte-exact and every emitted event serialises.
Spec: Event.tla (+ MC_Event, Event_Trace)."""
import json, os
import lib

PROP = "C05"


def table_part(ck, tier, lab):
    r = lib.tlc("MC_Event", workers=1, timeout=400, constants={"MaxKeys": "4" if tier == "quick" else "6"})
    lib.tlc_must_pass(r, "Event (MergeKeeps, CopyOverwrites, PayloadFidelity)")
    ck.add_tlc(r, "Event: all reachable stores over 52 options (custom/payload/source/destination/merge/copy), every transition printed")
    table = os.path.join(lib.scratch(), "c05-table.ndjson")
    lib.write_ndjson(table, r.scn)
    out = os.path.join(lib.scratch(), "c05-out.json")
    rc, so, se = lib.run_lab(lab, ["c05", "-in", table, "-out", out], timeout=900)
    if rc != 0:
        raise lib.Infra("lab c05 rc=%d: %s" % (rc, se[-1500:]))
    res = lib.read_ndjson(out)[0]
    for m in res["mismatches"] or []:
        ck.disagree("event/%s" % m["op"], "option %s: %s" % (m["op"], m["problem"]), {"trans": m["trans"]})
    if res.get("raw_text_differs"):
        ck.notes.append("MODEL-DRIFT: the raw text field 'payload' differs from the bytes given in %d transitions (the property fixes "
                        "payload-hex and payload-length only)" % res["raw_text_differs"])
        print("MODEL-DRIFT C05: raw text field differs from the bytes in %d transitions" % res["raw_text_differs"])
    ck.sample(r.scn[len(r.scn) // 2])
    return res["transitions"]


def flat_part(ck, tier, lab):
    out = os.path.join(lib.scratch(), "c05-flat.ndjson")
    rc, so, se = lib.run_lab(lab, ["c05", "-flat", "-out", out, "-seed", str(lib.seed()),
                                   "-long", "40" if tier == "quick" else "400"], timeout=900)
    if rc != 0:
        raise lib.Infra("lab c05 -flat rc=%d: %s" % (rc, se[-1500:]))
    rows = lib.read_ndjson(out)
    tr = lib.tlc("Event_Trace", workers=1, timeout=900, extra_files={"trace.ndjson": out}, want_scn=False)
    ck.add_tlc(tr, "Event_Trace: all 1- and 2-byte payloads, long payloads in chunks, all address kinds")
    if not tr.ok:
        at = lib.rejected_at(tr)
        if not at:
            raise lib.Infra("Event_Trace failed without a rejected line:\n" + tr.out[-1500:])
        bad = rows[at - 1]
        ck.disagree("event/%s-fidelity" % bad["k"], "recorded %s is not what Event.tla prescribes" % json.dumps(bad)[:300], {"line": bad})
    nraw = sum(1 for x in rows if x.get("raw_ok") is False)
    if nraw:
        ck.notes.append("MODEL-DRIFT: raw text field differs from the bytes in %d recorded payloads" % nraw)
    ck.sample(rows[300])
    return len(rows)


def services_part(ck, tier, lab):
    """every event the real services emit while the canonical dialogues (and every grammar token) of all 24 services run
    against the real server: it serialises, and its payload fields agree with each other (hex decodes to `length` bytes)"""
    import life, protocols as P
    scs = []
    rng = __import__("random").Random(lib.seed())
    for key, g in P.GRAMMAR.items():
        shapes = [{"prefix": len(g["canon"]), "ops": [], "ending": "shut", "seg": "whole", "k": 1}]
        shapes += [{"prefix": len(g["canon"]), "ops": [{"o": "tok", "i": i}], "ending": "close", "seg": "whole", "k": 1} for i in range(1, len(g["tokens"]) + 1)]
        shapes += [{"prefix": pre, "ops": [{"o": "raw", "i": c}], "ending": "close", "seg": "whole", "k": 1} for pre in (0, len(g["canon"])) for c in range(1, 6)]
        for sh in shapes:
            scs.append(life.scenario(key, sh, len(scs), rng))
    res = life.run_child(lab, scs, "c05svc", 1500, 0)
    rep = res["report"]
    if rep is None:
        raise lib.Infra("the service exploration for C05 did not finish (rc=%s): %s" % (res["rc"], res["stderr"][-800:]))
    ev = rep["events"]
    if ev["total"] < 100:
        raise lib.Infra("only %d events were emitted by the services" % ev["total"])
    for smp in ev["samples"] or []:
        kind = "unserialisable" if smp["problem"].startswith("json") else "payload-fields-disagree"
        ck.disagree("service-event/%s/%s" % (kind, smp["category"]), "an event of category %s, type %s: %s" % (smp["category"], smp["type"], smp["problem"]),
                    {"services": True, "sample": smp})
    ck.cov["service_events"] = {"events": ev["total"], "unserialisable": ev["unserialisable"], "payload_fields_disagree": ev["payload_fields_disagree"],
                                "dialogues": len(scs)}
    return ev["total"]


def run(tier, lab):
    ck = lib.Check(PROP, tier, "model_checking")
    n1 = table_part(ck, tier, lab)
    n2 = flat_part(ck, tier, lab)
    n3 = services_part(ck, tier, lab)
    ck.cov.update({
        "traces_validated_against_impl": n1 + 1, "option_transitions_tested": n1, "flat_trace_lines": n2, "service_events_checked": n3,
        "evaluations": n1 + n2, "distinct_nontrivial": n1, "exhaustive": True,
        "rule": "every (store, option) transition of Event.tla over the small alphabet is one implementation test "
                "(ToMap, raw payload, json.Marshal keys); flat space: all 65,793 payloads of length <= 2 plus seeded long ones",
    })
    ck.assumptions += ["the 'payload' field (raw string) is compared by the harness and a difference reported as drift: the property fixes hex and length (Event.tla)",
                       "serialisability of events emitted by services is observed in the service explorations (C01/C04 traces)"]
    return ck.finish()


def replay(lab, path):
    rp = json.load(open(path))["replay"]
    ck = lib.Check(PROP, "quick", "model_checking")
    ck.findings.entries = []
    if "trans" in rp:
        table = os.path.join(lib.scratch(), "c05-table.ndjson")
        lib.write_ndjson(table, [rp["trans"]])
        out = os.path.join(lib.scratch(), "c05-out.json")
        lib.run_lab(lab, ["c05", "-in", table, "-out", out])
        res = lib.read_ndjson(out)[0]
        print(json.dumps(res, indent=1))
        bad = bool(res["mismatches"])
    else:
        flat_part(ck, "quick", lab)
        bad = bool(ck.violations)
    if bad:
        print("VIOLATION property=C05 replay=%s" % path)
        return 1
    return 0


def selftest(lab):
    """binding demonstration for Event_Trace: recorded payload lines are accepted; a wrong hex digit, a wrong length and a
    dropped chunk of a long payload are rejected"""
    out = os.path.join(lib.scratch(), "c05-flat.ndjson")
    rc, so, se = lib.run_lab(lab, ["c05", "-flat", "-out", out, "-seed", "1", "-long", "3"], timeout=600)
    rows = lib.read_ndjson(out)
    first_total = next(i for i, r in enumerate(rows) if r["k"] == "total")
    rows = rows[:600] + rows[next(i for i, r in enumerate(rows) if r["k"] == "chunk"):first_total + 1]

    def validate(rs, tag):
        return lib.tlc("Event_Trace", workers=1, timeout=600, extra_files={"trace.ndjson": "\n".join(json.dumps(r) for r in rs) + "\n"}, want_scn=False)
    clean = validate(rows, "clean")
    b1 = json.loads(json.dumps(rows))
    k = next(i for i, r in enumerate(b1) if r["k"] == "payload" and len(r["bytes"]) == 2)
    b1[k]["hex"] = ("0" if b1[k]["hex"][0] != "0" else "1") + b1[k]["hex"][1:]
    r1 = validate(b1, "hex")
    b2 = json.loads(json.dumps(rows))
    b2[k]["length"] += 1
    r2 = validate(b2, "len")
    kc = next(i for i, r in enumerate(rows) if r["k"] == "chunk")
    b3 = rows[:kc] + rows[kc + 1:]
    r3 = validate(b3, "drop")
    print("selftest C05: clean accepted=%s; wrong hex digit rejected=%s (line %s, expected %d); length+1 rejected=%s; dropped chunk rejected=%s" % (
        clean.ok, not r1.ok, lib.rejected_at(r1), k + 1, not r2.ok, not r3.ok))
    return 0 if clean.ok and not r1.ok and lib.rejected_at(r1) == k + 1 and not r2.ok and not r3.ok else 1
