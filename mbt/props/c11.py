"""C11 — FTP clients cannot reach outside the service's filesystem root.
Spec: FtpPath.tla, FtpFs.tla (+ MC_FtpFs: one path at a time on Htfs), FtpSession.tla (+ MC_FtpSession: command sequences
on the running service, process under strace)."""
import json, os, re, subprocess, hashlib
import lib

PROP = "C11"


def level1(ck, tier, lab):
    r = lib.tlc("MC_FtpFs", workers=1, timeout=300, constants={"MaxComps": "5"})
    lib.tlc_must_pass(r, "FtpFs (Contained, CwdRooted)")
    ck.add_tlc(r, "FtpFs: 15 working directories x 7812 paths (<= 5 components over {a,b,..,.,''}, abs/rel), every transition printed")
    table = os.path.join(lib.scratch(), "c11-table.ndjson")
    lib.write_ndjson(table, r.scn)
    out = os.path.join(lib.scratch(), "c11-out.json")
    rc, so, se = lib.run_lab(lab, ["c11", "-in", table, "-out", out], timeout=900)
    if rc != 0:
        raise lib.Infra("lab c11 rc=%d: %s" % (rc, se[-1500:]))
    res = lib.read_ndjson(out)[0]
    drift = set()
    for m in res["mismatches"] or []:
        t = m["trans"]
        what = "cwd /%s, path %r: real %s, spec %s" % ("/".join(t["cwd"]), m["text"], m["got"], m["want"])
        if m["kind"] == "escape":
            ck.disagree("htfs/escape", what, {"level": 1, "trans": t})
        elif m["kind"] == "setup":
            ck.disagree("htfs/cannot-enter-existing-directory", what, {"level": 1, "trans": t})
        else:
            drift.add(what)
    if drift:
        ck.notes.append("MODEL-DRIFT (resolved location inside the root but not the one FtpFs!Resolve gives): " + "; ".join(sorted(drift)[:5]))
        print("MODEL-DRIFT C11: %d resolutions differ from the specification while staying inside the root" % len(drift))
    ck.sample(r.scn[70000])
    ck.sample(r.scn[3])
    return res["transitions"]


# ---------------------------------------------------------------- level 2: command sequences on the running service

def path_text(p):
    return ("/" if p["abs"] else "") + "/".join(p["comps"])


def outside_snapshot(top, root):
    """(path -> digest) of everything below the jail top that is not below the service's root"""
    snap = {}
    for d, dirs, files in os.walk(top):
        if d == root or d.startswith(root + "/"):
            dirs[:] = []
            continue
        dirs[:] = [x for x in dirs if os.path.join(d, x) != root]
        snap[d] = "dir"
        for f in files:
            p = os.path.join(d, f)
            try:
                st = os.stat(p)
                snap[p] = "%s:%d:%d" % (hashlib.md5(open(p, "rb").read()).hexdigest(), st.st_size, int(st.st_mtime))
            except OSError as e:
                snap[p] = "unreadable:%s" % e
    return snap


def make_jail(top):
    """look-alike directories (a, b, n) and sentinel files (f) at every level between the jail top and the service's root"""
    base = os.path.join(top, "j2", "jail", "base")
    os.makedirs(os.path.join(base, "ftp"))
    levels = [top, os.path.join(top, "j2"), os.path.join(top, "j2", "jail"), base, os.path.join(base, "ftp")]
    old = 978307200   # 2001-01-01
    for i, lv in enumerate(levels):
        for d in ("a", "b", "n"):
            os.makedirs(os.path.join(lv, d, "a"), exist_ok=True)
            p = os.path.join(lv, d, "f")
            open(p, "w").write("OUTSIDE" * 1111)
            os.utime(p, (old, old))
        p = os.path.join(lv, "f")
        open(p, "w").write(("OUTSID%d" % i) * 1111)
        os.utime(p, (old, old))


_sys_re = re.compile(r'^(\d+)\s+(\w+)\((.*)$')
_str_re = re.compile(r'"((?:[^"\\]|\\.)*)"')


def parse_strace(path, top, root):
    """-> {(scenario, step): [(syscall, path)]} for path arguments below `top` but not below `root`, after the first marker"""
    cur = None
    bad = {}
    touched = {}
    for ln in open(path, errors="replace"):
        m = _sys_re.match(ln)
        if not m:
            continue
        call, rest = m.group(2), m.group(3)
        for s in _str_re.findall(rest):
            if s.startswith("/verif-mark/"):
                parts = s.split("/")
                cur = (int(parts[2]), parts[3])
                continue
            if cur is None or cur[1] == "end" or not s.startswith("/"):
                continue
            q = os.path.normpath(s)
            if q == top or q.startswith(top + "/"):
                if q == root or q.startswith(root + "/"):
                    touched.setdefault(cur, set()).add(q[len(root):] or "/")
                else:
                    bad.setdefault(cur, []).append((call, s))
    return bad, touched


def level2(ck, tier, lab):
    rd = lib.tlc("MC_FtpSession", timeout=300, constants={"Sim": "FALSE", "MaxLen": "2", "Devs": '{"dotdot_not_clamped"}'}, want_scn=False)
    if rd.violated != "Inv":
        raise lib.Infra("deviation dotdot_not_clamped does not violate Contained in FtpSession")
    r0 = lib.tlc("MC_FtpSession", timeout=600, constants={"Sim": "FALSE", "MaxLen": "2" if tier == "quick" else "3", "Devs": "{}"}, want_scn=False)
    lib.tlc_must_pass(r0, "FtpSession design (Contained, CwdInside, TreeClosed, NoClash, TreeInside)")
    ck.add_tlc(r0, "FtpSession: 15 commands x 40 short paths over {a,f,n,..}, every sequence of <= %s commands, exhaustive" % ("2" if tier == "quick" else "3"))
    n = 160 if tier == "quick" else 4000
    r = lib.tlc("MC_FtpSession", timeout=900, constants={"Sim": "TRUE", "MaxLen": "6" if tier == "quick" else "8", "Devs": "{}"},
                simulate=max(1, n // 8), depth=12, tlc_seed=lib.seed(), workers=8)
    lib.tlc_must_pass(r, "FtpSession generation")
    ck.add_tlc(r, "FtpSession: random command sequences, paths of 1..4 components over {a,b,f,n,..,.,''} (-simulate)")
    scs = [{"id": i, "steps": s["steps"]} for i, s in enumerate(r.scn)]
    return run_sessions(ck, lab, scs)


def run_sessions(ck, lab, scs):
    top = os.path.join(lib.scratch(), "c11top")
    os.makedirs(top)
    make_jail(top)
    before = outside_snapshot(top, "\0")
    inp, out, trace = (os.path.join(lib.scratch(), x) for x in ("c11s-in.ndjson", "c11s-out.ndjson", "c11s-strace.txt"))
    lib.write_ndjson(inp, [{"id": s["id"], "steps": [{"c": st["c"], "p": st["p"], "chunk": st["chunk"]} for st in s["steps"]]} for s in scs])
    env = dict(os.environ, VERIF_SCRATCH=lib.scratch())
    p = subprocess.run(["strace", "-f", "-qq", "-e", "trace=file", "-s", "4096", "-o", trace, lab, "c11session", "-in", inp, "-out", out, "-top", top],
                       env=env, stdout=subprocess.PIPE, stderr=subprocess.PIPE, timeout=3000)
    if p.returncode != 0 or not os.path.exists(out):
        raise lib.Infra("lab c11session under strace rc=%d: %s" % (p.returncode, p.stderr.decode("utf8", "replace")[-1500:]))
    rows = lib.read_ndjson(out)
    root = rows[0]["root"]
    results = {x["id"]: x for x in rows[1:]}
    after = outside_snapshot(top, root)
    changed = sorted(k for k in set(before) | set(after) if before.get(k) != after.get(k) and k != root)
    if changed:
        ck.disagree("ftp/outside-tree-changed", "after %d sessions the tree beside the root differs: %s" % (len(scs), changed[:6]),
                    {"level": 2, "changed": changed[:20]})
    bad, touched = parse_strace(trace, top, root)
    if not touched:
        raise lib.Infra("the syscall trace attributes no path below the root to any command (markers missing?)")
    # (1) every path the process touched while a command ran lies below the root
    byid = {s["id"]: s for s in scs}
    for (sid, step), calls in sorted(bad.items())[:50]:
        sc = byid[sid]
        k = int(step)
        hist = [(st["c"], path_text(st["p"])) for st in sc["steps"][:k + 1]]
        ck.disagree("ftp/escape/%s" % sc["steps"][k]["c"], "commands %s: syscall %s(%s) outside the root %s" % (hist, calls[0][0], calls[0][1], root),
                    {"level": 2, "steps": sc["steps"][:k + 1], "syscalls": calls[:5]})
    drift = {}
    nsteps = 0
    for sc in scs:
        res = results.get(sc["id"])
        if res is not None and "ROOT-GONE" in (res.get("error") or ""):
            # an earlier session moved or removed the root directory itself: reported from the syscall trace / the digest;
            # nothing after it can be judged
            prev = byid.get(sc["id"] - 1)
            ck.disagree("ftp/root-directory-gone", "after commands %s the service's root directory no longer exists" % (
                prev and [(x["c"], path_text(x["p"])) for x in prev["steps"]]), {"level": 2, "steps": prev["steps"] if prev else []})
            break
        if res is None or res.get("error"):
            raise lib.Infra("session scenario %s: %s" % (sc["id"], res and res.get("error")))
        for k, (st, ob) in enumerate(zip(sc["steps"], res["obs"])):
            nsteps += 1
            hist = [(x["c"], path_text(x["p"])) for x in sc["steps"][:k + 1]]
            rp = {"level": 2, "steps": sc["steps"][:k + 1], "observed": ob}
            exp = st["exp"]
            # (2) nothing that comes back was read outside
            blob = (ob.get("data") or "") + " " + (ob.get("text") or "")
            if "OUTSID" in blob or (st["c"] == "SIZE" and ob["codes"][:1] == [213] and ob["text"].strip() == "7777") or \
                    (st["c"] == "MDTM" and ob["codes"][:1] == [213] and ob["text"].startswith("2001")):
                ck.disagree("ftp/outside-content/%s" % st["c"], "commands %s: the reply carries data of a file outside the root: %r" % (hist, blob[:80]), rp)
            # (3) the working directory reported to the client
            if st["c"] in ("PWD", "CWD", "CDUP") and ob["codes"] and ob["codes"][0] in (250, 257):
                m = re.search(r'(/\S*)', ob["text"])
                shown = m.group(1).rstrip('"') if m else None
                want = "/" + "/".join(exp["cwd"])
                if shown is None or ".." in shown.split("/") or not shown.startswith("/"):
                    ck.disagree("ftp/reported-cwd-outside", "commands %s: working directory reported as %r" % (hist, ob["text"]), rp)
                elif os.path.normpath(shown) != want:
                    drift.setdefault("reported working directory differs from FtpSession (still inside)", []).append((hist, shown, want))
            # strict comparison with the specification: reply class and the tree below the root
            ok_real = bool(ob["codes"]) and all(c < 400 for c in ob["codes"][-1:])
            if st["c"] not in ("MDTM", "RETR", "LIST", "NLST") and ok_real != exp["ok"]:
                drift.setdefault("%s: reply class differs" % st["c"], []).append((hist, ob["codes"], exp["ok"]))
            want_dirs = sorted("/".join(d) for d in exp["dirs"] if d)
            # (TLC prints the empty function as an empty list)
            exp_files = exp["files"] if isinstance(exp["files"], dict) else {}
            want_files = {"/".join(eval_loc(kf)): "".join(c + ";" for c in v) for kf, v in exp_files.items()}
            if ob["dirs"] != want_dirs or ob["files"] != want_files:
                drift.setdefault("%s: tree below the root differs" % st["c"], []).append((hist, ob["dirs"], ob["files"], want_dirs, want_files))
                break       # later steps of this scenario start from a different tree
            if st["c"] == "RETR" and ob["codes"][:1] == [150] and (ob.get("data") or "") != "".join(c + ";" for c in exp["content"]):
                drift.setdefault("RETR: bytes returned differ from the file's content", []).append((hist, ob.get("data"), exp["content"]))
            if st["c"] in ("LIST", "NLST") and ob["codes"][:1] == [150]:
                names = sorted(x.split()[-1] for x in (ob.get("data") or "").splitlines() if x.strip())
                if names != sorted(exp["names"]):
                    drift.setdefault("%s: names listed differ" % st["c"], []).append((hist, names, exp["names"]))
    for what, items in sorted(drift.items()):
        ck.notes.append("MODEL-DRIFT level 2 (%d times): %s, e.g. %s" % (len(items), what, json.dumps(items[0])[:400]))
    if drift:
        print("MODEL-DRIFT C11: %d kinds of disagreement with FtpSession.tla that stay inside the root (see evidence notes)" % len(drift))
    ck.cov["level2"] = {"sessions": len(scs), "commands": nsteps, "commands_with_paths_below_root_in_trace": len(touched),
                        "syscall_windows_with_outside_paths": len(bad), "drift_kinds": len(drift)}
    return top, root, len(scs), nsteps


def eval_loc(key):
    """TLC prints a function whose domain is a set of sequences with keys like <<"a", "f">>"""
    return re.findall(r'"([^"]*)"', key)


def level2_guarded(ck, tier, lab):
    """sentinel tree beside the root: digested before the sessions (after the service has made its root) and after"""
    top, root, nsess, ncmd = level2(ck, tier, lab)
    return top, root, nsess, ncmd


def run(tier, lab):
    ck = lib.Check(PROP, tier, "model_checking")
    n1 = level1(ck, tier, lab)
    top, root, nsess, ncmd = level2_guarded(ck, tier, lab)
    ck.cov.update({
        "traces_validated_against_impl": n1, "htfs_transitions_tested": n1, "evaluations": n1, "distinct_nontrivial": n1,
        "exhaustive": True,
        "rule": "level 1: every (working directory, path) transition of FtpFs.tla is one test on the real Htfs "
                "(RealPath + ChangeDir + Cwd) over a real tree with look-alike directories outside the root",
    })
    ck.cov["traces_validated_against_impl"] = n1 + nsess
    ck.cov["evaluations"] = n1 + ncmd
    ck.cov["rule"] += "; level 2: command sequences from FtpSession.tla on the real service in the real server, process under strace"
    ck.assumptions += ["no symlinks inside the root (as the property states)",
                       "level 2 attributes path-taking syscalls to commands by marker syscalls issued by the driver between commands "
                       "(sessions run one at a time); the sentinel tree beside the root is digested before and after"]
    return ck.finish()


def replay(lab, path):
    rp = json.load(open(path))["replay"]
    if rp.get("level") == 2:
        return replay2(lab, path, rp)
    table = os.path.join(lib.scratch(), "c11-table.ndjson")
    lib.write_ndjson(table, [rp["trans"]])
    out = os.path.join(lib.scratch(), "c11-out.json")
    lib.run_lab(lab, ["c11", "-in", table, "-out", out])
    res = lib.read_ndjson(out)[0]
    print(json.dumps(res, indent=1))
    if any(m["kind"] in ("escape", "setup") for m in res["mismatches"] or []):
        print("VIOLATION property=C11 replay=%s" % path)
        return 1
    return 0


def replay2(lab, path, rp):
    ck = lib.Check(PROP, "quick", "model_checking")
    ck.findings.entries = []
    run_sessions(ck, lab, [{"id": 0, "steps": rp["steps"]}])
    for sig, p, what in ck.violations:
        print(sig, what[:400])
    if ck.violations:
        print("VIOLATION property=C11 replay=%s" % path)
        return 1
    return 0
