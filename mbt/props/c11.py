"""C11 — FTP clients cannot reach outside the service's filesystem root.
Spec: FtpFs.tla (+ MC_FtpFs)."""
import json, os
import lib

PROP = "C11"


def level1(ck, tier, lab):
    r = lib.tlc("MC_FtpFs", workers=1, timeout=300, constants={"MaxComps": "5"})
    lib.tlc_must_pass(r, "FtpFs (Contained, CwdRooted)")
    ck.add_tlc(r, "FtpFs: 15 working directories x 7812 paths (<= 5 components over {a,b,..,.,''}, abs/rel), every transition printed")
    table = os.path.join(lib.scratch(), "c11-table.ndjson")
    lib.write_ndjson(table, r.scn)
    out = os.path.join(lib.scratch(), "c11-out.json")
    rc, so, se = lib.run_lab(lab, ["c11", "-in", table, "-out", out], timeout=900)
    if rc != 0:
        raise lib.Infra("lab c11 rc=%d: %s" % (rc, se[-1500:]))
    res = lib.read_ndjson(out)[0]
    drift = set()
    for m in res["mismatches"] or []:
        t = m["trans"]
        what = "cwd /%s, path %r: real %s, spec %s" % ("/".join(t["cwd"]), m["text"], m["got"], m["want"])
        if m["kind"] == "escape":
            ck.disagree("htfs/escape", what, {"level": 1, "trans": t})
        elif m["kind"] == "setup":
            ck.disagree("htfs/cannot-enter-existing-directory", what, {"level": 1, "trans": t})
        else:
            drift.add(what)
    if drift:
        ck.notes.append("MODEL-DRIFT (resolved location inside the root but not the one FtpFs!Resolve gives): " + "; ".join(sorted(drift)[:5]))
        print("MODEL-DRIFT C11: %d resolutions differ from the specification while staying inside the root" % len(drift))
    ck.sample(r.scn[70000])
    ck.sample(r.scn[3])
    return res["transitions"]


def run(tier, lab):
    ck = lib.Check(PROP, tier, "model_checking")
    n1 = level1(ck, tier, lab)
    ck.cov.update({
        "traces_validated_against_impl": n1, "htfs_transitions_tested": n1, "evaluations": n1, "distinct_nontrivial": n1,
        "exhaustive": True,
        "rule": "level 1: every (working directory, path) transition of FtpFs.tla is one test on the real Htfs "
                "(RealPath + ChangeDir + Cwd) over a real tree with look-alike directories outside the root",
    })
    ck.assumptions += ["no symlinks inside the root (as the property states)"]
    return ck.finish()


def replay(lab, path):
    rp = json.load(open(path))["replay"]
    table = os.path.join(lib.scratch(), "c11-table.ndjson")
    lib.write_ndjson(table, [rp["trans"]])
    out = os.path.join(lib.scratch(), "c11-out.json")
    lib.run_lab(lab, ["c11", "-in", table, "-out", out])
    res = lib.read_ndjson(out)[0]
    print(json.dumps(res, indent=1))
    if any(m["kind"] in ("escape", "setup") for m in res["mismatches"] or []):
        print("VIOLATION property=C11 replay=%s" % path)
        return 1
    return 0
