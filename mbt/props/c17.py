"""C17 — the binary decoder stays in bounds; IPP requests decode to what was encoded.
Spec: Decoder.tla (+ MC_Decoder), Ipp.tla."""
import json, os
import lib

PROP = "C17"


def decoder_part(ck, tier, lab):
    r = lib.tlc("MC_Decoder", workers=1, timeout=300)
    lib.tlc_must_pass(r, "Decoder design (InBounds, NoProgressOnError, ErrorSticky, AdvanceExact)")
    ck.add_tlc(r, "Decoder exhaustive: 7 byte patterns x lengths 0..6, sizes -3..8; every transition printed")
    table = os.path.join(lib.scratch(), "dec-table.ndjson")
    lib.write_ndjson(table, r.scn)
    out = os.path.join(lib.scratch(), "dec-out.json")
    seqlen = 3 if tier == "quick" else 4
    rc, so, se = lib.run_lab(lab, ["c17dec", "-in", table, "-out", out, "-seqlen", str(seqlen),
                                   "-random", "2000" if tier == "quick" else "50000", "-randomlen", "40",
                                   "-seed", str(lib.seed())], timeout=3000)
    if rc != 0:
        raise lib.Infra("lab c17dec rc=%d: %s" % (rc, se[-2000:]))
    res = lib.read_ndjson(out)[0]
    drift = set()
    for m in (res["mismatches"] or []):
        op = m["ops"][m["step"]] if m["ops"] and m["step"] < len(m["ops"]) else {"name": "?", "n": 0}
        if m["got"].get("panic"):
            sig = "decoder/%s/panic" % op["name"]
            what = "%s(%s) on buffer %s after %s panicked: %s" % (op["name"], op["n"], m["buf"], m["ops"][:m["step"]], m["got"]["panic"])
        else:
            fld = next((f for f in ("ret", "off", "err") if m["got"].get(f) != m["expect"].get(f)), "?")
            sig = "decoder/%s/%s" % (op["name"], fld)
            what = "%s(%s) on buffer %s after %s: spec %s, real %s" % (op["name"], op["n"], m["buf"], m["ops"][:m["step"]], m["expect"], m["got"])
        primitive = op["name"] in ("Byte", "Int16", "Int32", "Uint32", "PeekByte", "PeekInt16")
        oob = not (0 <= m["got"].get("off", 0) <= len(m["buf"]))
        if primitive or m["got"].get("panic") or oob or m["mode"].startswith("transition-setup"):
            # what the property states: primitive reads behave exactly as specified; nothing panics or leaves the buffer
            ck.disagree(sig, what, {"kind": "decoder", "buf": m["buf"], "ops": m["ops"], "expect": m["expect"], "got": m["got"]})
        else:
            drift.add(sig + ": " + what)
    if drift:
        ck.notes.append("MODEL-DRIFT (Copy/Seek/Data/HasBytes differ from Decoder.tla without panicking or leaving the buffer; "
                        "the property does not fix that behaviour): " + "; ".join(sorted(drift)[:8]))
        print("MODEL-DRIFT C17: %d disagreements outside the property (see evidence notes)" % len(drift))
    c = res["counts"]
    ck.cov["decoder"] = {"transitions_tested": c.get("transitions", 0), "exhaustive_sequences": c.get("sequences", 0),
                         "sequence_length_bound": seqlen, "random_sequences": c.get("random_sequences", 0),
                         "buffers": res["buffers"], "operations": res["ops"], "mismatching_cases": c.get("mismatches", 0)}
    ck.cov["traces_validated_against_impl"] = c.get("transitions", 0) + c.get("sequences", 0) + c.get("random_sequences", 0)
    ck.sample(r.scn[100])
    ck.sample(r.scn[5000])
    return c.get("transitions", 0), c.get("sequences", 0)


def run(tier, lab):
    ck = lib.Check(PROP, tier, "model_checking")
    nt, ns = decoder_part(ck, tier, lab)
    ck.cov.update({
        "evaluations": nt + ns,
        "distinct_nontrivial": nt,
        "exhaustive": True,
        "rule": "decoder: every transition (state, operation) of the reachable graph of Decoder.tla is one implementation "
                "test (distinct by construction); all operation sequences up to the length bound over all model buffers "
                "are run on the real decoder with the TLC-printed table as oracle",
    })
    ck.assumptions += ["the decoder has no state beyond (buffer, cursor, error flag) - checked by the exhaustive sequences",
                       "32-bit results are compared via their two 16-bit halves (TLC integers are 32-bit)"]
    return ck.finish()


def replay(lab, path):
    rp = json.load(open(path))["replay"]
    if rp.get("kind") == "decoder":
        r = lib.tlc("MC_Decoder", workers=1, timeout=300)
        table = os.path.join(lib.scratch(), "dec-table.ndjson")
        lib.write_ndjson(table, [t for t in r.scn if t["buf"] == rp["buf"]])
        out = os.path.join(lib.scratch(), "dec-out.json")
        rc, so, se = lib.run_lab(lab, ["c17dec", "-in", table, "-out", out, "-seqlen", str(min(4, len(rp["ops"]))), "-random", "0"])
        res = lib.read_ndjson(out)[0]
        print(json.dumps(res["mismatches"][:3], indent=1))
        if res["mismatches"]:
            print("VIOLATION property=C17 replay=%s" % path)
            return 1
        return 0
    return 2
