"""C17 — the binary decoder stays in bounds; IPP requests decode to what was encoded.
Spec: Decoder.tla (+ MC_Decoder), Ipp.tla."""
import json, os, struct
import lib, protocols as P

PROP = "C17"


def decoder_part(ck, tier, lab):
    r = lib.tlc("MC_Decoder", workers=1, timeout=300)
    lib.tlc_must_pass(r, "Decoder design (InBounds, NoProgressOnError, ErrorSticky, AdvanceExact)")
    ck.add_tlc(r, "Decoder exhaustive: 7 byte patterns x lengths 0..6, sizes -3..8; every transition printed")
    table = os.path.join(lib.scratch(), "dec-table.ndjson")
    lib.write_ndjson(table, r.scn)
    out = os.path.join(lib.scratch(), "dec-out.json")
    seqlen = 3 if tier == "quick" else 4
    rc, so, se = lib.run_lab(lab, ["c17dec", "-in", table, "-out", out, "-seqlen", str(seqlen),
                                   "-random", "2000" if tier == "quick" else "500000", "-randomlen", "40",
                                   "-seed", str(lib.seed())], timeout=3000)
    if rc != 0:
        raise lib.Infra("lab c17dec rc=%d: %s" % (rc, se[-2000:]))
    res = lib.read_ndjson(out)[0]
    drift = set()
    for m in (res["mismatches"] or []):
        op = m["ops"][m["step"]] if m["ops"] and m["step"] < len(m["ops"]) else {"name": "?", "n": 0}
        if m["got"].get("panic"):
            sig = "decoder/%s/panic" % op["name"]
            what = "%s(%s) on buffer %s after %s panicked: %s" % (op["name"], op["n"], m["buf"], m["ops"][:m["step"]], m["got"]["panic"])
        else:
            fld = next((f for f in ("ret", "off", "err") if m["got"].get(f) != m["expect"].get(f)), "?")
            sig = "decoder/%s/%s" % (op["name"], fld)
            what = "%s(%s) on buffer %s after %s: spec %s, real %s" % (op["name"], op["n"], m["buf"], m["ops"][:m["step"]], m["expect"], m["got"])
        primitive = op["name"] in ("Byte", "Int16", "Int32", "Uint32", "PeekByte", "PeekInt16")
        oob = not (0 <= m["got"].get("off", 0) <= len(m["buf"]))
        if primitive or m["got"].get("panic") or oob or m["mode"].startswith("transition-setup"):
            # what the property states: primitive reads behave exactly as specified; nothing panics or leaves the buffer
            ck.disagree(sig, what, {"kind": "decoder", "buf": m["buf"], "ops": m["ops"], "expect": m["expect"], "got": m["got"]})
        else:
            drift.add(sig + ": " + what)
    if drift:
        ck.notes.append("MODEL-DRIFT (Copy/Seek/Data/HasBytes differ from Decoder.tla without panicking or leaving the buffer; "
                        "the property does not fix that behaviour): " + "; ".join(sorted(drift)[:8]))
        print("MODEL-DRIFT C17: %d disagreements outside the property (see evidence notes)" % len(drift))
    c = res["counts"]
    ck.cov["decoder"] = {"transitions_tested": c.get("transitions", 0), "exhaustive_sequences": c.get("sequences", 0),
                         "sequence_length_bound": seqlen, "random_sequences": c.get("random_sequences", 0),
                         "buffers": res["buffers"], "operations": res["ops"], "mismatching_cases": c.get("mismatches", 0)}
    ck.cov["traces_validated_against_impl"] = c.get("transitions", 0) + c.get("sequences", 0) + c.get("random_sequences", 0)
    ck.sample(r.scn[100])
    ck.sample(r.scn[5000])
    return c.get("transitions", 0), c.get("sequences", 0)


def ipp_encode(req):
    """the harness's own IPP encoder (RFC 8010 layout)"""
    def val(vt, v):
        if vt in (33, 35):
            return struct.pack(">i", int(v))
        if vt == 51:
            return struct.pack(">ii", int(v), min(int(v) + 10, 2147483647))
        if vt == 34:
            return b"\x01" if v == "true" else b"\x00"
        return v.encode()
    out = struct.pack(">BBhi", req["major"], req["minor"], req["op"] if req["op"] < 32768 else req["op"] - 65536, req["id"])
    for g in req["groups"]:
        out += bytes([g["tag"]])
        for a in g["attrs"]:
            for k, v in enumerate(a["vals"]):
                name = a["name"].encode() if k == 0 else b""
                b = val(a["vt"], v)
                out += bytes([a["vt"]]) + struct.pack(">H", len(name)) + name + struct.pack(">H", len(b)) + b
    doc = bytes((ord('D') + i % 20) for i in range(req["doc"]))
    return out + b"\x03" + doc, doc


def ipp_decode_reply(body):
    """-> dict(major, minor, status, id, charset, language) from the reply's first (operation attributes) group"""
    if len(body) < 8:
        return None
    major, minor, status, rid = struct.unpack(">BBhi", body[:8])
    out = {"major": major, "minor": minor, "status": status, "id": rid, "charset": "", "language": ""}
    i = 8
    if i < len(body) and body[i] == 1:
        i += 1
        while i < len(body) and body[i] > 0x0f:
            vt = body[i]
            nl = struct.unpack(">H", body[i + 1:i + 3])[0]
            name = body[i + 3:i + 3 + nl].decode("latin1")
            j = i + 3 + nl
            vl = struct.unpack(">H", body[j:j + 2])[0]
            v = body[j + 2:j + 2 + vl].decode("latin1")
            if name == "attributes-charset":
                out["charset"] = v
            if name == "attributes-natural-language":
                out["language"] = v
            i = j + 2 + vl
    return out


def ipp_part(ck, tier, lab):
    n = 150 if tier == "quick" else 10000
    r = lib.tlc("MC_Ipp", timeout=300, constants={"NReq": str(n)}, tlc_seed=lib.seed(), workers=4)
    lib.tlc_must_pass(r, "Ipp request generator")
    ck.add_tlc(r, "Ipp: %d requests drawn from the structural generator (5 operations, 1..2 groups, 0..7 attributes of every supported value tag with 1..3 values, documents to 64 KiB)" % n)
    scs, meta = [], {}
    for k, s in enumerate(r.scn):
        body, doc = ipp_encode(s["req"])
        ip = "10.17.%d.%d" % (k // 250, 1 + k % 250)
        data = P.http_post("/printers/x", body, "application/ipp") + body
        scs.append({"id": k, "steps": [{"op": "open", "c": "c", "laddr": "127.0.0.1:631", "raddr": "%s:6310" % ip},
                                       {"op": "send", "c": "c", "hex": data.hex()},
                                       {"op": "recv", "c": "c", "until": "eof", "timeout_ms": 3000},
                                       {"op": "events", "wait_ms": 30}]})
        meta[k] = (s, ip, doc)
    cfg = os.path.join(lib.scratch(), "c17-ipp.toml")
    open(cfg, "w").write(P.cfg_all(["ipp"]))
    results = lib.run_sharded(lab, "script", scs, shards=2, extra_args=["-config", cfg, "-par", "16"], timeout=1200)
    for res in results:
        s, ip, doc = meta[res["id"]]
        req = s["req"]
        desc = "op %#x id %d, operation attributes %s%s, document %d bytes" % (
            req["op"], req["id"], [(a["name"], "%#x" % a["vt"], a["vals"]) for a in req["groups"][0]["attrs"]],
            (" + job group %s" % [(a["name"], "%#x" % a["vt"], len(a["vals"])) for a in req["groups"][1]["attrs"]]) if len(req["groups"]) > 1 else "", req["doc"])
        rp = {"ipp": req}
        raw = b"".join(bytes.fromhex(ob.get("hex", "")) for ob in res["obs"] if ob["op"] == "recv")
        evs = [e for ob in res["obs"] if ob["op"] == "events" for e in (ob.get("events") or []) if e.get("source-ip") == ip]
        body = raw.split(b"\r\n\r\n", 1)[1] if b"\r\n\r\n" in raw else b""
        rep = ipp_decode_reply(body)
        if rep is None:
            fatal = [e for e in evs if e.get("type") == "fatal"]
            ck.disagree("ipp/no-reply", "%s: no IPP reply (%s)" % (desc, ("handler panicked: " + str(fatal[0].get("message"))[:120]) if fatal else "connection closed"), rp)
            continue
        exp = s["response"]
        diffs = [k for k in ("major", "minor", "status", "id", "charset", "language") if rep[k] != exp[k]]
        if diffs:
            ck.disagree("ipp/reply-%s" % diffs[0], "%s: reply %s, specification %s" % (desc, rep, exp), rp)
            continue
        ev = next((e for e in evs if e.get("category") == "ipp"), None)
        if ev is None:
            ck.disagree("ipp/no-event", "%s: no ipp event" % desc, rp)
            continue
        if req["op"] == 2:
            want = s["event"]
            got = {"uri": ev.get("ipp.uri"), "user": ev.get("ipp.user"), "jobname": ev.get("ipp.job-name")}
            for k in ("uri", "user", "jobname"):
                if got[k] != want[k]:
                    ck.disagree("ipp/event-%s" % k, "%s: event carries %s=%r, request had %r" % (desc, k, got[k], want[k]), rp)
                    break
            else:
                if (ev.get("ipp.data") or "").encode("latin1", "replace") != doc:
                    ck.disagree("ipp/event-document", "%s: event document has %d bytes" % (desc, len(ev.get("ipp.data") or "")), rp)
    ck.cov["ipp_requests"] = len(scs)
    ck.sample(r.scn[0])
    ipp_decoded(ck, lab, r.scn)
    return len(scs)


def ipp_decoded(ck, lab, scn):
    """what the service's own decoder makes of every generated request (hook ipp.VerifDecode): operation, request id, groups,
    attributes with all their values, document - compared with what was encoded; and the encoder applied to the decoded
    message gives the attribute part of the request back"""
    reqs, rows = {}, []
    for k, s in enumerate(scn):
        body, doc = ipp_encode(s["req"])
        reqs[k] = (s["req"], body, doc)
        rows.append({"id": k, "hex": body.hex()})
    inp, out = os.path.join(lib.scratch(), "c17-ippdec-in.ndjson"), os.path.join(lib.scratch(), "c17-ippdec-out.ndjson")
    lib.write_ndjson(inp, rows)
    rc, so, se = lib.run_lab(lab, ["c17ippdec", "-in", inp, "-out", out], timeout=900)
    if rc != 0:
        raise lib.Infra("lab c17ippdec rc=%d %s" % (rc, se[-800:]))
    n = 0
    for res in lib.read_ndjson(out):
        req, body, doc = reqs[res["id"]]
        n += 1
        desc = "op %#x id %d groups %s" % (req["op"], req["id"], [(g["tag"], [(a["name"], "%#x" % a["vt"], a["vals"]) for a in g["attrs"]]) for g in req["groups"]])
        rp = {"ipp": req, "decoded": res}
        if res.get("panic") or res.get("error"):
            ck.disagree("ipp-decode/fails", "%s: the decoder %s" % (desc[:600], res.get("panic") or res.get("error")), rp)
            continue
        m = res["msg"]
        want_op = req["op"] if req["op"] < 32768 else req["op"] - 65536
        if (m["major"], m["minor"], m["op"], m["id"]) != (req["major"], req["minor"], want_op, req["id"]):
            ck.disagree("ipp-decode/header", "%s: decoded header %s" % (desc[:300], (m["major"], m["minor"], m["op"], m["id"])), rp)
            continue
        want = []
        for g in req["groups"]:
            attrs = []
            for a in g["attrs"]:
                vals = ["%s..%s" % (int(v), min(int(v) + 10, 2147483647)) for v in a["vals"]] if a["vt"] == 51 else [str(v) for v in a["vals"]]
                attrs.append({"vt": a["vt"], "name": a["name"], "vals": vals})
            want.append({"tag": g["tag"], "attrs": attrs})
        got = [g for g in (m["groups"] or []) if g["tag"] != 3]
        if got != want:
            gi = next((i for i, (a, b) in enumerate(zip(got, want)) if a != b), min(len(got), len(want)))
            ga = got[gi]["attrs"] if gi < len(got) else None
            wa = want[gi]["attrs"] if gi < len(want) else None
            ai = next((i for i, (a, b) in enumerate(zip(ga or [], wa or [])) if a != b), 0)
            ck.disagree("ipp-decode/attributes", "%s: group %d attribute %d decoded as %s, encoded %s" % (
                desc[:300], gi, ai, json.dumps((ga or [None])[ai] if ga and ai < len(ga) else None)[:200],
                json.dumps(wa[ai] if wa and ai < len(wa) else None)[:200]), rp)
            continue
        if bytes.fromhex(res.get("data_hex") or "") != doc:
            ck.disagree("ipp-decode/document", "%s: %d document bytes decoded, %d encoded" % (desc[:300], len(res.get("data_hex") or "") // 2, len(doc)), rp)
            continue
        re_ = bytes.fromhex(res.get("reencoded") or "")
        if re_ != body[:len(body) - len(doc)]:
            ck.notes.append("MODEL-DRIFT ipp: encode(decode(request)) differs from the request's attribute part for %s" % desc[:200])
    ck.cov["ipp_requests_decoded_and_compared"] = n


def run(tier, lab):
    ck = lib.Check(PROP, tier, "model_checking")
    nt, ns = decoder_part(ck, tier, lab)
    nipp = ipp_part(ck, tier, lab)
    ck.cov["traces_validated_against_impl"] += nipp
    ck.cov.update({
        "evaluations": nt + ns,
        "distinct_nontrivial": nt,
        "exhaustive": True,
        "rule": "decoder: every transition (state, operation) of the reachable graph of Decoder.tla is one implementation "
                "test (distinct by construction); all operation sequences up to the length bound over all model buffers "
                "are run on the real decoder with the TLC-printed table as oracle",
    })
    ck.assumptions += ["the decoder has no state beyond (buffer, cursor, error flag) - checked by the exhaustive sequences",
                       "32-bit results are compared via their two 16-bit halves (TLC integers are 32-bit)"]
    return ck.finish()


def replay(lab, path):
    rp = json.load(open(path))["replay"]
    if rp.get("kind") == "decoder":
        r = lib.tlc("MC_Decoder", workers=1, timeout=300)
        table = os.path.join(lib.scratch(), "dec-table.ndjson")
        lib.write_ndjson(table, [t for t in r.scn if t["buf"] == rp["buf"]])
        out = os.path.join(lib.scratch(), "dec-out.json")
        rc, so, se = lib.run_lab(lab, ["c17dec", "-in", table, "-out", out, "-seqlen", str(min(4, len(rp["ops"]))), "-random", "0"])
        res = lib.read_ndjson(out)[0]
        print(json.dumps(res["mismatches"][:3], indent=1))
        if res["mismatches"]:
            print("VIOLATION property=C17 replay=%s" % path)
            return 1
        return 0
    return 2
