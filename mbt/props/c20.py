"""C20 — a port scan is reported once, listing exactly the ports probed.
Spec: Knock.tla, UniqueSet.tla (+ MC_Knock, MC_UniqueSet)."""
import json, os, random
import lib

PROP = "C20"
IPS = {"s1": "10.0.0.11", "s2": "10.0.0.12", "s3": "10.0.0.13", "s4": "10.0.0.14"}


def pair(p):
    return "icmp" if p["proto"] == "icmp" else "%s/%d" % (p["proto"], p["port"])


def judge(ck, sc, res):
    probes = sc["probes"]
    rp = {"probes": probes, "observed": res["reports"], "fast_first": sc.get("fast_first", 0), "pace_ms": sc.get("pace_ms", 0)}
    desc = [(p["src"], pair(p)) for p in probes][:40]
    for s, ip in IPS.items():
        want = sorted({pair(p) for p in probes if p["src"] == s})
        listed = sorted(x for r in (res["reports"] or []) if r["src"] == ip for x in r["ports"])
        nrep = len([r for r in (res["reports"] or []) if r["src"] == ip])
        if listed == want:
            # Knock!ReportedOncePerBurst: one burst of one source is reported in ONE piece per protocol class
            for cls in ("tcp", "udp", "icmp"):
                pieces = [r for r in (res["reports"] or []) if r["src"] == ip and any(x.startswith(cls) for x in r["ports"])]
                if len(pieces) > 1:
                    ck.disagree("knock/burst-reported-in-pieces", "%d probes from %s in one burst (%s): %d %s reports listing %s ports" % (
                        len([p for p in probes if p["src"] == s]), s, desc[:6], len(pieces), cls, [len(r["ports"]) for r in pieces]), rp)
            continue
        if not want and listed:
            ck.disagree("knock/report-for-silent-source", "probes %s: source %s never probed but is reported with %s" % (desc, s, listed), rp)
        elif set(listed) - set(want):
            ck.disagree("knock/port-never-probed", "probes %s: source %s reported with %s, probed %s" % (desc, s, listed, want), rp)
        elif set(want) - set(listed):
            missing = sorted(set(want) - set(listed))
            kind = "tcp-missing" if all(m.startswith("tcp") for m in missing) else "ports-missing"
            if nrep == 0:
                kind = "not-reported" if not all(m.startswith("tcp") for m in want) else "tcp-missing"
            ck.disagree("knock/%s" % kind, "probes %s: source %s probed %s, reports list %s" % (desc, s, want, listed), rp)
        else:
            ck.disagree("knock/listed-twice", "probes %s: source %s probed %s, reports list %s (%d reports)" % (desc, s, want, listed, nrep), rp)


def uset_part(ck, tier, lab):
    r = lib.tlc("MC_UniqueSet", workers=1, timeout=200, constants={"Devs": "{}"})
    lib.tlc_must_pass(r, "UniqueSet (NoDuplicates, EachExact)")
    ck.add_tlc(r, "UniqueSet: all reachable sets over 3 keys x add/remove/each-with-removal, every transition printed")
    rd = lib.tlc("MC_UniqueSet", workers=1, timeout=200, constants={"Devs": '{"shared_array"}'}, want_scn=False)
    if rd.violated is None:
        raise lib.Infra("UniqueSet deviation shared_array does not violate EachExact in the model")
    table = os.path.join(lib.scratch(), "uset.ndjson")
    lib.write_ndjson(table, r.scn)
    out = os.path.join(lib.scratch(), "uset.out")
    rc, so, se = lib.run_lab(lab, ["c20", "-uset", "-in", table, "-out", out, "-seqlen", "4" if tier == "quick" else "6"], timeout=1200)
    if rc != 0:
        raise lib.Infra("lab c20 -uset rc=%d %s" % (rc, se[-1000:]))
    res = lib.read_ndjson(out)[0]
    for m in res["mismatches"] or []:
        t = m.get("trans") or m["path"][-1]
        ck.disagree("uniqueset/%s" % t["op"], "set %s, %s%s: real visited %s / items %s, spec visited %s / items %s" % (
            t["items"], t["op"], t["arg"], m["visited"], m["items"], t["visited"], t["items2"]), {"uset": m})
    ck.cov["uniqueset"] = {"transitions": res["transitions"], "sequences": res["sequences"]}
    return res["transitions"] + res["sequences"]


def run(tier, lab):
    ck = lib.Check(PROP, tier, "model_checking")
    rng = random.Random(lib.seed())
    nus = uset_part(ck, tier, lab)
    r = lib.tlc("MC_Knock", timeout=300, constants={"Devs": "{}", "NProbes": "3", "Sim": "FALSE"})
    lib.tlc_must_pass(r, "Knock (PortsExactlyDistinctProbed, ReportedOncePerBurst)")
    ck.add_tlc(r, "Knock: all interleaved bursts of <= 3 probes from 3 sources over tcp/udp (2 ports) and icmp, exhaustive")
    for dev in ("tcp_knock_unreachable", "udp_group_is_tcp", "remove_while_iterating", "group_ignores_source_ip", "stale_group_kept"):
        rd = lib.tlc("MC_Knock", timeout=200, constants={"Devs": '{"%s"}' % dev, "NProbes": "3", "Sim": "FALSE"}, want_scn=False)
        if rd.violated != "Inv":
            raise lib.Infra("deviation %s does not violate the Knock invariants in the model" % dev)
    n = 200 if tier == "quick" else 2000
    r2 = lib.tlc("MC_Knock", timeout=300, constants={"Devs": "{}", "NProbes": "8", "Sim": "TRUE"}, simulate=max(1, n // 8), depth=12,
                 tlc_seed=lib.seed(), workers=8)
    lib.tlc_must_pass(r2, "Knock simulate")
    ck.add_tlc(r2, "Knock: bursts of 8 probes (-simulate)")
    pool = r.scn if tier == "thorough" else rng.sample(r.scn, min(400, len(r.scn)))
    scs = [{"id": i, "probes": s["probes"], "spec_reports": s["reports"]} for i, s in enumerate(pool + r2.scn)]
    # seeded large bursts (up to 150 probes, 1..4 sources, repeated ports)
    for k in range(20 if tier == "quick" else 200):
        srcs = ["s1", "s2", "s3", "s4"][:rng.randint(1, 4)]
        probes = []
        for _ in range(rng.randint(20, 150)):
            pr = rng.choice(["tcp", "udp", "udp", "icmp"])
            src = rng.choice(srcs)
            probes.append({"src": src, "via": "gw" if src in ("s1", "s2", "s4") else "own", "proto": pr, "port": 0 if pr == "icmp" else rng.choice([1000, 1001, 2000 + rng.randint(0, 30)])})
        scs.append({"id": len(scs), "probes": probes})
    # scans that take their time: more than 100 probes spread over more than one quiet period's length, never pausing for a
    # whole quiet period - still ONE burst per source (Knock.tla reports only when no probe arrived for the quiet period)
    for k, (nsrc, fast, slow, pace) in enumerate([(1, 110, 40, 150), (2, 120, 60, 100), (1, 30, 100, 60)] if tier == "quick" else
                                                 [(1, 110, 40, 150), (2, 120, 60, 100), (1, 30, 100, 60), (3, 200, 80, 90), (1, 101, 30, 200), (2, 10, 150, 45)]):
        probes = []
        for n in range(fast + slow):
            src = "s%d" % (1 + n % nsrc)
            probes.append({"src": src, "via": "gw" if src in ("s1", "s2") else "own", "proto": "udp", "port": 3000 + n})
        scs.append({"id": len(scs), "probes": probes, "fast_first": fast, "pace_ms": pace})
    # a crowded minute: one source's burst, then another source keeps knocking every 4 s for longer than the detector keeps a
    # group (60 s), so the quiet timer - which waits for silence from EVERY source - cannot fire in between (Knock!Age): each
    # burst is still reported once. Runs in a lab process of its own, beside the others (70 s of pacing).
    crowded = [{"src": "s3", "via": "own", "proto": "tcp", "port": p} for p in (22001, 22002, 22003)] + \
              [{"src": "s1", "via": "gw", "proto": "tcp", "port": 3000 + i} for i in range(17)]
    scs.append({"id": len(scs), "probes": crowded, "fast_first": 3, "pace_ms": 4000, "own_process": True})
    slim = lambda xs: [{k: v for k, v in s.items() if k in ("id", "probes", "fast_first", "pace_ms")} for s in xs]
    import threading
    side = {}
    th = threading.Thread(target=lambda: side.update(res=lib.run_sharded(lab, "c20", slim([s for s in scs if s.get("own_process")]), shards=1,
                                                                         extra_args=["-shortwait"], timeout=600, tag="-crowded")))
    th.start()
    results = lib.run_sharded(lab, "c20", slim([s for s in scs if not s.get("own_process")]), shards=min(lib.NCPU, 8), timeout=1200)
    th.join()
    if "res" not in side:
        raise lib.Infra("the crowded-minute scenario did not finish")
    results = results + side["res"]
    byid = {x["id"]: x for x in results}
    multi = 0
    for sc in scs:
        res = byid.get(sc["id"])
        if res is None or res.get("error"):
            raise lib.Infra("scenario %s: %s" % (sc["id"], res and res.get("error")))
        judge(ck, sc, res)
        if len({p["src"] for p in sc["probes"]}) > 1:
            multi += 1
    ck.cov.update({"traces_validated_against_impl": len(scs) + nus, "knock_scenarios": len(scs), "scenarios_with_several_sources": multi,
                   "evaluations": len(scs) + nus, "distinct_nontrivial": len(scs),
                   "rule": "scenario = interleaved sequence of probes (source, protocol, port): TLC exhaustive for <= 3 probes (sampled in "
                           "quick), -simulate for 8, seeded bursts of 20..150 probes from 1..4 sources; UniqueSet: every transition + "
                           "all sequences up to the length bound"})
    ck.sample({"probes": scs[10]["probes"], "spec_reports": scs[10].get("spec_reports")})
    ck.assumptions += ["sources s1, s2 (and s4 in the large bursts) share one source hardware address (a gateway), s3 has its own", "probes are injected synchronously (hook VerifInject) into one real Canary per scenario; the detector's real 5 s "
                       "quiet timer is waited for twice", "per source the union of its reports is compared with the set probed: one "
                       "report per protocol class or one per source are both accepted"]
    return ck.finish()


def replay(lab, path):
    rp = json.load(open(path))["replay"]
    ck = lib.Check(PROP, "quick", "model_checking")
    ck.findings.entries = []
    if "uset" in rp:
        uset_part(ck, "quick", lab)
    else:
        sc = {"id": 0, "probes": rp["probes"], "fast_first": rp.get("fast_first", 0), "pace_ms": rp.get("pace_ms", 0)}
        long_one = rp.get("pace_ms", 0) >= 1000
        res = lib.run_sharded(lab, "c20", [sc], shards=1, timeout=600, extra_args=["-shortwait"] if long_one else None)[0]
        print(json.dumps(res)[:3000])
        judge(ck, sc, res)
    for sig, p, what in ck.violations:
        print(sig, what[:300])
    if ck.violations:
        print("VIOLATION property=C20 replay=%s" % path)
        return 1
    return 0
