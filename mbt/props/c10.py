"""C10 — UDP services are not amplifiers.  Spec: Limiter.tla (+ MC_Limiter*, Limiter_Trace)."""
import json, os
import lib

PROP = "C10"
# one request kind per service that is answered with exactly one datagram when the limiter allows it
KINDS1 = {"counterstrike": "info", "snmp": "get", "tftp": "rrq", "memcached": "stats"}


def design(ck, tier):
    r = lib.tlc("MC_LimiterDesign", timeout=600, constants={"DMaxT": "3" if tier == "quick" else "5"})
    lib.tlc_must_pass(r, "Limiter design (AtMostBurstPerWindow, SourcesIndependent, RepliesPaidFor)")
    ck.add_tlc(r, "Limiter exhaustive: 2 services x 2 ips, Burst 2, Q 2, with Advance")
    rd = lib.tlc("MC_LimiterDesign", timeout=300, constants={"DMaxT": "2", "Devs": '{"racy_first_use"}'}, want_scn=False)
    if rd.violated is None:
        raise lib.Infra("regression racy_first_use does not violate AtMostBurstPerWindow / RepliesPaidFor in the model")


def unbounded(ck, tier):
    """the token-bucket argument as an inductive invariant (LimiterInd.tla), discharged by Apalache for an unbounded clock and
    arbitrarily long histories; thorough tier only (the inductive step takes minutes). A tool failure is a note, not a verdict;
    a refuted obligation means the specification's argument is broken: exit 2."""
    if tier != "thorough":
        return
    import apalache
    for what, init, inv, length, tmo in (("Init => IndInv", "Init", "IndInv", 0, 600), ("IndInv /\\ Next => IndInv'", "IndInit", "IndInv", 1, 2400),
                                         ("IndInv => AtMostBurstPerWindow", "IndInit", "AtMostBurstPerWindow", 0, 600)):
        outcome, detail, wall = apalache.check("LimiterInd", init, inv, length, timeout=tmo)
        if outcome == "refuted":
            raise lib.Infra("Apalache refutes %s in LimiterInd.tla:\n%s" % (what, detail))
        ck.notes.append("Apalache (unbounded time): %s: %s in %.0f s%s" % (what, "proved" if outcome == "ok" else "NOT ESTABLISHED (tool unavailable or timed out)",
                                                                           wall, "" if outcome == "ok" else " - " + detail[-200:]))
    # non-vacuity: a bound of Burst - 1 must be refuted from the same arbitrary state
    outcome, detail, wall = apalache.check("LimiterInd", "IndInit", "TooStrong", 0, timeout=600)
    ck.notes.append("Apalache: the too-strong bound (Burst - 1 per window) is %s" % {"refuted": "refuted, as it must be", "ok": "NOT refuted: IndInit is vacuous",
                                                                                    "unavailable": "not checked (tool unavailable)"}[outcome])
    if outcome == "ok":
        raise lib.Infra("LimiterInd!IndInit admits no state with Burst responses in one window: the inductive check is vacuous")


def generate(tier):
    n = 150 if tier == "quick" else 6000
    r = lib.tlc("MC_Limiter", simulate=n, depth=14, tlc_seed=lib.seed(), workers=1, timeout=300)
    if r.rc not in (0,) or r.violated:
        lib.tlc_must_pass(r, "Limiter generation")
    return r


def exec_scenarios(lab, scs, random_n, maxlen, shards=None):
    shards = shards or min(lib.NCPU, 8)
    import subprocess, threading
    results = []
    errs = []

    def work(k):
        part = scs[k::shards]
        inp = os.path.join(lib.scratch(), "c10-in-%d.ndjson" % k)
        outp = os.path.join(lib.scratch(), "c10-out-%d.ndjson" % k)
        lib.write_ndjson(inp, part)
        rn = random_n // shards + (1 if k < random_n % shards else 0)
        rc, so, se = lib.run_lab(lab, ["c10", "-in", inp, "-out", outp, "-random", str(rn), "-maxlen", str(maxlen),
                                       "-seed", str(lib.seed() * 1000 + k)], timeout=1500)
        if rc != 0:
            errs.append("lab c10 shard %d rc=%d: %s" % (k, rc, se[-2000:]))
            return
        for row in lib.read_ndjson(outp):
            row["shard"] = k
            results.append(row)

    ts = [threading.Thread(target=work, args=(k,)) for k in range(shards)]
    [t.start() for t in ts]
    [t.join() for t in ts]
    if errs:
        raise lib.Infra("; ".join(errs))
    return results


def signature(step):
    return "%s/%s/%s" % (step["svc"], step["kind"], "replies" if step.get("_field") == "rep" else "events")


def trace_lines(results):
    lines = []
    for idx, r in enumerate(results):
        lines.append({"k": "reset", "scn": r["id"], "idx": idx})
        for o in r["obs"]:
            lines.append({"k": "req", "svc": o["svc"], "ip": o["ip"], "port": o["port"], "kind": o["kind"],
                          "ev": o["ev"], "rep": o["rep"]})
    return lines


def validate_trace(lines, label="trace"):
    path = os.path.join(lib.scratch(), "c10-%s.ndjson" % label)
    lib.write_ndjson(path, lines)
    r = lib.tlc("Limiter_Trace", workers=1, timeout=600, extra_files={"trace.ndjson": path}, want_scn=False)
    return r


def amplification_oracle(res):
    """The property itself, evaluated on the raw observation (independent of the model):
    per (service, ip) at most 4 replies in a scenario (a scenario lasts far less than 10 min)."""
    cnt = {}
    for o in res["obs"]:
        key = (o["svc"], o["ip"])
        cnt[key] = cnt.get(key, 0) + o["rep"]
    return {k: v for k, v in cnt.items() if v > 4}


def refused(res):
    """some bucket ran dry in this scenario: a reply-bearing kind got no reply"""
    return any(o["rep"] == 0 and o["kind"] in ("rrq", "wrq", "data", "get", "getnext", "set", "info", "player",
                                                "rules", "other", "stats", "two", "three") for o in res["obs"])


def solo_interference(lab, res, svc, ip):
    """Property-level differential oracle for 'one source's requests never use up another source's
    allowance': the replies (svc, ip) got in the mixed scenario must equal the replies it gets when
    only its own requests are sent (fresh server both times)."""
    own = [dict(o) for o in res["obs"] if o["svc"] == svc and o["ip"] == ip]
    if not own:
        raise lib.Infra("the rejected trace line (%s, %s) is not part of the scenario it was attributed to" % (svc, ip))
    solo = exec_scenarios(lab, [{"id": 0, "steps": own}], 0, 1, shards=1)[0]
    if solo.get("error"):
        raise lib.Infra("solo run: " + solo["error"])
    mixed = [o["rep"] for o in own]
    alone = [o["rep"] for o in solo["obs"]]
    return mixed != alone, {"mixed": mixed, "alone": alone}


def classify(ck, lab, res, exp_steps, drift):
    """res: observed scenario. Returns nothing; records violations (property level) or drift notes."""
    over = amplification_oracle(res)
    for (svc, ip), n in over.items():
        ck.disagree("%s/amplification" % svc, "%d response datagrams to %s in one burst (limit 4)" % (n, ip),
                    {"scenario": res})
    if exp_steps is None:
        return
    checked = set()
    for k, (e, o) in enumerate(zip(exp_steps, res["obs"])):
        if e["rep"] != o["rep"] or e["ev"] != o["ev"]:
            key = (e["svc"], e["ip"])
            if o["rep"] < e["rep"] and key not in checked:
                checked.add(key)
                bad, detail = solo_interference(lab, res, e["svc"], e["ip"])
                if bad:
                    ck.disagree("%s/interference" % e["svc"],
                                "replies to %s depend on other sources' requests: %s" % (e["ip"], detail),
                                {"scenario": res, "svc": e["svc"], "ip": e["ip"], "detail": detail})
                    continue
            drift.add("%s/%s: spec prescribes ev=%d rep=%d, real server ev=%d rep=%d" % (
                e["svc"], e["kind"], e["ev"], e["rep"], o["ev"], o["rep"]))


def run(tier, lab):
    ck = lib.Check(PROP, tier, "model_checking")
    design(ck, tier)
    g = generate(tier)
    ck.add_tlc(g, "MC_Limiter -simulate generation")
    scs = [{"id": i, "steps": s["steps"]} for i, s in enumerate(g.scn)]
    if not scs:
        raise lib.Infra("TLC produced no scenarios")
    expected = {s["id"]: s["steps"] for s in scs}
    random_n = 40 if tier == "quick" else 2000
    results = exec_scenarios(lab, scs, random_n, 200)
    nsteps = 0
    distinct = set()
    drift = set()
    for res in results:
        if res.get("error"):
            raise lib.Infra("scenario %s: %s" % (res["id"], res["error"]))
        nsteps += len(res["obs"])
        distinct.add(json.dumps([(o["svc"], o["ip"], o["kind"]) for o in res["obs"]]))
        classify(ck, lab, res, expected.get(res["id"]), drift)
    # concurrent first bursts: the server handles every datagram in its own goroutine, so the first datagrams of a source never
    # seen before reach the limiter at the same time; the bucket is ONE per source whatever the interleaving (Limiter.tla has no
    # per-request state, regression "racy_first_use")
    conc = []
    for k in range(2 if tier == "quick" else 12):
        for svc in ("counterstrike", "snmp", "tftp", "memcached"):
            # 400 sources never seen before, 8 datagrams each, all handed to the server at once (the window in which two first
            # datagrams of one source can meet is a few microseconds: many sources make it likely that some pair does)
            steps = [{"svc": svc, "ip": "10.%d.%d.%d" % (50 + len(conc), ipn // 200, 1 + ipn % 200), "port": 2000 + j, "kind": KINDS1[svc]}
                     for ipn in range(400) for j in range(8)]
            conc.append({"id": 100000 + len(conc), "concurrent": True, "steps": steps})
        # and one source alone
        conc.append({"id": 100000 + len(conc), "concurrent": True,
                     "steps": [{"svc": "counterstrike", "ip": "10.49.%d.9" % k, "port": 1024 + j, "kind": "info"} for j in range(200)]})
    cres = exec_scenarios(lab, conc, 0, 1)
    nsrc = 0
    for res in cres:
        if res.get("error"):
            raise lib.Infra("concurrent scenario %s: %s" % (res["id"], res["error"]))
        per = {}
        for o in res["obs"]:
            per[o["ip"]] = per.get(o["ip"], 0) + o["rep"]
        nsrc += len(per)
        svc = res["obs"][0]["svc"]
        over = {ip: n for ip, n in per.items() if n > 4}
        if over:
            ip, n = sorted(over.items(), key=lambda x: -x[1])[0]
            ck.disagree("%s/amplification" % svc, "%d response datagrams to %s (and more than 4 to %d of %d sources) when every source's datagrams are "
                        "handed to the server at once (limit 4)" % (n, ip, len(over), len(per)),
                        {"scenario": {"id": res["id"], "concurrent": True, "steps": [o for o in res["obs"] if o["ip"] == ip]}, "replies": n})
        under = [ip for ip, n in per.items() if n < 4]
        if under:
            drift.add("concurrent burst: %d of %d fresh %s sources got fewer than 4 replies" % (len(under), len(per), svc))
    ck.cov["concurrent_first_burst_sources"] = nsrc
    ck.cov["concurrent_first_bursts"] = len(cres)
    # code -> spec: every observed behaviour (TLC-generated and random bursts) must be a behaviour of Limiter
    todo = list(results)
    validated = 0
    for attempt in range(6):
        lines = trace_lines(todo)
        tr = validate_trace(lines)
        ck.add_tlc(tr, "Limiter_Trace validation")
        if tr.ok:
            validated = len(todo)
            break
        at = lib.rejected_at(tr)
        if not at or at > len(lines):
            raise lib.Infra("trace validation failed without a rejected line:\n" + tr.out[-2000:])
        bad = lines[at - 1]
        # (scenario ids of the TLC-generated and the random bursts may coincide: the position in the list identifies the scenario)
        idx = next(lines[k]["idx"] for k in range(at - 1, -1, -1) if lines[k]["k"] == "reset")
        res = todo[idx]
        # the scenario the specification cannot explain: decide by the property-level predicates
        nviol = len(ck.violations) + len(ck.known)
        over = amplification_oracle(res)
        for (svc, ip), n in over.items():
            ck.disagree("%s/amplification" % svc, "%d response datagrams to %s in one burst (limit 4)" % (n, ip),
                        {"scenario": res})
        bad_if, detail = solo_interference(lab, res, bad["svc"], bad["ip"])
        if bad_if:
            ck.disagree("%s/interference" % bad["svc"],
                        "replies to %s depend on other sources' requests: %s" % (bad["ip"], detail),
                        {"scenario": res, "svc": bad["svc"], "ip": bad["ip"], "detail": detail})
        if len(ck.violations) + len(ck.known) == nviol:
            drift.add("trace line not explained by Limiter (violated=%s) but amplification/interference predicates hold: %s"
                      % (tr.violated, json.dumps(bad)))
        todo = todo[:idx] + todo[idx + 1:]
    if drift:
        ck.notes.append("MODEL-DRIFT (specification and code disagree on something the property does not constrain; "
                        "verdict taken from the property-level predicates): " + "; ".join(sorted(drift)[:10]))
        print("MODEL-DRIFT C10: %d kinds of disagreement outside the property (see evidence notes)" % len(drift))
    ck.cov.update({
        "traces_validated_against_impl": validated,
        "trace_events": sum(len(r["obs"]) + 1 for r in results),
        "scenarios_from_tlc": len(scs),
        "random_bursts": len(results) - len(scs),
        "datagrams_sent": nsteps,
        "scenarios_with_a_refused_request": sum(1 for r in results if refused(r)),
        "distinct_nontrivial": len(distinct),
        "evaluations": len(results),
        "rule": "scenario = request sequence (service, source ip, source port, kind); distinct by its (service, ip, kind) sequence; "
                "TLC -simulate of MC_Limiter (depth 14) plus seeded random bursts of 1..200 datagrams from 1..3 ips",
    })
    for res in results[:2]:
        ck.sample({"id": res["id"], "obs": res["obs"][:8]})
    ck.assumptions += [
        "real time does not advance by a noticeable fraction of the 10 min interval during a scenario (scenarios take milliseconds)",
        "byte templates per request kind (harness/cmd/lab/c10.go) are the concretisation of MC_LimiterTables",
        "datagrams are delivered as listener.DummyUDPConn values exactly as listener/socket does",
    ]
    unbounded(ck, tier)
    return ck.finish()


def replay(lab, path):
    with open(path) as fh:
        rp = json.load(fh)["replay"]
    sc = rp["scenario"]
    steps = sc.get("steps") or sc.get("obs")
    res = exec_scenarios(lab, [{"id": 0, "steps": steps}], 0, 1, shards=1)[0]
    print(json.dumps(res, indent=1))
    bad = bool(amplification_oracle(res))
    for svc, ip in sorted({(o["svc"], o["ip"]) for o in res["obs"]}):
        b, detail = solo_interference(lab, res, svc, ip)
        if b:
            print("interference", svc, ip, detail)
            bad = True
    if bad:
        print("VIOLATION property=C10 replay=%s" % path)
        return 1
    print("C10 replay: property-level predicates hold")
    return 0


def selftest(lab):
    """binding demonstration: corrupt one recorded field / drop one event -> rejected"""
    g = lib.tlc("MC_Limiter", simulate=5, depth=14, tlc_seed=7, workers=1)
    scs = [{"id": i, "steps": s["steps"]} for i, s in enumerate(g.scn)]
    results = exec_scenarios(lab, scs, 0, 1, shards=1)
    lines = trace_lines(results)
    ok = validate_trace(lines, "st0").ok
    bad1 = json.loads(json.dumps(lines))
    for ln in bad1:
        if ln["k"] == "req" and ln["rep"] == 1:
            ln["rep"] = 0
            break
    r1 = validate_trace(bad1, "st1")
    bad2 = [ln for k, ln in enumerate(lines) if not (ln["k"] == "req" and ln.get("rep") == 1 and k < 6)]
    # dropping served requests must surface later as a served request the model says is refused - only if >4 follow
    print("selftest: clean accepted=%s corrupted rejected=%s (at %s)" % (ok, not r1.ok, lib.rejected_at(r1)))
    return 0 if ok and not r1.ok else 1
