"""C07 — the file channel keeps every event as one intact JSON line across rotations.
Spec: RotateFile.tla (+ MC_RotateFileDesign, MC_RotateFile)."""
import json, os, random
import lib

PROP = "C07"

PREDICATES = [("panic", "rotate/panic"), ("blocked", "rotate/blocked"), ("corrupt", "rotate/line-corrupt"),
              ("lost", "rotate/line-lost"), ("dup", "rotate/line-duplicated"), ("overwritten", "rotate/overwritten"),
              ("oversize_multi", "rotate/oversize-file-with-several-lines")]


def judge(ck, sc, res, drift):
    short = lambda xs: xs if len(xs) <= 16 else xs[:12] + ["... %d lines, %d bytes" % (len(xs), sum(xs))]
    desc = [(s["a"], short([l["len"] for l in s["lines"]])) for s in sc["steps"]]
    bad = False
    for key, sig in PREDICATES:
        if res.get(key):
            bad = True
            prefix = "file" if sc.get("level", "rf") != "rf" else "rotate"
            ck.disagree(sig.replace("rotate/", prefix + "/"), "maxsize %s, steps %s: %s" % (sc.get("maxsize", 1024), desc, res[key]),
                        {"scenario": sc, "observed": res})
    if not bad and sc.get("level", "rf") == "rf" and "files" in sc:
        # layout conformance with the specification (not a verdict: the property allows other split policies)
        exp = sorted([f for f in sc["files"]] + ([sc["active"]] if sc["active"] else []))
        got = sorted(v for k, v in res.get("layout", {}).items() if v and not k.startswith("taken-"))
        if exp != got and not sc.get("has_ext"):
            drift.add("layout for %s: spec %s, real %s" % (desc, exp, got))
    return bad


def design(ck):
    r = lib.tlc("MC_RotateFileDesign", timeout=300, want_scn=False, constants={"Devs": "{}", "DLines": "4"})
    lib.tlc_must_pass(r, "RotateFile strict design (AllKept, SizeOK, NamesDistinct, NoOverwrite, EventuallyFlushed)")
    ck.add_tlc(r, "RotateFile strict: MaxSize 1024, 5 boundary lengths, 4 lines, batches <= 3, ticks, external remove/rename, reopen")
    for dev, want in (("split_drops_first_byte", "AllKept"), ("rename_same_second", None), ("names_from_instance_memory", None)):
        rd = lib.tlc("MC_RotateFileDesign", timeout=300, want_scn=False, constants={"Devs": '{"%s"}' % dev, "DLines": "3"})
        if rd.violated is None or (want and rd.violated != want):
            raise lib.Infra("deviation %s does not violate the expected property in the model (got %s)" % (dev, rd.violated))


def random_scenarios(rng, n, first_id, maxsizes):
    out = []
    for i in range(n):
        ms = rng.choice(maxsizes)
        around = [20, 60, ms // 2 - 1, ms // 2, ms // 2 + 1, ms - 20, ms - 1, ms, ms + 1, 2 * ms + 1]
        steps, nid = [], 1
        for _ in range(rng.randint(2, 7)):
            k = rng.choice([1, 1, 2, 3, 5])
            lines = []
            for _ in range(k):
                lines.append({"id": nid, "len": max(20, rng.choice(around + [rng.randint(20, ms + 50)]))})
                nid += 1
            steps.append({"a": "write", "lines": lines})
            if rng.random() < 0.1:
                steps.append({"a": rng.choice(["remove", "rename"]), "lines": []})
            elif rng.random() < 0.25:
                steps.append({"a": "reopen", "lines": []})
        out.append({"id": first_id + i, "level": "rf", "maxsize": ms, "steps": steps,
                    "has_ext": any(s["a"] in ("remove", "rename") for s in steps)})
    return out


def fb_scenarios(rng, n, first_id):
    out = []
    for i in range(n):
        ms = rng.choice([1024, 1024, 4096])
        steps, nid = [], 1
        for _ in range(rng.randint(1, 3)):
            lines = []
            for _ in range(rng.choice([1, 2, 3, 6, 12])):
                lines.append({"id": nid, "len": rng.choice([100, ms // 2, ms // 2 + 40, ms - 30, ms + 100, 300])})
                nid += 1
            steps.append({"a": "write", "lines": lines})
            # the channel is closed and created again on the same file (restart), or just left to flush
            steps.append({"a": "reopen" if rng.random() < 0.4 else "wait", "lines": []})
        out.append({"id": first_id + i, "level": "fb", "maxsize": ms, "steps": steps})
    # more than the 500 KiB buffer within one flush interval (the size-triggered flush), then a trickle that only the
    # timer can flush, then nothing
    for k, (ms, nburst, size) in enumerate([(4 << 20, 720, 900), (1 << 20, 700, 1000)]):
        nid, steps = 1, []
        steps.append({"a": "write", "lines": [{"id": nid + j, "len": size} for j in range(nburst)]})
        nid += nburst
        steps.append({"a": "write", "lines": [{"id": nid + j, "len": 200} for j in range(5)]})
        nid += 5
        steps.append({"a": "wait", "lines": []})
        steps.append({"a": "write", "lines": [{"id": nid + j, "len": 300} for j in range(3)]})
        steps.append({"a": "wait", "lines": []})
        out.append({"id": first_id + n + 1 + k, "level": "fb", "maxsize": ms, "steps": steps})
    # the same with SMALL maximum sizes: the batch handed to the rotating file is cut where the buffer happens to be full
    # (500 KiB), and a rotation falls on nearly every line - whatever the writer is handed, whole lines only may be split off
    for k, (ms, lo, hi, total) in enumerate([(1024, 300, 900, 1700 << 10), (1024, 120, 1000, 1700 << 10), (4096, 1500, 3900, 2200 << 10), (4096, 700, 4000, 2200 << 10)]):
        nid, lines, size = 1, [], 0
        while size < total:
            ln = rng.randint(lo, hi)
            lines.append({"id": nid, "len": ln})
            nid += 1
            size += ln
        steps = [{"a": "write", "lines": lines}, {"a": "wait", "lines": []}]
        out.append({"id": first_id + n + 10 + k, "level": "fb", "maxsize": ms, "steps": steps})
    out.append({"id": first_id + n, "level": "fb-unwritable", "maxsize": 1024,
                "steps": [{"a": "write", "lines": [{"id": 1, "len": 100}, {"id": 2, "len": 100}]}]})
    return out


def run(tier, lab):
    ck = lib.Check(PROP, tier, "model_checking")
    design(ck)
    g = lib.tlc("MC_RotateFile", timeout=300, constants={"Devs": "{}", "GenLen": "2"})
    lib.tlc_must_pass(g, "RotateFile generation (GenLen 2)")
    ck.add_tlc(g, "MC_RotateFile: all sequences of <= 2 steps over 117 batches (+ external remove/rename, reopen), exhaustive")
    n = 400 if tier == "quick" else 20000
    g2 = lib.tlc("MC_RotateFile", timeout=600, constants={"Devs": "{}", "GenLen": "6"}, simulate=max(1, n // 8), depth=8,
                 tlc_seed=lib.seed(), workers=8)
    lib.tlc_must_pass(g2, "RotateFile generation (simulate)")
    ck.add_tlc(g2, "MC_RotateFile: sequences of up to 6 steps (-simulate)")
    scs = []
    for s in g.scn + g2.scn:
        s = dict(s, id=len(scs), level="rf", maxsize=1024)
        s["has_ext"] = any(st["a"] in ("remove", "rename") for st in s["steps"])
        scs.append(s)
    rng = random.Random(lib.seed())
    scs += random_scenarios(rng, 300 if tier == "quick" else 5000, len(scs), [1024, 4096] if tier == "quick" else [1024, 4096, 1 << 20])
    nrf = len(scs)
    fbs = fb_scenarios(rng, 40 if tier == "quick" else 600, len(scs))
    results = lib.run_sharded(lab, "c07", scs, shards=min(lib.NCPU, 14))
    results += lib.run_sharded(lab, "c07", fbs, shards=2, extra_args=["-par", "64"], timeout=2400)
    byid = {r["id"]: r for r in results}
    drift = set()
    rotations = 0
    for sc in scs + fbs:
        res = byid.get(sc["id"])
        if res is None or res.get("error"):
            raise lib.Infra("scenario %s: %s" % (sc["id"], res and res.get("error")))
        judge(ck, sc, res, drift)
        if len(res.get("layout", {})) > 1:
            rotations += 1
    if drift:
        ck.notes.append("MODEL-DRIFT (file layout differs from RotateFile!Place although every predicate of the property holds): "
                        + "; ".join(sorted(drift)[:5]))
        print("MODEL-DRIFT C07: %d layouts differ from the specification's placement rule (not a verdict)" % len(drift))
    ck.cov.update({
        "traces_validated_against_impl": len(results), "rotatefile_scenarios": nrf, "filebackend_scenarios": len(fbs),
        "scenarios_with_a_rotation": rotations, "evaluations": len(results), "distinct_nontrivial": rotations,
        "rule": "scenario = sequence of write batches (line lengths around the rotation boundary) with external remove/rename and close+reopen of the channel on the same path; "
                "TLC exhaustive for <= 2 steps, -simulate to 6, seeded random for other max sizes; FileBackend bursts with "
                "real flush timers; non-trivial = at least one rotation happened on disk",
    })
    ck.sample({"steps": scs[3000 % len(scs)]["steps"], "spec_files": scs[3000 % len(scs)].get("files")})
    ck.sample(fbs[0])
    ck.assumptions += ["a line = one JSON object padded to the exact length; lines lost because an operator deleted the active "
                       "file are not counted as lost", "the 500 KiB / 1 s buffering is abstracted to arbitrary batching",
                       "verdicts are the property's predicates evaluated on the real files; the exact placement of lines is "
                       "compared with the specification only as drift information"]
    return ck.finish()


def replay(lab, path):
    rp = json.load(open(path))["replay"]
    sc = dict(rp["scenario"], id=0)
    extra = ["-par", "4"] if sc.get("level", "rf") != "rf" else None
    res = lib.run_sharded(lab, "c07", [sc], shards=1, extra_args=extra)[0]
    print(json.dumps(res, indent=1)[:3000])
    ck = lib.Check(PROP, "quick", "model_checking")
    ck.findings.entries = []
    if judge(ck, sc, res, set()):
        print("VIOLATION property=C07 replay=%s" % path)
        return 1
    return 0
