"""C01 — no client traffic to an emulated service can terminate the honeypot process.
Spec: ConnLife.tla (ProcessSurvives) + MC_Dialogue (shape generator)."""
import json, os
import lib, life, protocols as P

PROP = "C01"


def describe(sc):
    if sc.get("ssh"):
        return "ssh channel %s requests %s" % (sc["ssh"]["channel"], [(r["type"], r["payload"]) for r in sc["ssh"]["requests"]])
    sends = [bytes.fromhex(s["hex"])[:40] for s in sc.get("steps", []) if s["op"] in ("send", "udp")]
    return "%s: %s (%s)" % (sc["svc"], sends[:6], sc.get("ending"))


def race_part(ck, scs):
    """Unsynchronised access to a Go map by two handlers ends the process with a FATAL ERROR (no panic: nothing recovers it)
    once the two accesses really overlap - a window of nanoseconds that no exploration hits. Go's race detector reports the
    same pair of accesses whenever they are not ordered, overlapping or not: the exploration's scenarios (concurrent copies,
    datagram bursts) and a few complete TLS handshakes with different server names run once more against a lab built with
    -race; a reported race on a MAP in honeytrap's code is a violation, other races are counted in a note."""
    lab = lib.build_lab_race()
    if lab is None:
        ck.notes.append("race detector: the toolchain cannot build with -race here; part skipped")
        return
    prefix = os.path.join(lib.scratch(), "race-log")
    env = {"GORACE": "halt_on_error=0 exitcode=0 log_path=%s" % prefix}
    old = os.environ.get("GORACE")
    os.environ["GORACE"] = env["GORACE"]
    try:
        pool = [s for s in scs if s.get("ending") != "silent"]
        if len(pool) > 3000:
            # (the instrumented build is several times slower: the thorough tier's race part uses a seeded sample)
            import random
            pool = random.Random(lib.seed()).sample(pool, 3000)
        r = life.run_child(lab, pool, "race", 1500, 0, par=24)
        items = [{"id": i, "hello": {"vers": 771, "ciphers": [], "exts": [], "groups": [], "points": [], "sni": n}, "frag": [], "real": True}
                 for i, n in enumerate(["a.example", "b.example", "a.example", "c.example"])]
        lib.run_sharded(lab, "c13", items, shards=1, timeout=900, env=env)
    finally:
        if old is None:
            os.environ.pop("GORACE", None)
        else:
            os.environ["GORACE"] = old
    reports = lib.race_reports(prefix)
    seen = set()
    for is_map, frames, text in reports:
        if not is_map or not frames or frames[0] in seen:
            continue
        seen.add(frames[0])
        ck.disagree("race/map/%s" % frames[0][-60:], "two handlers access a map without synchronisation (the runtime ends the process with 'fatal error: concurrent map "
                    "read and map write' when they overlap): %s" % " <- ".join(frames), {"race_report": text[:3000]})
    other = {}
    for is_map, frames, text in reports:
        if not is_map and frames:
            other[frames[0]] = other.get(frames[0], 0) + 1
    ck.cov["race_detector"] = {"reports": len(reports), "on_maps": len(seen), "other_sites": other, "child_report": r.get("report") is not None}
    if other:
        ck.notes.append("race detector: %d reports on plain variables (not fatal by themselves, not counted): %s" % (sum(other.values()), sorted(other)[:6]))


def run(tier, lab):
    ck = lib.Check(PROP, tier, "exploration")
    r = lib.tlc("MC_ConnLife", timeout=300, constants={"Devs": "{}"}, want_scn=False)
    lib.tlc_must_pass(r, "ConnLife strict (ProcessSurvives, ReleasedWhenQuiescent, ReturnsAfterPeerGone)")
    ck.add_tlc(r, "ConnLife: 2 connections, every interleaving of open/input/panic/peer-gone/idle-expire/return, with liveness")
    rd = lib.tlc("MC_ConnLife", timeout=300, constants={"Devs": '{"unrecovered_panic"}'}, want_scn=False)
    if rd.violated != "ProcessSurvives":
        raise lib.Infra("deviation unrecovered_panic does not violate ProcessSurvives in the model")
    scs = life.build(ck, tier, lib.seed())
    # the run goes on until the server's own timers (30 s: idle timeout, passive-mode accept) have run out: what a client
    # sent may end the process later than it left
    deaths, reports = life.explore(lab, scs, "c01", settle_ms=1500, idle_ms=32000)
    for sc, banner, site in deaths:
        svc = sc["svc"]
        ck.disagree("%s/process-died/%s" % (svc, site), "%s killed the process: %s" % (describe(sc), banner), {"scenario": sc})
    rep = reports[-1] if reports else None
    if rep is None and not deaths:
        raise lib.Infra("no report from the life child")
    if rep is not None:
        if not rep["probe_ok"] or not rep.get("probe_after_idle_ok", True):
            ck.disagree("server/stopped-serving", "after the exploration a fresh echo connection is no longer served (%s)" % (
                "at once" if not rep["probe_ok"] else "32 s later"), {"scenarios": len(scs)})
        growth = rep["idle2"]["heap_in_use"] - rep["idle1"]["heap_in_use"]
        if growth > 16 << 20:
            ck.disagree("server/memory-grows-while-idle", "heap in use grew by %d bytes within 1 s without any client input" % growth,
                        {"idle1": rep["idle1"], "idle2": rep["idle2"]})
        cpu = rep["idle2"]["cpu_ms"] - rep["idle1"]["cpu_ms"]
        ck.cov["idle_cpu_ms_per_s"] = cpu
        ck.cov["recovered_panics_reported"] = rep["recovered_panics"]
        ck.cov["idle_heap_growth_bytes"] = growth
    race_part(ck, scs)
    per = {}
    for s in scs:
        per[s["svc"]] = per.get(s["svc"], 0) + 1
    ck.cov.update({"evaluations": len(scs), "distinct_nontrivial": len({json.dumps(s["steps"]) + json.dumps(s.get("ssh")) for s in scs}),
                   "scenarios_per_service": per, "process_deaths": len(deaths),
                   "rule": "scenario = (service, dialogue shape from MC_Dialogue: canonical prefix + tokens / truncations / repeats / raw bytes, "
                           "ending, segmentation whole/split/dribble, K = 1..3 concurrent copies), plus ssh channel requests with malformed "
                           "payloads through a real ssh client; all 24 director-less services in one real server; distinct by byte script"})
    ck.sample({"svc": scs[3]["svc"], "steps": scs[3]["steps"][:5]})
    ck.sample(describe(scs[-1]))
    ck.assumptions += ["a dying child is attributed to the scenarios in flight, each re-run alone in a fresh child to confirm",
                       "memory growth is a thresholded measurement (16 MiB between two idle samples 1 s apart after forced GC)",
                       "recovered panics (fatal-severity events) are allowed by the property and only counted"]
    return ck.finish()


def replay(lab, path):
    rp = json.load(open(path))["replay"]
    if rp.get("race_report"):
        # the race detector's finding: the same part once more (same scenarios, same seed)
        ck = lib.Check(PROP, "quick", "exploration")
        ck.findings.entries = []
        race_part(ck, life.build(ck, "quick", lib.seed()))
        for sig, p, what in ck.violations:
            print(sig, what[:300])
        if ck.violations:
            print("VIOLATION property=C01 replay=%s" % path)
            return 1
        return 0
    sc = rp.get("scenario")
    if not sc or sc.get("id", 0) < 0:
        print("set-level finding: rerun the check")
        return 2
    one = life.run_child(lab, [sc], "replay", 1500, 0, par=1)
    if one["report"] is None or one["rc"] != 0:
        print(life.death_banner(one["stderr"]))
        print("VIOLATION property=C01 replay=%s" % path)
        return 1
    print("process survived; probe_ok=%s" % one["report"]["probe_ok"])
    return 0
