"""C16 — the agent tunnel relays each remote connection's bytes in order, to it alone.
Spec: AgentMux.tla, AgentCodec.tla (+ MC_AgentMux, MC_AgentCodec)."""
import json, os, random, socket
import lib

PROP = "C16"


def chunk(k, n, size, quit):
    b = bytearray((ord('a') + (k * 7 + n * 13 + i) % 26) for i in range(size))
    if size > 0:
        b[0] = ord('Q') if quit else ord('A') + k
    return bytes(b)


def free_port():
    s = socket.socket()
    s.bind(("127.0.0.1", 0))
    p = s.getsockname()[1]
    s.close()
    return p


def codec_part(ck, lab):
    r = lib.tlc("MC_AgentCodec", timeout=200, workers=4)
    lib.tlc_must_pass(r, "AgentCodec (RoundTrip)")
    ck.add_tlc(r, "AgentCodec: all message types x tcp/udp x IPv4/IPv6 addresses x ports {0,1,80,65535} x 13 payload length classes")
    inp = os.path.join(lib.scratch(), "c16-codec.ndjson")
    out = os.path.join(lib.scratch(), "c16-codec.out")
    lib.write_ndjson(inp, r.scn)
    rc, so, se = lib.run_lab(lab, ["c16", "-codec", "-in", inp, "-out", out], timeout=600)
    if rc != 0:
        raise lib.Infra("lab c16 -codec rc=%d %s" % (rc, se[-1000:]))
    res = lib.read_ndjson(out)[0]
    seen = set()
    for b in res["bad"] or []:
        m = b["msg"]
        sig = "agent-codec/%s" % m["t"]
        if sig in seen:
            continue
        seen.add(sig)
        ck.disagree(sig, "message %s does not round-trip: %s" % (json.dumps(m), b["what"]), {"codec": m})
    return res["messages"]


def expected(sc, spec_lists):
    out = {}
    sizes = {m["n"]: (sc["size"][i], m["m"] == "quit") for i, m in enumerate(sc["msgs"]) if m["m"] in ("data", "quit")}
    for k, chunks in enumerate(spec_lists, 1):
        out[str(k)] = b"".join(chunk(c["k"], c["n"], sizes[c["n"]][0], sizes[c["n"]][1]) for c in chunks).hex()
    return out


def judge(ck, sc, res):
    msgs = [(m["m"], m["k"], sc["size"][i]) + ((sc["at"][i],) if sc.get("at") and sc["at"][i] else ()) for i, m in enumerate(sc["msgs"])]
    rp = {"at": sc.get("at"), "msgs": sc["msgs"], "size": sc["size"], "delivered": sc["delivered"], "echoed": sc["echoed"], "observed": res,
          "pipelined": sc.get("pipelined", False), "ends": sc.get("ends")}
    if res.get("error"):
        raise lib.Infra("scenario %s: %s" % (sc["id"], res["error"]))
    if res.get("stray"):
        ck.disagree("agent/frames-for-unknown-connection", "messages %s: agent received %s" % (msgs, res["stray"][:3]), rp)
        return
    exp_d, exp_e = expected(sc, sc["delivered"]), expected(sc, sc["echoed"])
    for k in exp_d:
        got_d = res["delivered"].get(k, "")
        got_e = res["echoed"].get(k, "")
        if got_d != exp_d[k]:
            what = "service of connection %s read %d bytes, specification %d" % (k, len(got_d) // 2, len(exp_d[k]) // 2)
            if len(got_d) == len(exp_d[k]):
                d = next(i for i in range(0, len(got_d), 2) if got_d[i:i + 2] != exp_d[k][i:i + 2]) // 2
                what = "service of connection %s read the right number of bytes but they differ from offset %d on" % (k, d)
                sig = "agent/delivered-bytes-corrupted"
            elif exp_d[k].startswith(got_d) or not got_d:
                sig = "agent/delivered-bytes-missing"
            else:
                sig = "agent/delivered-bytes-differ"
            ck.disagree(sig, "messages %s: %s" % (msgs, what), rp)
            return
        if sc["msgs"][-1]["m"] == "disconnect" and exp_e[k].startswith(got_e):
            pass        # what the service had written but the agent had not read when it went away is lost by nature
        elif got_e != exp_e[k]:
            ck.disagree("agent/written-bytes-differ", "messages %s: agent received %d bytes tagged with connection %s, specification %d" % (
                msgs, len(got_e) // 2, k, len(exp_e[k]) // 2), rp)
            return
    # an end-of-stream message or the agent going away ends exactly the affected connections
    ends = sc.get("ends")
    if ends is not None:
        quitters = {str(m["k"]) for m in sc["msgs"] if m["m"] == "quit"}          # these services close by themselves
        for k, must in enumerate(ends, 1):
            k = str(k)
            if k in quitters or k not in (res.get("done") or {}):
                continue
            if must and not res["done"][k]:
                ck.disagree("agent/connection-not-ended", "messages %s: the service of connection %s never saw the end of its stream "
                            "(2 s after the %s)" % (msgs, k, "agent went away" if sc["msgs"][-1]["m"] == "disconnect" else "end-of-stream message"), rp)
                return
            if not must and res["done"][k]:
                ck.disagree("agent/connection-ended-without-cause", "messages %s: the service of connection %s saw the end of its stream although "
                            "neither an end-of-stream message for it nor a disconnect was sent" % (msgs, k), rp)
                return


def unbounded(ck, tier):
    """NoStall for ANY number of data messages: AgentConnInd.tla (counters instead of sequences) as an inductive invariant,
    discharged by Apalache in seconds. A tool failure is a note, never a verdict; a refuted obligation of the repaired protocol
    means the specification's argument is broken (exit 2); the code as found (capacity 0) must be refuted."""
    import apalache
    for what, init, inv, length in (("Init => IndInv", "InitOne", "IndInv", 0), ("IndInv /\\ Next => IndInv'", "IndInitOne", "IndInv", 1),
                                    ("IndInv => NoStall", "IndInitOne", "NoStall", 0)):
        outcome, detail, wall = apalache.check("AgentConnInd", init, inv, length, timeout=300)
        if outcome == "refuted":
            raise lib.Infra("Apalache refutes %s in AgentConnInd.tla:\n%s" % (what, detail))
        ck.notes.append("Apalache (any number of messages): %s: %s in %.0f s" % (what, "proved" if outcome == "ok" else "NOT ESTABLISHED (tool unavailable or timed out)", wall))
    outcome, detail, wall = apalache.check("AgentConnInd", "IndInitZero", "IndInv", 1, timeout=300)
    if outcome == "ok":
        raise lib.Infra("AgentConnInd: the inductive step also holds for an unbuffered notification channel - the invariant is vacuous")
    ck.notes.append("Apalache: with an unbuffered notification channel (the code as found) the inductive step is %s" % (
        "refuted, as it must be" if outcome == "refuted" else "not checked (tool unavailable)"))
    if tier == "thorough":
        outcome, detail, wall = apalache.tlaps("AgentConnProof", timeout=600)
        if outcome == "failed":
            raise lib.Infra("TLAPS cannot prove AgentConnProof.tla:\n" + detail)
        ck.notes.append("TLAPS: Spec => [](NoStall /\\ Conserved) in AgentConnProof.tla: %s" % (
            "all %s obligations proved in %.0f s" % (detail, wall) if outcome == "ok" else "NOT ESTABLISHED (tool unavailable)"))


def run(tier, lab):
    ck = lib.Check(PROP, tier, "model_checking")
    rng = random.Random(lib.seed())
    ncodec = codec_part(ck, lab)
    r1 = lib.tlc("MC_AgentMux", timeout=300, constants={"Devs": "{}", "NKeys": "2", "MaxMsgs": "5"})
    lib.tlc_must_pass(r1, "AgentMux (InOrderExactlyOnce, Isolation, NoLossWhileOpen)")
    ck.add_tlc(r1, "AgentMux: all message sequences of <= 5 messages over 2 virtual connections (hello/data/quit/eof, re-announce)")
    rd = lib.tlc("MC_AgentMux", timeout=300, constants={"Devs": '{"stale_entry_shadows"}', "NKeys": "2", "MaxMsgs": "5"}, want_scn=False)
    if rd.violated != "Inv":
        raise lib.Infra("deviation stale_entry_shadows does not violate NoLossWhileOpen in the model")
    rt = lib.tlc("MC_AgentMux", timeout=300, constants={"Devs": '{"teardown_skips"}', "NKeys": "2", "MaxMsgs": "5"}, want_scn=False)
    if rt.violated != "Inv":
        raise lib.Infra("deviation teardown_skips does not violate AllEndedWhenGone in the model")
    r2 = lib.tlc("MC_AgentMux", timeout=300, constants={"Devs": "{}", "NKeys": "4", "MaxMsgs": "10"}, simulate=30 if tier == "quick" else 400,
                 depth=13, tlc_seed=lib.seed(), workers=8)
    lib.tlc_must_pass(r2, "AgentMux simulate")
    ck.add_tlc(r2, "AgentMux: sequences of <= 10 messages over 4 connections, the agent going away included (-simulate)")
    uniq = {json.dumps(s["msgs"]): s for s in r1.scn + r2.scn}
    pool = list(uniq.values())
    pick = pool if tier == "thorough" else rng.sample(pool, min(300, len(pool)))
    scs = []
    for s in pick:
        size = [rng.choice([1, 8, 8, 1000, 4000]) if m["m"] in ("data", "quit") else 0 for m in s["msgs"]]
        scs.append({"id": len(scs), "msgs": s["msgs"], "size": size, "delivered": s["delivered"], "echoed": s["echoed"], "ends": s.get("ends")})
    # the agent goes away with 1..8 connections open (some of them already ended by an end-of-stream message)
    for nk in range(1, 9):
        for eofs in ([], [2], [1, nk]):
            msgs = [{"m": "hello", "k": k, "n": 0} for k in range(1, nk + 1)]
            gens = [[] for _ in range(nk)]
            for k in range(1, nk + 1):
                msgs.append({"m": "data", "k": k, "n": len(msgs) + 1})
                gens[k - 1].append({"k": k, "n": msgs[-1]["n"]})
            msgs += [{"m": "eof", "k": k, "n": 0} for k in sorted(set(eofs)) if k <= nk]
            msgs.append({"m": "disconnect", "k": 0, "n": 0})
            scs.append({"id": len(scs), "msgs": msgs, "size": [8 if m["m"] == "data" else 0 for m in msgs], "delivered": gens, "echoed": gens,
                        "ends": [True] * nk})
    # large payloads around the buffered reader's size (one connection, one data message)
    for big in (4075, 4076, 4077, 4096, 5000, 20000, 65000):
        msgs = [{"m": "hello", "k": 1, "n": 0}, {"m": "data", "k": 1, "n": 2}]
        scs.append({"id": len(scs), "msgs": msgs, "size": [0, big], "delivered": [[{"k": 1, "n": 2}]], "echoed": [[{"k": 1, "n": 2}]]})
    # the same behaviours pipelined (data messages back to back, no waiting for the echo): sequences without a chunk that
    # makes the service close (there the outcome of a race is not fixed by the specification)
    for s in list(scs):
        if not any(m["m"] == "quit" for m in s["msgs"]) and sum(1 for m in s["msgs"] if m["m"] == "data") >= 2:
            scs.append(dict(s, id=len(scs), pipelined=True))
    # and long pipelined streams: 1..4 connections x up to 20 data messages each, interleaved
    for nk, per in ((1, 20), (2, 12), (4, 8)):
        msgs = [{"m": "hello", "k": k, "n": 0} for k in range(1, nk + 1)]
        order = [k for k in range(1, nk + 1) for _ in range(per)]
        rng.shuffle(order)
        gens = [[] for _ in range(nk)]
        for n, k in enumerate(order, 1):          # chunk numbers are unique within a scenario
            msgs.append({"m": "data", "k": k, "n": n})
            gens[k - 1].append({"k": k, "n": n})
        scs.append({"id": len(scs), "msgs": msgs, "size": [0] * nk + [rng.choice([700, 1500, 3000, 4000]) for _ in order],
                    "delivered": gens, "echoed": gens, "pipelined": True})
    # a slow service: data and the end of the stream arrive while it is not reading (a chunk of 333 bytes makes the echo service
    # pause 40 ms): everything sent before the end of the stream still has to reach it
    for nk in (1, 2, 3):
        for tail in ([8], [8, 4000], [1, 1, 1]):
            msgs = [{"m": "hello", "k": k, "n": 0} for k in range(1, nk + 1)]
            size = [0] * nk
            gens = [[] for _ in range(nk)]
            n = 0
            for k in range(1, nk + 1):
                for sz in [333] + tail:
                    n += 1
                    msgs.append({"m": "data", "k": k, "n": n})
                    size.append(sz)
                    gens[k - 1].append({"k": k, "n": n})
                msgs.append({"m": "eof", "k": k, "n": 0})
                size.append(0)
            scs.append({"id": len(scs), "msgs": msgs, "size": size, "delivered": gens, "echoed": gens, "pipelined": True})
    # the reader/receiver protocol of one connection (AgentConn.tla): every data message and the end of the stream arrive either
    # while the service's reader waits or while it is in the gap between releasing its lock and starting to wait (held there
    # through hook agent.VerifReadGap) - schedules enumerated by TLC
    ra = lib.tlc("MC_AgentConn", timeout=200, constants={"MCCap": "1", "MCRecheck": "TRUE", "MCChunks": "3"})
    lib.tlc_must_pass(ra, "AgentConn (NoStall, InOrder, NoLoss, Delivered under fairness)")
    ck.add_tlc(ra, "AgentConn: reader x receiver x end of stream at lock granularity, 3 data messages, safety + liveness")
    rb = lib.tlc("MC_AgentConn", timeout=200, constants={"MCCap": "0", "MCRecheck": "FALSE", "MCChunks": "3"}, want_scn=False)
    if rb.violated != "NoStall":
        raise lib.Infra("an unbuffered notification channel does not violate NoStall in AgentConn (got %s)" % rb.violated)
    unbounded(ck, tier)
    for sched in {json.dumps(x["arrivals"]): x["arrivals"] for x in ra.scn}.values():
        msgs, at, gens = [{"m": "hello", "k": 1, "n": 0}], [""], []
        for a in sched:
            if a["m"] == "data":
                msgs.append({"m": "data", "k": 1, "n": len(msgs) + 1})
                gens.append({"k": 1, "n": msgs[-1]["n"]})
            else:
                msgs.append({"m": "eof", "k": 1, "n": 0})
            at.append(a["at"])
        scs.append({"id": len(scs), "msgs": msgs, "size": [8 if m["m"] == "data" else 0 for m in msgs], "at": at,
                    "delivered": [gens], "echoed": [gens], "ends": [True]})
    port = free_port()
    slim = [{"id": s["id"], "msgs": s["msgs"], "size": s["size"], "pipelined": s.get("pipelined", False), "at": s.get("at", [])} for s in scs]
    results = {r["id"]: r for r in lib.run_sharded(lab, "c16", slim, shards=1, extra_args=["-port", str(port), "-par", "12"], timeout=2400)}
    for sc in scs:
        res = results.get(sc["id"])
        if res is None:
            raise lib.Infra("no result for scenario %d" % sc["id"])
        judge(ck, sc, res)
    ck.cov.update({"traces_validated_against_impl": len(scs) + ncodec, "tunnel_scenarios": len(scs), "codec_messages": ncodec,
                   "evaluations": len(scs) + ncodec, "distinct_nontrivial": len(scs),
                   "rule": "scenario = agent message sequence generated by TLC (exhaustive to 5 messages over 2 connections, sampled in "
                           "quick; -simulate to 9 messages over 3) with payload sizes 1..4000 per data message, plus single large payloads "
                           "4075..65000; codec: every message record of the AgentCodec lattice"})
    ck.sample({"msgs": scs[7]["msgs"], "size": scs[7]["size"], "spec_delivered": scs[7]["delivered"]})
    ck.assumptions += ["the service behind every virtual connection is an echo service registered by the harness (a chunk starting with 'Q' "
                       "makes it close its side); the agent side is played with libdisco's client and honeytrap's exported message types",
                       "messages are sent lock-step (the echo of a chunk is awaited up to 400 ms before the next message) and, for "
                       "sequences in which the service never closes first, also pipelined (back to back)"]
    return ck.finish()


def replay(lab, path):
    rp = json.load(open(path))["replay"]
    ck = lib.Check(PROP, "quick", "model_checking")
    ck.findings.entries = []
    if "codec" in rp:
        codec_part(ck, lab)
    else:
        sc = {"id": 0, "msgs": rp["msgs"], "size": rp["size"], "delivered": rp["delivered"], "echoed": rp["echoed"],
              "pipelined": rp.get("pipelined", False), "ends": rp.get("ends"), "at": rp.get("at") or []}
        res = lib.run_sharded(lab, "c16", [{"id": 0, "msgs": sc["msgs"], "size": sc["size"], "pipelined": sc["pipelined"], "at": sc["at"]}], shards=1,
                              extra_args=["-port", str(free_port()), "-par", "1"], timeout=600)[0]
        print(json.dumps(res)[:1500])
        judge(ck, sc, res)
    for sig, p, what in ck.violations:
        print(sig, what[:400])
    if ck.violations:
        print("VIOLATION property=C16 replay=%s" % path)
        return 1
    return 0
