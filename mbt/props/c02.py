"""C02 — no frame on the wire can terminate the raw (canary) listener.
Spec: CanaryParse.tla (+ MC_CanaryParse).  The frame-field lattice TLC enumerates is built into bytes
and pushed through the real Start loop of a real Canary (hook VerifNew); after every frame a UDP probe
must still produce its event; the child process dying is attributed to the frame in flight."""
import json, os, re, subprocess
import lib

PROP = "C02"


def classify_death(stderr):
    m = re.search(r'(panic: [^\n]*|fatal error: [^\n]*)', stderr)
    where = re.search(r'listener/canary/([\w/]+\.go):(\d+)', stderr)
    what = m.group(1) if m else "process died without a Go banner"
    site = "%s" % (where.group(1)) if where else "unknown"
    return site, what[:200]


def run_child(lab, args, progress):
    rc, so, se = lib.run_lab(lab, ["c02", "-progress", progress] + args, timeout=1800)
    last, noprobe, done = None, None, False
    if os.path.exists(progress):
        for ln in open(progress):
            p = ln.split()
            if p and p[0] == "sent":
                last = int(p[1])
            elif p and p[0] == "noprobe":
                noprobe = int(p[1])
            elif p and p[0] == "done":
                done = True
    return rc, se, last, noprobe, done


def sweep(ck, lab, records, extra_args, label, max_deaths=400):
    """feed records (and the generated tail: random frames / flood) to child listeners; restart after
    every death, skipping the frame that was in flight"""
    inp = os.path.join(lib.scratch(), "c02-%s.ndjson" % label)
    lib.write_ndjson(inp, records)
    byid = {r["id"]: r for r in records}
    start, deaths, nframes = 0, 0, 0
    while True:
        progress = os.path.join(lib.scratch(), "c02-%s.progress" % label)
        rc, se, last, noprobe, done = run_child(lab, ["-in", inp, "-from", str(start)] + extra_args, progress)
        if done and rc == 0:
            return deaths
        if last is None:
            raise lib.Infra("c02 child failed before any frame (rc=%s): %s" % (rc, se[-1500:]))
        culprit = last
        rec = byid.get(culprit, {"id": culprit, "generated": True})
        if culprit >= 3000000:
            rec = {"id": culprit, "history": "one peer has knocked on several hundred distinct ports (every probe of this run), then the wire is "
                                             "silent for the knock detector's quiet period of 5 s"}
        rp = {"label": label, "record": rec, "args": extra_args}
        if noprobe is not None and ("panic" not in se and "fatal error" not in se):
            ck.disagree("canary/stopped-processing", "after frame %s the listener no longer answers a well-formed probe: %s" % (
                json.dumps(rec)[:300], se[-300:]), rp)
        else:
            site, what = classify_death(se)
            ck.disagree("canary/%s/process-died" % site, "frame %s killed the process: %s" % (json.dumps(rec)[:400], what), rp)
        deaths += 1
        if deaths >= max_deaths:
            ck.notes.append("sweep %s stopped after %d deaths" % (label, deaths))
            return deaths
        start = culprit + 1


def run(tier, lab):
    ck = lib.Check(PROP, tier, "exploration")
    records = []
    for part in ("ip", "tcp", "opt", "udp"):
        r = lib.tlc("MC_CanaryParse", timeout=300, constants={"Part": '"%s"' % part}, workers=4)
        lib.tlc_must_pass(r, "CanaryParse %s lattice (Alive, WithinCapacity)" % part)
        ck.add_tlc(r, "CanaryParse: %s part of the frame-field lattice" % part)
        for s in r.scn:
            records.append({"id": len(records), "f": s["f"], "class": s["class"]})
    nrandom = 2000 if tier == "quick" else 300000
    deaths = sweep(ck, lab, records, ["-random", str(nrandom), "-seed", str(lib.seed()), "-quiet"], "lattice")
    # floods of connection attempts: table pre-filled up to the boundary, then real SYNs
    if tier == "quick":
        deaths += sweep(ck, lab, [], ["-fill", str(65535 - 150), "-flood", "400"], "flood-prefilled", max_deaths=3)
    else:
        deaths += sweep(ck, lab, [], ["-flood", "70000"], "flood-real", max_deaths=3)
        deaths += sweep(ck, lab, [], ["-fill", str(65535 - 150), "-flood", "400"], "flood-prefilled", max_deaths=3)
    classes = {}
    for r in records:
        classes[r["class"]] = classes.get(r["class"], 0) + 1
    ck.cov.update({
        "evaluations": len(records) + nrandom + (400 if tier == "quick" else 70400),
        "distinct_nontrivial": len(records),
        "lattice_frames": len(records), "random_frames": nrandom, "frames_by_specified_class": classes,
        "process_deaths_observed": deaths,
        "rule": "one frame per record of the CanaryParse field lattice (distinct by construction), seeded random-byte frames of "
                "14..1600 bytes (half of them steered past the Ethernet/IPv4 type checks), floods of distinct SYNs up to and beyond "
                "the connection-table capacity; after EVERY frame a well-formed UDP probe must yield its event",
    })
    ck.sample(records[100])
    ck.sample(records[9000])
    ck.assumptions += ["frames reach the listener through an AF_UNIX socketpair instead of AF_PACKET (hook VerifNew); everything "
                       "from Recvfrom on is the regular Start loop", "ARP frames are ignored in every reachable configuration",
                       "process death is observed as the child's exit; the frame in flight is the last one handed over"]
    return ck.finish()


def replay(lab, path):
    rp = json.load(open(path))["replay"]
    ck = lib.Check(PROP, "quick", "exploration")
    ck.findings.entries = []
    rec = rp["record"]
    if rec.get("history"):
        # the history needs the knocks of a run before the silence: 400 random frames, each followed by a probe to another port
        deaths = sweep(ck, lab, [], ["-random", "400", "-seed", "1", "-quiet"], "replay", max_deaths=1)
    elif rec.get("generated"):
        args = [a for a in rp["args"]]
        deaths = sweep(ck, lab, [], args + ["-from", str(rec["id"])], "replay", max_deaths=1)
    else:
        deaths = sweep(ck, lab, [dict(rec, id=0)], [], "replay", max_deaths=1)
    for sig, p, what in ck.violations:
        print(sig, what)
    if ck.violations:
        print("VIOLATION property=C02 replay=%s" % path)
        return 1
    return 0
