#!/usr/bin/env python3
"""Writes /verif/MANIFEST.json from the table below (single place to edit)."""
import json, os

VERIF = os.path.dirname(os.path.dirname(os.path.abspath(__file__)))

ALL = ["C%02d" % i for i in range(1, 21)]

# property -> (level category, level text, level note, technique, design ref)
CHECKS = {
    "C10": ("model_checking",
            "Limiter.tla is checked exhaustively by TLC on small constants (token buckets per service and source ip, with "
            "time) for AtMostBurstPerWindow / SourcesIndependent / RepliesPaidFor; TLC-generated request mixes and seeded "
            "bursts of up to 200 datagrams are replayed through the real server (real dispatch, Handle, Limiter) and every "
            "observed behaviour is validated against Limiter_Trace by TLC; verdicts come from the property-level predicates "
            "(more than 4 replies per source and burst; replies to one source depending on other sources' requests).",
            "Real time does not advance during a scenario (milliseconds vs a 10 minute interval), so refill is checked on "
            "the model only; byte templates per request kind are trusted concretisations.",
            "TLA+ spec + TLC (exhaustive + simulate generation), replay into real server, TLC trace validation",
            "DESIGN.md §3 C10"),
    "C17": ("model_checking",
            "Decoder.tla is checked exhaustively by TLC (InBounds, NoProgressOnError, ErrorSticky, AdvanceExact) over 7 byte "
            "patterns x lengths 0..6 and size arguments -3..8; TLC prints every transition of the reachable graph and each "
            "becomes one implementation test on the real services/decoder (return value, cursor, error flag, no panic); the "
            "table is then the oracle for all operation sequences up to length 3 (quick) / 4 (thorough) and seeded long ones. "
            "Ipp.tla states the reply (version, request id, status, charset, language echoed) and the Print-Job event fields (printer URI, "
            "user, job name, document) of a request record; requests drawn by TLC from a structural generator (5 operations, 1..2 groups, "
            "0..7 attributes of every supported value tag with 1..3 values, documents to 64 KiB) are encoded by the harness's own RFC 8010 "
            "encoder, POSTed to the real ipp service, and the decoded reply and the captured event are compared with the specification.",
            "The decoder is assumed to have no state beyond (buffer, cursor, error flag) - which the exhaustive sequences "
            "check; values are compared through fmt of the Go results.",
            "TLA+ spec + TLC exhaustive, one implementation test per model transition, model table as oracle for exhaustive sequences",
            "DESIGN.md §3 C17"),
    "C08": ("model_checking",
            "Dispatch.tla models the port table, findService (lookup, one peek, scan in configured order) and the service's reads; "
            "TLC checks FirstInOrder (operational scan = the property's declarative rule), StreamIntact and NobodyIfNone over one "
            "port entry x all 206 service lists (0..4 of 5 stub services with/without prefix detectors) x tcp/udp x 34 connection "
            "shapes (first segment 1, 2, all bytes; 1 KiB boundary) exhaustively and over 3-entry tables by simulation; every "
            "generated configuration is wired by the real server.Run and every connection replayed through the real accept loop, "
            "handle and findService; chosen stub and bytes read are compared with the specification. Delivery.tla models the "
            "listener side (kernel queue, receive buffers, connections aliasing them; NoAliasing, StreamIntact, EveryoneServed; the "
            "shared-receive-buffer deviation must violate them); a sample of the configurations (all in thorough) is also served by "
            "honeytrap's own socket listener on loopback, the datagrams delivered according to TLC's delivery schedules (groups sent "
            "back to back to services that start reading late).",
            "Detector input is the client's first segment; clients that send nothing are not explored; stub services stand in "
            "for real ones (routing does not depend on the service implementation); the real listener cannot be stepped, a schedule is "
            "realised by timing (12 ms late reads).",
            "TLA+ spec + TLC exhaustive/simulate generation, replay into real server.Run/findService",
            "DESIGN.md §3 C08"),
    "C19": ("model_checking",
            "Ports.tla states the parser (structural well-formedness of a port string), the [[port]] loop of Run (ports ++ port, "
            "unknown service names skipped, first compatible entry wins) and which service a connection reaches; TLC checks "
            "ListenedExactly and ReachUnique for every single-entry configuration over 21 port strings (incl. all malformed shapes "
            "of the property) x port/ports keys x 10 service lists exhaustively and for sampled 4-entry configurations; every "
            "configuration is wired by the real server.Run with a recording listener (AddAddress calls) and probed with real "
            "connections to 11 concrete addresses; server.ToAddr over all port numbers -5..65540 is validated by Ports_Trace.",
            "IP literals only (no DNS offline); 0.0.0.0 excluded; listen order not compared; the structural description of each "
            "port string in MC_Ports (slashes, proto, host, hasPort, num) is trusted to describe its text.",
            "TLA+ spec + TLC exhaustive/simulate generation, replay into real server.Run, TLC trace validation of the parser",
            "DESIGN.md §3 C19"),
    "C06": ("model_checking",
            "Bus.tla models the bus fan-out, the filter/token chain and the wiring loop of Run (one subscription per filter and "
            "listed channel occurrence; absent/empty expression list = no filter; any-of unanchored regex on category AND on "
            "service; missing/non-string field = empty string); TLC checks ExactlyAdmitted, OrderPreserved and ChannelIndependence "
            "for every configuration with 0..1 filter (900) exhaustively and sampled 2- and 4-filter configurations, each against the "
            "full 8x8 alphabet of (category, service) values; every configuration is rendered as TOML, wired by the real server.Run "
            "and fed the event stream through the real bus; per-channel ordered captures and tokens are compared. Whole-server part: "
            "Honeytrap.tla composes DispatchRule (routing) and Bus (fan-out) with ExactlyAdmitted, OrderPreserved, Attributed, "
            "SilentIfUnrouted and OneFatalPerPanic; filter configurations drawn by TLC are wired into the real server with REAL services "
            "(http and telnet on a shared port, ftp, redis, a stub that panics on demand), two capture channels, a catch-all channel and "
            "the real file channel; real clients connect one at a time, the recorded whole-server trace (accepts, events with the "
            "positions at which the same event object reached every capture channel, the recovered panic's fatal event) is validated by "
            "TLC against Honeytrap_Trace.tla, and the file channel's log must hold exactly the events TLC says it holds.",
            "Regex alphabet: literal, ^prefix, ^full$, alternation, empty; Bus!Match is their meaning; in the bus part capture channels "
            "stand in for real channels; in the whole-server part connections are sequential (bus order = catch-all order).",
            "TLA+ spec + TLC exhaustive/simulate generation, replay into real server.Run + bus",
            "DESIGN.md §3 C06"),
    "C07": ("model_checking",
            "RotateFile.tla models Send/Flush (any batching)/placement with rotation to a name free on disk/clock ticks/external remove and "
            "rename/Reopen (the channel closed and opened again on the same path, a full file rotated on open); TLC checks AllKept, SizeOK, NamesDistinct, NoOverwrite and the liveness EventuallyFlushed on the strict model "
            "and requires the two transcribed deviations (and the names-from-instance-memory regression) to violate them; TLC enumerates all sequences of <= 2 steps over 117 batches "
            "of boundary lengths (14k scenarios) and samples longer ones; each is replayed on the real fschannel.OpenRotateFile/Write "
            "(several rotations per second happen naturally) and the property's predicates are evaluated on the files on disk after "
            "every step; bursts through the real FileBackend (Send, writer goroutine, 1 s flush; more than its 500 KiB buffer within one "
            "flush interval at maximum sizes 1024 and 4096 as well as 1 and 4 MiB) incl. an unopenable destination under a watchdog.",
            "Line = JSON object padded to an exact length; operator-deleted lines are not counted as lost; verdicts are the "
            "property's predicates on real files, the model's exact placement is compared only as drift information.",
            "TLA+ spec + TLC (safety + liveness, deviations as model regressions), exhaustive/simulated scenario replay on the real file channel",
            "DESIGN.md §3 C07"),
    "C05": ("model_checking",
            "Event.tla models the event store and its options (Custom, Payload with a TLA+ hex function, Source/DestinationAddr for "
            "tcp/udp/other addresses, MergeFrom keeps, CopyFrom overwrites); TLC checks MergeKeeps, CopyOverwrites and PayloadFidelity "
            "as action properties over every reachable store and prints every (store, option) transition, each replayed as one "
            "implementation test on the real event package (ToMap, raw payload, json.Marshal key set); event.Payload over all 65,793 "
            "byte strings of length <= 2, seeded strings up to 64 KiB and every address kind is validated by TLC against Event_Trace.",
            "The raw 'payload' string is compared by the harness (not representable in TLA+ for arbitrary bytes); JSON "
            "serialisability of service-emitted events is additionally observed by the capture channel in the service explorations.",
            "TLA+ spec + TLC, one implementation test per model transition, TLC trace validation over flat input spaces",
            "DESIGN.md §3 C05"),
    "C11": ("model_checking",
            "FtpFs.tla models lexical path resolution (relative to the working directory, '.', '', '..' clamped at the root), "
            "ChangeDir and the locations touched by driver operations; TLC checks Contained and CwdRooted and prints every transition "
            "(15 working directories x 7,812 paths of <= 5 components over {a, b, .., ., ''}, absolute and relative = 117k); each is "
            "one implementation test on the real filesystem.Htfs (RealPath, ChangeDir, Cwd) over a real tree with look-alike "
            "directories outside the root; an escape is a violation, a different in-root resolution is reported as drift. Level 2: "
            "FtpSession.tla models a logged-in session (tree of directories and files, working directory, RNFR/RNTO, APPE+STOR, one action "
            "per command handler; Contained, CwdInside, TreeClosed, NoClash; exhaustive for every sequence of <= 2 (3) commands over short "
            "paths, the unclamped-dot-dot regression must violate Contained); simulated command sequences (6-8 commands, paths of 1..4 "
            "components) run against the real ftp service inside the real server with real passive data connections, the whole process "
            "under strace: marker syscalls attribute every path-taking syscall to a command and every such path must lie below the root; "
            "the sentinel jail beside the root is digested before and after; replies must not carry outside content; the reported working "
            "directory must be a clean absolute path; reply classes, the tree below the root and listings are compared with the "
            "specification after every command (differences inside the root are drift).",
            "No symlinks inside the root; sessions run one at a time (syscall attribution by markers); path alphabet {a,b,f,n,..,.,''}.",
            "TLA+ specs + TLC exhaustive/simulate, one implementation test per transition (Htfs) and session replay on the real service with a syscall trace",
            "DESIGN.md §3 C11"),
    "C03": ("model_checking",
            "Sessions.tla models K connections served by one shared service object at request/response granularity with a free "
            "protocol (a connection's output may depend on its own request history and nothing else); TLC checks NonInterference "
            "(every connection observes exactly Solo(c)) over all interleavings and requires the two deviations transcribing the "
            "code's shared variables to violate it; the interleavings TLC enumerates (2 sessions x 5 steps: 252, 3 sessions x 4/5 "
            "steps) are sampled by seed - always with the sequential ones and histories of 4..6 earlier sessions - and executed "
            "step by step against one real server instance per scenario (fresh process) for ldap, ftp, smtp, telnet, redis, "
            "memcached, http and tftp, with clients on distinct source ports and with clients that differ in their IP address only; each connection's replies and events (addresses, session-id structure, command fields) "
            "must equal what the same script obtains alone on a fresh server.",
            "Lock-step request/response granularity; volatile fields masked (dates, session-id values, passive ports, Go-map "
            "ordering of FEAT / LDAP attribute lists); a disagreement counts only if it reproduces in a second fresh process.",
            "TLA+ spec + TLC exhaustive interleavings, schedule replay into the real server, solo-run oracle from the specification",
            "DESIGN.md §3 C03"),
    "C12": ("model_checking",
            "Auth.tla models credential sets (with ssh's wildcard and ldap's anonymous bind), attempts, gated operations and "
            "reconnects; TLC checks SuccessIffConfigured, GateHolds and EveryAttemptLogged as action properties for every "
            "credential set of size <= 1 x all 2-step sequences exhaustively and for sets of size <= 3 x 5-step sequences by "
            "simulation, per service; the generated sequences are replayed against the real ssh-simulator (x/crypto ssh client, "
            "password retries on one connection), ldap (hand-built BER bind and add/modify/delete/modifyDN/compare in turn, names also given as DNs) and ftp (USER/PASS, PWD as "
            "gated probe) through the real server; per-attempt outcome, gate refusals before a login, the gate being open right after the successful login of a named user, and the recorded user/password of every "
            "attempt are compared with the specification.",
            "Users {root, admin, guest, ''} x passwords {root, admin, 123456, ''} (ftp: around its built-in anonymous account); "
            "ssh gated operations are not part of the property; sequences are sampled per credential set by seed.",
            "TLA+ spec + TLC exhaustive/simulate generation, replay into the real services",
            "DESIGN.md §3 C12"),
    "C04": ("model_checking",
            "Framing.tla models delivery of a request stream in arbitrary segments and the service's parse loop (header pieces, "
            "terminator, announced body); TLC checks SegmentationIndependence (every terminal state has events = RefParse: each "
            "request once, in order, with its whole body) over all segmentations of three stream shapes and requires the two "
            "deviations found in the code (reader per request, single body read) to violate it; real request streams for ftp, "
            "smtp (incl. DATA and BDAT), redis, memcached, telnet, http, ldap, elasticsearch, docker, eos, ethereum, cwmp, ipp are "
            "sent to the real server whole, with every single byte cut exhaustively, with TLC's multi-cut sets mapped onto the "
            "request landmarks, dribbled, multi-cut at random and lock-step; dns, tftp, snmp, memcached, counterstrike datagrams "
            "one by one through the in-memory listener AND 48 back to back from 48 source addresses through honeytrap's own socket listener (every datagram must produce exactly its own events); the captured events' decoded fields must equal the expected list in every case.",
            "Decoded fields per service are listed in mbt/protocols.py (C04 tables); one-request-per-connection services get one "
            "request; timing: events are collected after the connection went quiet and was half-closed.",
            "TLA+ spec + TLC exhaustive segmentations, replay of cut sets on real services, expected events = RefParse",
            "DESIGN.md §3 C04"),
    "C02": ("exploration",
            "CanaryParse.tla states what a correct stack does with a frame (classification by the field relations the parsers test, "
            "a connection table of bounded capacity that drops newcomers when full) with the invariant that no frame ends the "
            "listener; TLC enumerates the field lattice (IHL 0..15 x total length around every bound x protocol; TCP segment length "
            "x data offset 0..15 x flags x peer reachability; every option layout of <= 3 bytes over the boundary alphabet; UDP/ICMP "
            "lengths; ~15k records); each record is built into bytes and pushed through the REAL Start loop of a real Canary (hook "
            "VerifNew: socketpair instead of AF_PACKET), plus seeded random-byte frames, SYN floods across the table capacity, and knock "
            "histories of 300-1000 distinct ports from one peer followed by a quiet period longer than the detector's window; "
            "after every frame (and after the quiet period) a well-formed UDP probe must produce its event; a dying child process is attributed to the frame in flight.",
            "Exploration, not proof: frames outside the lattice and the random sample are not tried; ARP handling is unreachable "
            "from the configuration file and is left out; the quick tier reaches the table boundary by pre-filling it through a hook.",
            "TLA+ spec as generator of the frame lattice + liveness oracle, replay through the real receive loop in a crash-isolated child",
            "DESIGN.md §3 C02"),
    "C20": ("model_checking",
            "Knock.tla models probe grouping per (source, protocol class), distinct port collection, and the quiet-period report-and-"
            "remove; UniqueSet.tla the insertion-ordered set with Each-while-removing; TLC checks PortsExactlyDistinctProbed, "
            "ReportedOncePerBurst, NoDuplicates and EachExact, and requires the transcribed deviations (among them stale_group_kept: a group that has grown old while OTHER sources kept the quiet timer from firing is reported at every tick) and the group-ignores-source-address regression to violate them; all "
            "interleaved bursts of <= 3 probes from 3 sources (exhaustive), simulated bursts of 8 and seeded bursts of up to 150 "
            "probes from up to 4 sources (two of the three model sources sit behind one gateway: same source hardware address) are injected as real SYN / UDP / ICMP frames into one real Canary each (hooks), the real "
            "5 s quiet timer is waited for twice (paced scans of 6-9 s and one crowded minute - a burst, then another source knocking every 4 s for 68 s - included), and per source the union of reported ports must be exactly the distinct pairs "
            "probed, each once; every UniqueSet transition and all operation sequences up to length 4 (quick) / 6 (thorough) run on "
            "the real canary.UniqueSet with the TLC table as oracle.",
            "Synchronous frame injection through a hook that mirrors the dispatch of the receive loop; one report per protocol "
            "class or per source both accepted; no timing requirement beyond 'within two quiet periods'.",
            "TLA+ spec + TLC exhaustive/simulate generation, replay into real Canary instances, transition-coverage replay of UniqueSet",
            "DESIGN.md §3 C20"),
    "C14": ("model_checking",
            "CanaryTCP.tla constrains what the listener may emit in reaction to a client frame, in numbers relative to the client's ISN "
            "and the listener's SYN-ACK: one SYN|ACK acknowledging isn+1; afterwards every emitted frame is addressed back to a known "
            "connection with correct IPv4/TCP checksums and acknowledges exactly the bytes (and FIN) received from that connection; data "
            "and FIN are answered; sequence numbers never go back. TLC enumerates all client behaviours of one connection up to 5 frames "
            "(segment lengths 1, 2, 1459, 1460, PSH, FIN with/without data, the client's closing ACK, RST after its FIN) and simulates interleavings of two; 20 overlap scenarios (2-4 connections, an earlier one completes its close or is reset on a decoded port while later ones go on); they are bound to the "
            "boundary ISNs 0, 1, 2^31-1, 2^31, 2^32-2, 2^32-1 and random ones, decoded and undecoded ports, injected into a real Canary "
            "(hooks), every emitted frame is decoded by the harness's own decoder, and TLC validates the recorded steps against "
            "CanaryTCP_Trace; connection events (addresses, payload = prefix containing the first pushed segment) are checked too, also when the pushed segment arrives "
            "while the handler's reader is between finding its buffer empty and starting to wait (AgentConn.tla's protocol; guarded hook canary.VerifSocketGap holds it there).",
            "Server ISN as drawn (wrap of the listener's own sequence space not steerable); data piggybacked on the handshake-"
            "completing ACK is outside the explored behaviours; synchronous injection via hook VerifInject.",
            "TLA+ spec + TLC generation of client behaviours, injection into the real listener, TLC trace validation of emitted frames",
            "DESIGN.md §3 C14"),
    "C13": ("model_checking",
            "Ja3.tla defines the JA3 string of a hello record (decimal version, ciphers, extension types, groups, point formats in wire "
            "order, GREASE removed from the first three) and TLC checks GreaseInvariant and OrderSensitive on every generated hello; "
            "hellos are generated exhaustively over a small space and by simulation up to 40 ciphers / 20 extensions (unknown, repeated, "
            "all 16 GREASE values, values that only look like GREASE (0xXaYa), one value in four from the whole 16-bit range, empty bodies, groups with GREASE, 0..3 point formats, with/without SNI, versions SSL3..TLS1.2), serialised by the "
            "harness (30% fragmented over several TLS records), sent to the real https service through the real server, and the digest and "
            "server name recorded in the connection's event must be MD5 of the specification's string and the SNI; one complete handshake "
            "with crypto/tls must yield a request event with the digest of the hello captured on the wire.",
            "MD5 by hashlib; the harness's serialiser/parser and own JA3 are cross-checked against Ja3.tla on every hello; extension "
            "bodies are well-formed for types the library parses.",
            "TLA+ spec as reference + TLC generation, replay into the real https service",
            "DESIGN.md §3 C13"),
    "C16": ("model_checking",
            "AgentMux.tla models the agent session's connection table (first-match lookup by address pair, generations), delivery of data "
            "to the service of the current generation, echo back to the agent, EOF and service-side close; TLC checks InOrderExactlyOnce, "
            "Isolation and NoLossWhileOpen over all sequences of <= 5 messages on 2 connections (incl. re-announcing a pair) and simulated "
            "ones on 3, and requires the transcribed stale-entry deviation to violate them; AgentCodec.tla states RoundTrip for every message "
            "type x tcp/udp x IPv4/IPv6 x ports x 13 payload length classes. Message sequences are played by a scripted agent (libdisco "
            "Noise_NK client, honeytrap's exported message types) against the REAL agent listener started by the real server; an echo "
            "service answers per virtual connection; bytes read per connection and frames returned per connection are compared with the "
            "specification; payloads 1..4000 bytes and single payloads 4075..65000; the agent going away with 1..8 connections open must end exactly those (AllEndedWhenGone); "
            "AgentConn.tla models one connection's reader and the session loop at the grain of their critical sections (NoStall, NoLoss, Delivered under fairness; an unbuffered notification violates NoStall) and TLC's 30 schedules "
            "of messages arriving while the reader waits or is between releasing its lock and waiting are forced on the real connection through the guarded hook agent.VerifReadGap; every codec record (strings and address lists across the decoder's 4096-byte buffer included) goes through the real "
            "MarshalBinary/UnmarshalBinary.",
            "Lock-step driving (echo awaited before the next message) and, for sequences in which the service never closes first, "
            "pipelined driving (data back to back, streams of up to 20 data messages on 1..4 connections); UDP relay messages are covered by the codec part only; "
            "what the agent had not yet read back when it went away is not compared.",
            "TLA+ specs + TLC exhaustive/simulate generation, replay against the real agent listener, codec transition replay",
            "DESIGN.md §3 C16"),
    "C18": ("model_checking",
            "Identity.tla models start-up as a sequence of steps (token stat/generate/write, per-service load-or-generate-then-store) with "
            "a Kill enabled at every step (the key and the certificate of ftp/smtp/ldap are two stored items: a kill between them leaves the key alone), over any number of restarts with varying service sets; TLC checks WellFormed and Stable "
            "exhaustively (2 items, 3 starts, 3 initial token states) and requires the transcribed deviation (write in place, adopt "
            "unvalidated) and the regressions tmp_exclusive_create and pair_only_if_both_missing to violate them; restart histories generated by TLC (5 service sets x completed/killed x initial token states) "
            "are executed as separate lab processes on one data directory: starts marked killed receive SIGKILL at a seeded instant of "
            "their start-up, starts killed between a key and its certificate are reproduced exactly (completed start, then the certificate is taken out of the store), every on-disk token state a kill can leave (absent, empty, prefixes of 1/10/19 characters, complete) is "
            "prepared, and completed starts observe the identity from outside (event token, SSH host key, certificates after AUTH TLS / "
            "STARTTLS / LDAP StartTLS, agent public key); WellFormed and Stable are evaluated on the observations.",
            "Kill points are approximated by random instants plus the prepared token-file and half-written-pair states; crash consistency inside a single badger transaction is "
            "observed, not modelled.",
            "TLA+ spec + TLC exhaustive crash-point model, history generation, replay across real processes",
            "DESIGN.md §3 C18"),
    "C01": ("exploration",
            "ConnLife.tla models the life cycle of a connection in the server (open, input, confined panic, peer gone, idle expiry, return, "
            "resources) with NO action that ends the process; TLC checks ProcessSurvives (and the C09 properties) over all interleavings of "
            "two connections and requires the unrecovered-panic deviation to violate it; MC_Dialogue generates dialogue shapes (canonical "
            "prefix, tokens of the service's grammar, truncation, repetition, raw byte classes, ending, segmentation, 1..3 concurrent "
            "copies); for each of the 24 director-less services a core set (every grammar token and raw class - never-ending escape sequences "
            "longer than a line editor's buffer included - after the greeting and after the canonical dialogue, the peer leaving after every "
            "prefix of the dialogue, every decimal number replaced by huge ones, ftp data connections in passive and active mode going quiet "
            "or closing on either connection) plus seeded shapes, 400-datagram concurrent bursts for the datagram services, and malformed ssh "
            "channel requests through a real ssh client are executed against ONE real server in a crash-isolated child; the child dying, a "
            "fresh echo connection not being served (also after an idle period of 32 s, when timers started on a connection's behalf fire), "
            "or the heap growing while idle are violations; a death is attributed by re-running the scenarios in flight (halving), with the idle wait when it came late. "
            "The scenarios and four complete TLS handshakes with different server names run once more against a lab built with Go's race detector: an unsynchronised access to a MAP "
            "(which the runtime punishes with a fatal error when two accesses overlap - a window no exploration hits) is a violation, races on plain variables are only counted.",
            "Exploration, not proof: inputs outside grammar+mutators are not tried; memory growth is a thresholded measurement; recovered "
            "panics are allowed and only counted.",
            "TLA+ spec (invariant + deviations) + TLC-generated dialogue shapes, model-based exploration of the real server in a child process",
            "DESIGN.md §3 C01"),
    "C09": ("exploration",
            "Same ConnLife.tla: ReleasedWhenQuiescent (invariant) and ReturnsAfterPeerGone (liveness under weak fairness, checked by TLC "
            "without state constraint) and SilentPeersExpire, with the deviations found in the code (helper never exits, listener never closed, datagram "
            "connection never reports end of input, transfer on a second connection without deadline, line editor that stops looking at its connection) "
            "and the regression peek_without_deadline each violating one of them; the C01 scenario set, cut at every protocol stage and ending "
            "in close, half-close, a single datagram, a peer that lingers 1.5 s before closing, or silence (each at the start, the middle and the end of every service's dialogue), runs against the real server in a child; after every peer is gone and the "
            "30 s idle timeout has passed the process must hold the same honeytrap goroutines (by creation site) and descriptors as before "
            "the first connection, no handler may still be inside handle(), and the idle process must not burn CPU.",
            "Thresholds: 33 s after the last scenario, 400 ms CPU per idle second, 2 descriptors of slack; leaks are attributed by goroutine "
            "creation site, not by scenario.",
            "TLA+ spec (safety + liveness + deviations), exploration of the real server with runtime snapshots against a baseline",
            "DESIGN.md §3 C09"),
    "C15": ("model_checking",
            "Proxy.tla models a client connection's two FIFO legs through a proxy to its one configured backend (send, forward, backend "
            "reply, back) with the invariants BackendSawExactlyClientSent, ClientSawExactlyBackendSent (for both reply streams) and OnlyBackendDialled; TLC draws "
            "exchanges (http: 1..3 requests over methods incl. HEAD, targets, header sets incl. repeated names and with/without User-Agent, bodies "
            "0..64 KiB content-length or chunked, replies 0..64 KiB split at a cut point, pipelined or lock-step, 1..3 concurrent clients; "
            "copy streams incl. half-closing clients; ssh sessions through ssh-proxy against an ssh backend fixture, whose reply has two streams (standard output and, as extended data, standard error: ErrOut); dns datagrams; director hosts "
            "with and without a port, two listener ports sharing one director), checks every interleaving of the model on each, and requires the deviations found in the code to "
            "violate the invariants; every exchange is played against the REAL server with the real socket listener and forward directors on "
            "loopback: harness backends record what they receive and answer, a decoy listener must never be contacted, and what backend and "
            "client saw is compared at the level the property names; relayed requests must be recorded in events.",
            "Host/Content-Length/Transfer-Encoding framing headers are excluded from the header comparison; the ssh leg compares credentials, "
            "channel requests and channel data, not the ssh transport itself.",
            "TLA+ spec + TLC on drawn exchanges, replay through the real proxies over loopback sockets",
            "DESIGN.md §3 C15"),
}

NOT_YET = "check not built yet in this session (see DESIGN.md §10 for the order of construction)"


def main():
    checks = []
    for pid in ALL:
        if pid not in CHECKS:
            continue
        cat, text, note, tech, ref = CHECKS[pid]
        checks.append({
            "property_id": pid,
            "quick_cmd": "python3 mbt/run.py %s --tier quick" % pid,
            "thorough_cmd": "python3 mbt/run.py %s --tier thorough" % pid,
            "evidence_file": "/verif/evidence/%s.json" % pid,
            "replay_cmd_template": "python3 mbt/run.py %s --replay {path}" % pid,
            "engine": "mbt",
            "level_claimed": {"category": cat, "text": text, "design_ref": ref},
            "level_note": note,
            "technique": tech,
        })
    hooks_commits = []
    hc = os.path.join(VERIF, "hooks_commits.txt")
    if os.path.exists(hc):
        hooks_commits = [l.strip() for l in open(hc) if l.strip()]
    m = {
        "version": 1,
        "setup_cmd": "python3 mbt/setup.py",
        "hooks": {
            "guard": "verif",
            "enable": "go build -tags verif (the harness module replaces github.com/honeytrap/honeytrap by /repo)",
            "baseline_off_cmd": "cd /repo && go test -vet=off -count=1 -timeout 25m ./...",
            "source_commits": hooks_commits,
            "add_only": True,
        },
        "engines": [{
            "name": "mbt",
            "path": "/verif/mbt",
            "serves_properties": sorted(CHECKS),
            "kind_free_text": "TLA+ specification (spec/*.tla) checked by TLC; TLC-generated scenarios replayed into the real "
                              "code by the Go lab (harness/); traces recorded from the real code validated by TLC against "
                              "*_Trace.tla; python3 orchestrator",
        }],
        "checks": checks,
        "not_applicable": [{"property_id": p, "reason": NOT_YET} for p in ALL if p not in CHECKS],
        "notes": "See DESIGN.md. Exit codes: 0 held, 1 VIOLATION, 2 infrastructure/inconclusive.",
    }
    with open(os.path.join(VERIF, "MANIFEST.json"), "w") as fh:
        json.dump(m, fh, indent=1)
    print("MANIFEST.json: %d checks, %d not yet claimed" % (len(checks), len(m["not_applicable"])))


if __name__ == "__main__":
    main()
