#!/bin/bash
# usage: try_patch.sh <patch.diff> <PROP> [tier]   - applies a seeded change to /repo, runs the check, reverts
set -u
patch=$1; prop=$2; tier=${3:-quick}
cd /repo || exit 2
if [ -n "$(git status --porcelain)" ]; then echo "repo not clean"; exit 2; fi
git apply "$patch" || { echo "patch does not apply"; exit 2; }
cd /verif
python3 mbt/run.py "$prop" --tier "$tier" > /var/tmp/try_patch.out 2>&1
rc=$?
git -C /repo checkout -- . 
git -C /repo clean -fdq -- . >/dev/null 2>&1
echo "rc=$rc"
grep -E "^VIOLATION|signature=|MODEL-DRIFT|INFRA|^C[0-9]+ (ok|FAIL)" /var/tmp/try_patch.out | cut -c1-400 | head -8
exit $rc
