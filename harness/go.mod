module verif/harness

go 1.13

require github.com/honeytrap/honeytrap v0.0.0

replace github.com/honeytrap/honeytrap => /repo
