module verif/harness

go 1.13

require (
	github.com/honeytrap/honeytrap v0.0.0
	golang.org/x/crypto v0.0.0-20200128174031-69ecbb4d6d5d
)

replace github.com/honeytrap/honeytrap => /repo
