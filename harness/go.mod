module verif/harness

go 1.13

require (
	github.com/dgraph-io/badger v0.0.0-20180227002726-94594b20babf
	github.com/honeytrap/honeytrap v0.0.0
	github.com/mimoo/disco v0.0.0-20180114190844-15dd4b8476c9
	golang.org/x/crypto v0.0.0-20200128174031-69ecbb4d6d5d
)

replace github.com/honeytrap/honeytrap => /repo
