package main

// C11 (level 2): command sequences generated from FtpSession.tla run against the REAL ftp
// service inside the real server. The service's root sits in a jail of look-alike
// directories and sentinel files; the whole process runs under strace (started by the
// orchestrator), and before every command the driver issues a marker syscall
// (stat of /verif-mark/<scenario>/<step>) so that every path-taking syscall can be
// attributed to a command. The driver itself touches only paths below the root.

import (
	"bufio"
	stdtls "crypto/tls"
	"encoding/json"
	"flag"
	"fmt"
	"io"
	"io/ioutil"
	"net"
	"os"
	"path/filepath"
	"regexp"
	"sort"
	"strconv"
	"strings"
	"time"
)

type c11Step struct {
	C     string  `json:"c"`
	P     c11Path `json:"p"`
	Chunk string  `json:"chunk"`
}

type c11Scenario struct {
	ID    int       `json:"id"`
	Steps []c11Step `json:"steps"`
}

type c11Obs struct {
	Cmd     string            `json:"cmd"`
	Codes   []int             `json:"codes"`
	Text    string            `json:"text"`
	Data    string            `json:"data,omitempty"`
	Dirs    []string          `json:"dirs"`
	Files   map[string]string `json:"files"`
	Note    string            `json:"note,omitempty"`
	DataErr string            `json:"data_err,omitempty"`
}

type c11SessResult struct {
	ID    int      `json:"id"`
	Obs   []c11Obs `json:"obs"`
	Error string   `json:"error,omitempty"`
}

var rePasv = regexp.MustCompile(`\((\d+),(\d+),(\d+),(\d+),(\d+),(\d+)\)`)

// the fixture below the root (same as MC_FtpSession's IDirs / IFiles)
var c11Dirs = []string{"a", "b", "a/a", "a/b", "b/a"}
var c11Files = map[string]string{"f": "F0;", "a/f": "F1;"}

func c11ResetTree(root string) error {
	ents, err := ioutil.ReadDir(root)
	if err != nil {
		if os.IsNotExist(err) {
			return fmt.Errorf("ROOT-GONE: %v", err)
		}
		return err
	}
	for _, e := range ents {
		if err := os.RemoveAll(filepath.Join(root, e.Name())); err != nil {
			return err
		}
	}
	for _, d := range c11Dirs {
		if err := os.MkdirAll(filepath.Join(root, d), 0755); err != nil {
			return err
		}
	}
	for f, c := range c11Files {
		if err := ioutil.WriteFile(filepath.Join(root, f), []byte(c), 0644); err != nil {
			return err
		}
	}
	return nil
}

func c11Snapshot(root string) (dirs []string, files map[string]string) {
	files = map[string]string{}
	dirs = []string{}
	filepath.Walk(root, func(p string, info os.FileInfo, err error) error {
		if err != nil || p == root {
			return nil
		}
		rel, _ := filepath.Rel(root, p)
		if info.IsDir() {
			dirs = append(dirs, rel)
		} else {
			b, _ := ioutil.ReadFile(p)
			if len(b) > 200 {
				b = b[:200]
			}
			files[rel] = string(b)
		}
		return nil
	})
	sort.Strings(dirs)
	return
}

type ftpCtl struct {
	c net.Conn
	r *bufio.Reader
}

// replies reads complete reply lines until nothing more arrives for `quiet`
func (f *ftpCtl) replies(first time.Duration, quiet time.Duration) (codes []int, text string) {
	wait := first
	for {
		f.c.SetReadDeadline(time.Now().Add(wait))
		line, err := f.r.ReadString('\n')
		if len(line) >= 4 {
			if n, e := strconv.Atoi(line[:3]); e == nil && line[3] == ' ' {
				codes = append(codes, n)
				if text == "" {
					text = strings.TrimRight(line[4:], "\r\n")
				}
			}
		}
		if err != nil {
			return
		}
		wait = quiet
	}
}

func (f *ftpCtl) cmd(line string, first, quiet time.Duration) ([]int, string) {
	f.c.Write([]byte(line + "\r\n"))
	return f.replies(first, quiet)
}

func c11RunSession(srv *labServer, root string, sc c11Scenario, n int) c11SessResult {
	res := c11SessResult{ID: sc.ID}
	if err := c11ResetTree(root); err != nil {
		res.Error = "fixture: " + err.Error()
		return res
	}
	cl, err := srv.mem.DialTCP(tcpAddr("127.0.0.1", 21), tcpAddr(fmt.Sprintf("10.11.%d.%d", n/250, 1+n%250), 5000))
	if err != nil {
		res.Error = "dial: " + err.Error()
		return res
	}
	defer cl.Close()
	ctl := &ftpCtl{c: cl, r: bufio.NewReader(cl)}
	ctl.replies(3*time.Second, 30*time.Millisecond)
	ctl.cmd("USER anonymous", 3*time.Second, 20*time.Millisecond)
	if codes, _ := ctl.cmd("PASS anonymous", 3*time.Second, 20*time.Millisecond); len(codes) == 0 || codes[0] != 230 {
		res.Error = fmt.Sprintf("login: %v", codes)
		return res
	}
	for i, st := range sc.Steps {
		os.Stat(fmt.Sprintf("/verif-mark/%d/%d", sc.ID, i)) // marker for the syscall trace
		o := c11Obs{Cmd: st.C}
		arg := st.P.Text()
		line := st.C
		if st.C != "CDUP" && st.C != "PWD" && st.C != "APPE" {
			line = st.C + " " + arg
		}
		switch st.C {
		case "LIST", "NLST", "RETR", "STOR":
			codes, text := ctl.cmd("PASV", 3*time.Second, 5*time.Millisecond)
			m := rePasv.FindStringSubmatch(text)
			if len(codes) == 0 || codes[0] != 227 || m == nil {
				o.Note = fmt.Sprintf("PASV: %v %q", codes, text)
				o.Codes = codes
				break
			}
			p1, _ := strconv.Atoi(m[5])
			p2, _ := strconv.Atoi(m[6])
			addr := fmt.Sprintf("%s.%s.%s.%s:%d", m[1], m[2], m[3], m[4], p1*256+p2)
			ctl.c.Write([]byte(line + "\r\n"))
			// first reply: 150 (transfer follows) or a refusal
			first, text1 := ctl.replies(3*time.Second, 1*time.Millisecond)
			o.Codes, o.Text = first, text1
			if len(first) > 0 && first[0] == 150 && len(first) == 1 {
				raw, err := net.DialTimeout("tcp", addr, 2*time.Second)
				if err != nil {
					o.DataErr = "dial: " + err.Error()
				} else {
					// the service wraps every passive data socket in TLS (it always has a certificate)
					raw.SetDeadline(time.Now().Add(3 * time.Second))
					dc := stdtls.Client(raw, &stdtls.Config{InsecureSkipVerify: true, MinVersion: stdtls.VersionTLS10})
					if st.C == "STOR" {
						dc.Write([]byte(st.Chunk + ";"))
						dc.Close()
					} else {
						b, err := ioutil.ReadAll(io.LimitReader(dc, 1<<16))
						if err != nil {
							o.DataErr = err.Error()
						}
						o.Data = string(b)
						dc.Close()
					}
				}
				more, _ := ctl.replies(3*time.Second, 15*time.Millisecond)
				o.Codes = append(o.Codes, more...)
			}
		default:
			o.Codes, o.Text = ctl.cmd(line, 3*time.Second, 15*time.Millisecond)
		}
		o.Dirs, o.Files = c11Snapshot(root)
		res.Obs = append(res.Obs, o)
		if len(o.Codes) == 0 {
			res.Obs[len(res.Obs)-1].Note += " no reply (connection gone?)"
			break
		}
	}
	os.Stat(fmt.Sprintf("/verif-mark/%d/end", sc.ID))
	ctl.cmd("QUIT", 500*time.Millisecond, 5*time.Millisecond)
	return res
}

// the jail (look-alike directories and sentinel files at every level between its top and the
// root) is made and digested by the orchestrator; the service's base directory is inside it
func c11Jail(top string) (base string, err error) {
	base = filepath.Join(top, "j2", "jail", "base")
	err = os.MkdirAll(filepath.Join(base, "ftp"), 0755)
	return
}

func c11SessionMain(args []string) error {
	fs := flag.NewFlagSet("c11session", flag.ExitOnError)
	in := fs.String("in", "", "scenario ndjson (from TLC)")
	out := fs.String("out", "", "result ndjson")
	top := fs.String("top", "", "top of the jail (created by the orchestrator, empty)")
	fs.Parse(args)
	quietLogs()
	defer cleanupScratch()
	base, err := c11Jail(*top)
	if err != nil {
		return err
	}
	toml := fmt.Sprintf("[listener]\ntype=\"verif-mem\"\n[channel.cap]\ntype=\"verif-capture\"\nname=\"cap\"\n[[filter]]\nchannel=[\"cap\"]\n"+
		"[service.ftp]\ntype=\"ftp\"\nfs_base=%q\n[[port]]\nport=\"tcp/21\"\nservices=[\"ftp\"]\n", base)
	srv, err := startServer(toml)
	if err != nil {
		return err
	}
	// the root the service made for itself: the one entry below base/ftp that is not a look-alike
	root := ""
	ents, _ := ioutil.ReadDir(filepath.Join(base, "ftp"))
	for _, e := range ents {
		if e.IsDir() && e.Name() != "a" && e.Name() != "b" && e.Name() != "n" {
			root = filepath.Join(base, "ftp", e.Name())
		}
	}
	if root == "" {
		return fmt.Errorf("the ftp service did not create a root below %s", base)
	}
	o, err := newJSONOut(*out)
	if err != nil {
		return err
	}
	defer o.Close()
	o.Put(map[string]interface{}{"root": root, "top": *top})
	n := 0
	return readJSONLines(*in, func(line []byte) error {
		var sc c11Scenario
		if err := json.Unmarshal(line, &sc); err != nil {
			return err
		}
		n++
		o.Put(c11RunSession(srv, root, sc, n))
		return nil
	})
}

func init() { register("c11session", c11SessionMain) }
