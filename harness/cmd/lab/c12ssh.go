package main

// C12 (ssh part): attempt sequences against the real ssh-simulator through the real
// server, using golang.org/x/crypto/ssh as client. One server per credential set.

import (
	"encoding/json"
	"flag"
	"fmt"
	"net"
	"strings"
	"time"

	"golang.org/x/crypto/ssh"
)

type c12Step struct {
	A        string `json:"a"`
	OK       bool   `json:"ok"`
	User     string `json:"user"`
	Password string `json:"password"`
}

type c12Seq struct {
	ID    int       `json:"id"`
	Steps []c12Step `json:"steps"`
}

type c12Scenario struct {
	ID       int        `json:"id"`
	Creds    [][]string `json:"creds"`
	Wildcard bool       `json:"wildcard"`
	Extra    []string   `json:"extra"` // further credential strings (entries without exactly one ':')
	Seqs     []c12Seq   `json:"seqs"`
}

type c12SeqResult struct {
	ID     int                      `json:"id"`
	OK     []bool                   `json:"ok"`
	Events []map[string]interface{} `json:"events"`
	Note   string                   `json:"note,omitempty"`
}

type c12Result struct {
	ID    int            `json:"id"`
	Seqs  []c12SeqResult `json:"seqs"`
	Error string         `json:"error,omitempty"`
}

func c12Config(sc c12Scenario) string {
	cs := []string{}
	for _, c := range sc.Creds {
		cs = append(cs, fmt.Sprintf("%q", c[0]+":"+c[1]))
	}
	for _, e := range sc.Extra {
		cs = append(cs, fmt.Sprintf("%q", e))
	}
	if sc.Wildcard {
		cs = append(cs, `"*"`)
	}
	return fmt.Sprintf(`[listener]
type="verif-mem"
[channel.cap]
type="verif-capture"
name="cap"
[[filter]]
channel=["cap"]
[service.ssh]
type="ssh-simulator"
credentials=[%s]
[[port]]
port="tcp/22"
services=["ssh"]
`, strings.Join(cs, ","))
}

var c12Conn = 0

// sshTry runs consecutive attempts for one user on one connection; returns how many
// passwords were presented and whether the last one was accepted.
func sshTry(m *memListener, raddr *net.TCPAddr, user string, passwords []string) (presented int, ok bool, note string) {
	cl, err := m.DialTCP(tcpAddr("127.0.0.1", 22), raddr)
	if err != nil {
		return 0, false, err.Error()
	}
	defer cl.Close()
	cl.SetDeadline(time.Now().Add(10 * time.Second))
	i := 0
	cfg := &ssh.ClientConfig{
		User: user,
		Auth: []ssh.AuthMethod{ssh.RetryableAuthMethod(ssh.PasswordCallback(func() (string, error) {
			if i >= len(passwords) {
				return "", fmt.Errorf("no more passwords")
			}
			p := passwords[i]
			i++
			return p, nil
		}), len(passwords))},
		HostKeyCallback: ssh.InsecureIgnoreHostKey(),
		Timeout:         10 * time.Second,
	}
	conn, _, _, err := ssh.NewClientConn(cl, "127.0.0.1:22", cfg)
	if err == nil {
		conn.Close()
		return i, true, ""
	}
	if !strings.Contains(err.Error(), "unable to authenticate") && !strings.Contains(err.Error(), "no more passwords") {
		note = err.Error()
	}
	return i, false, note
}

func c12RunSeq(m *memListener, sq c12Seq) c12SeqResult {
	res := c12SeqResult{ID: sq.ID}
	c12Conn++
	ip := fmt.Sprintf("10.12.%d.%d", (c12Conn/250)%250, 1+c12Conn%250)
	mark := hub.Len()
	k := 0
	port := 5000
	for k < len(sq.Steps) {
		st := sq.Steps[k]
		if st.A != "attempt" {
			res.OK = append(res.OK, false) // gated / reconnect: not applicable to ssh, reported as-is
			k++
			continue
		}
		// consecutive attempts of the same user go over one connection
		j := k
		var pws []string
		for j < len(sq.Steps) && sq.Steps[j].A == "attempt" && sq.Steps[j].User == st.User {
			pws = append(pws, sq.Steps[j].Password)
			j++
		}
		port++
		n, ok, note := sshTry(m, tcpAddr(ip, port), st.User, pws)
		if note != "" {
			res.Note = note
		}
		if n == 0 {
			res.Note = "no password was asked for: " + note
			n = 1
		}
		for x := 0; x < n; x++ {
			res.OK = append(res.OK, ok && x == n-1)
		}
		k += n
	}
	hub.WaitQuiet(20*time.Millisecond, 300*time.Millisecond)
	for _, e := range hub.Since(mark) {
		if e.Map["source-ip"] == ip && e.Map["type"] == "password-authentication" {
			res.Events = append(res.Events, map[string]interface{}{"user": e.Map["ssh.username"], "password": e.Map["ssh.password"]})
		}
	}
	return res
}

func c12sshMain(args []string) error {
	fs := flag.NewFlagSet("c12ssh", flag.ExitOnError)
	in := fs.String("in", "", "scenario ndjson")
	out := fs.String("out", "", "result ndjson")
	fs.Parse(args)
	quietLogs()
	defer cleanupScratch()
	o, err := newJSONOut(*out)
	if err != nil {
		return err
	}
	defer o.Close()
	return readJSONLines(*in, func(line []byte) error {
		var sc c12Scenario
		if err := json.Unmarshal(line, &sc); err != nil {
			return err
		}
		res := c12Result{ID: sc.ID}
		srv, err := startServer(c12Config(sc))
		if err != nil {
			res.Error = err.Error()
			o.Put(res)
			return nil
		}
		for _, sq := range sc.Seqs {
			res.Seqs = append(res.Seqs, c12RunSeq(srv.mem, sq))
		}
		srv.Stop()
		o.Put(res)
		return nil
	})
}

func init() { register("c12ssh", c12sshMain) }
