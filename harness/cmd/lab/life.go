package main

// Connection life-cycle exploration shared by C01 (no client traffic terminates the
// process) and C09 (handlers finish and release everything once the peer is gone).
// Runs the REAL server with all director-less services in this (child) process, executes
// byte-level scenarios against it, and reports runtime facts: goroutines by creation site,
// descriptors, heap while idle, CPU while idle, whether a fresh connection is still served.
// The process dying is observed by the parent through the progress file.

import (
	"bytes"
	"encoding/hex"
	"encoding/json"
	"flag"
	"fmt"
	"image"
	"image/color"
	"image/png"
	"io/ioutil"
	"net"
	"os"
	"path/filepath"
	"regexp"
	"runtime"
	"runtime/pprof"
	"sort"
	"strings"
	"sync"
	"syscall"
	"time"

	"golang.org/x/crypto/ssh"
)

type lifeSnapshot struct {
	Goroutines map[string]int `json:"goroutines"` // honeytrap goroutines by "created by" site + innermost honeytrap frame
	Handlers   int            `json:"handlers"`   // goroutines inside server.(*Honeytrap).handle
	FDs        int            `json:"fds"`
	HeapInUse  uint64         `json:"heap_in_use"`
	CPUms      int64          `json:"cpu_ms"`
	At         float64        `json:"at_s"`
}

var (
	reFrame   = regexp.MustCompile(`^(\S+)\(`)
	lifeStart = time.Now()
)

func cpuMillis() int64 {
	var ru syscall.Rusage
	syscall.Getrusage(syscall.RUSAGE_SELF, &ru)
	return (ru.Utime.Sec+ru.Stime.Sec)*1000 + int64(ru.Utime.Usec+ru.Stime.Usec)/1000
}

func takeSnapshot() lifeSnapshot {
	runtime.GC()
	s := lifeSnapshot{Goroutines: map[string]int{}, At: time.Since(lifeStart).Seconds(), CPUms: cpuMillis()}
	var buf bytes.Buffer
	pprof.Lookup("goroutine").WriteTo(&buf, 2)
	for _, g := range strings.Split(buf.String(), "\n\n") {
		lines := strings.Split(g, "\n")
		inner, created := "", ""
		isHandler := false
		for _, ln := range lines {
			if strings.HasPrefix(ln, "created by ") {
				created = strings.TrimPrefix(ln, "created by ")
				if i := strings.Index(created, " in goroutine"); i > 0 {
					created = created[:i]
				}
				continue
			}
			m := reFrame.FindStringSubmatch(ln)
			if m == nil {
				continue
			}
			fn := m[1]
			if strings.Contains(fn, "honeytrap/honeytrap/") {
				if inner == "" {
					inner = fn
				}
				if strings.Contains(fn, "server.(*Honeytrap).handle") {
					isHandler = true
				}
			}
		}
		if inner == "" && !strings.Contains(created, "honeytrap/honeytrap/") {
			continue
		}
		short := func(s string) string { return strings.Replace(s, "github.com/honeytrap/honeytrap/", "", -1) }
		s.Goroutines[short(created)+" | "+short(inner)]++
		if isHandler {
			s.Handlers++
		}
	}
	if fis, err := ioutil.ReadDir("/proc/self/fd"); err == nil {
		s.FDs = len(fis)
	}
	var ms runtime.MemStats
	runtime.ReadMemStats(&ms)
	s.HeapInUse = ms.HeapInuse
	return s
}

type lifeScenario struct {
	ID    int      `json:"id"`
	Svc   string   `json:"svc"`
	Steps []scStep `json:"steps"`
	SSH   *lifeSSH `json:"ssh,omitempty"`
}

type lifeSSH struct {
	Laddr    string       `json:"laddr"`
	Raddr    string       `json:"raddr"`
	Channel  string       `json:"channel"`
	Requests []lifeSSHReq `json:"requests"`
	Lines    []string     `json:"lines"`
}

type lifeSSHReq struct {
	Type    string `json:"type"`
	Payload string `json:"payload"`
}

// runSSH drives the ssh services with a real client: login, one channel, arbitrary requests
func runSSH(m *memListener, s *lifeSSH) string {
	lh, lp := parseHostPort(s.Laddr)
	rh, rp := parseHostPort(s.Raddr)
	cl, err := m.DialTCP(tcpAddr(lh, lp), tcpAddr(rh, rp))
	if err != nil {
		return err.Error()
	}
	defer cl.Close()
	cl.SetDeadline(time.Now().Add(8 * time.Second))
	cfg := &ssh.ClientConfig{User: "root", Auth: []ssh.AuthMethod{ssh.Password("root")}, HostKeyCallback: ssh.InsecureIgnoreHostKey(), Timeout: 8 * time.Second}
	c, chans, reqs, err := ssh.NewClientConn(cl, s.Laddr, cfg)
	if err != nil {
		return "handshake: " + err.Error()
	}
	client := ssh.NewClient(c, chans, reqs)
	defer client.Close()
	chName := s.Channel
	if chName == "" {
		chName = "session"
	}
	ch, creqs, err := client.OpenChannel(chName, []byte{0, 0, 0, 1, 'x', 0, 0, 0, 1})
	if err != nil {
		return "channel: " + err.Error()
	}
	go ssh.DiscardRequests(creqs)
	for _, r := range s.Requests {
		p, _ := hex.DecodeString(r.Payload)
		ch.SendRequest(r.Type, false, p)
		time.Sleep(5 * time.Millisecond)
	}
	for _, ln := range s.Lines {
		ch.Write([]byte(ln))
		time.Sleep(5 * time.Millisecond)
	}
	time.Sleep(30 * time.Millisecond)
	ch.Close()
	return ""
}

func writeVNCImage(path string) {
	img := image.NewRGBA(image.Rect(0, 0, 32, 24))
	for x := 0; x < 32; x++ {
		for y := 0; y < 24; y++ {
			img.Set(x, y, color.RGBA{uint8(x * 8), uint8(y * 10), 128, 255})
		}
	}
	f, err := os.Create(path)
	if err == nil {
		png.Encode(f, img)
		f.Close()
	}
}

func lifeMain(args []string) error {
	fs := flag.NewFlagSet("life", flag.ExitOnError)
	in := fs.String("in", "", "scenario ndjson")
	out := fs.String("out", "", "result json")
	cfg := fs.String("config", "", "TOML configuration ({SCRATCH} is substituted)")
	progress := fs.String("progress", "", "progress file")
	par := fs.Int("par", 16, "scenarios in flight")
	settle := fs.Int("settle", 5000, "ms to wait after the last scenario before the first leak snapshot")
	idle := fs.Int("idle", 0, "ms to wait additionally (idle timeout of silent connections) before the final snapshot")
	idleMax := fs.Int("idlemax", 0, "keep waiting (polling every 3 s) up to this many ms for the process to become quiescent")
	fs.Parse(args)
	quietLogs()
	defer cleanupScratch()
	raw, err := ioutil.ReadFile(*cfg)
	if err != nil {
		return err
	}
	writeVNCImage(filepath.Join(scratchDir(), "vnc.png"))
	os.MkdirAll(filepath.Join(scratchDir(), "ftpbase"), 0755)
	toml := strings.Replace(string(raw), "{SCRATCH}", scratchDir(), -1)
	pf, err := os.Create(*progress)
	if err != nil {
		return err
	}
	var pmu sync.Mutex
	note := func(f string, a ...interface{}) {
		pmu.Lock()
		fmt.Fprintf(pf, f+"\n", a...)
		pmu.Unlock()
	}
	srv, err := startServer(toml)
	if err != nil {
		note("startfail %v", err)
		return err
	}
	// warm up: one probe, so that lazily started goroutines are part of the baseline
	probe := func() bool {
		cl, err := srv.mem.DialTCP(tcpAddr("127.0.0.1", 7), tcpAddr("198.51.100.77", 4007))
		if err != nil {
			return false
		}
		defer cl.Close()
		cl.SetDeadline(time.Now().Add(3 * time.Second))
		cl.Write([]byte("probe\n"))
		b := make([]byte, 6)
		n, _ := cl.Read(b)
		return string(b[:n]) == "probe\n"
	}
	probe()
	time.Sleep(200 * time.Millisecond)
	base := takeSnapshot()
	note("baseline")
	var scs []lifeScenario
	if err := readJSONLines(*in, func(line []byte) error {
		var sc lifeScenario
		if err := json.Unmarshal(line, &sc); err != nil {
			return err
		}
		scs = append(scs, sc)
		return nil
	}); err != nil {
		return err
	}
	results := make([]scResult, len(scs))
	sem := make(chan struct{}, *par)
	var wg sync.WaitGroup
	for i, sc := range scs {
		i, sc := i, sc
		wg.Add(1)
		sem <- struct{}{}
		go func() {
			defer wg.Done()
			defer func() { <-sem }()
			note("begin %d", sc.ID)
			if sc.SSH != nil {
				e := runSSH(srv.mem, sc.SSH)
				results[i] = scResult{ID: sc.ID, Error: e}
			} else {
				results[i] = runScript(srv.mem, scScenario{ID: sc.ID, Steps: sc.Steps}, true)
			}
			note("end %d", sc.ID)
		}()
	}
	wg.Wait()
	note("alldone")
	time.Sleep(time.Duration(*settle) * time.Millisecond)
	afterSettle := takeSnapshot()
	probeOK := probe()
	note("settled probe=%v", probeOK)
	// idle cpu: measured on its own (a snapshot collects garbage and dumps every goroutine: with thousands of
	// connections behind us that costs more CPU than a quiet process may use)
	cpu1 := cpuMillis()
	time.Sleep(1000 * time.Millisecond)
	cpu2 := cpuMillis()
	// idle heap: two samples while nothing is sent
	h1 := takeSnapshot()
	time.Sleep(1000 * time.Millisecond)
	h2 := takeSnapshot()
	h1.CPUms, h2.CPUms = cpu1, cpu2
	var final lifeSnapshot
	quiescent := func(s lifeSnapshot) bool {
		if s.Handlers > 0 {
			return false
		}
		for k, n := range s.Goroutines {
			if n > base.Goroutines[k] {
				return false
			}
		}
		return true
	}
	waited := 0
	if *idle > 0 {
		time.Sleep(time.Duration(*idle) * time.Millisecond)
		waited = *idle
		final = takeSnapshot()
		// handlers may legitimately need more than one timeout in a row (a passive data connection
		// that never comes, then the idle timeout): bounded, so wait on - up to idlemax
		for !quiescent(final) && waited < *idleMax {
			time.Sleep(3 * time.Second)
			waited += 3000
			final = takeSnapshot()
		}
	} else {
		final = h2
	}
	heldOpenMu.Lock()
	held := len(heldOpen)
	heldOpenMu.Unlock()
	// still serving after the server's own timers (30 s) have run out?
	probeLate := probeOK
	if *idle > 0 {
		probeLate = probe()
		note("idle probe=%v", probeLate)
	}
	fatal := 0
	// every event the services emitted: does it serialise, and do its payload fields agree with each other?
	evTotal, evJSONBad, evPayloadBad := 0, 0, 0
	var evSamples []map[string]interface{}
	for _, e := range hub.Since(0) {
		if e.Map["type"] == "fatal" {
			fatal++
		}
		evTotal++
		if e.JSONErr != "" {
			evJSONBad++
			if len(evSamples) < 10 {
				evSamples = append(evSamples, map[string]interface{}{"problem": "json: " + e.JSONErr, "category": fmt.Sprint(e.Map["category"]), "type": fmt.Sprint(e.Map["type"])})
			}
		}
		if hx, ok := e.Map["payload-hex"].(string); ok {
			n, isInt := e.Map["payload-length"].(int)
			raw, _ := hex.DecodeString(hx)
			txt, hasTxt := e.Map["payload"].(string)
			if !isInt || len(hx) != 2*n || len(raw) != n || (hasTxt && len(txt) == n && txt != string(raw)) {
				evPayloadBad++
				if len(evSamples) < 10 {
					evSamples = append(evSamples, map[string]interface{}{"problem": fmt.Sprintf("payload-hex has %d digits, payload-length is %v", len(hx), e.Map["payload-length"]),
						"category": fmt.Sprint(e.Map["category"]), "type": fmt.Sprint(e.Map["type"])})
				}
			}
		}
	}
	o, err := newJSONOut(*out)
	if err != nil {
		return err
	}
	defer o.Close()
	keys := []string{}
	for k := range final.Goroutines {
		keys = append(keys, k)
	}
	sort.Strings(keys)
	o.Put(map[string]interface{}{"baseline": base, "after_settle": afterSettle, "idle1": h1, "idle2": h2, "final": final,
		"probe_ok": probeOK, "probe_after_idle_ok": probeLate, "recovered_panics": fatal, "scenarios": len(scs), "results": results,
		"held_open_by_lab": held, "waited_ms": waited,
		"events": map[string]interface{}{"total": evTotal, "unserialisable": evJSONBad, "payload_fields_disagree": evPayloadBad, "samples": evSamples}})
	note("written")
	return nil
}

var _ = net.IPv4

func init() { register("life", lifeMain) }
