//go:build verif
// +build verif

package main

// C20: a port scan is reported once, listing exactly the ports probed.
//  -knock : TLC-generated interleaved bursts replayed as real frames (TCP SYN, UDP to an
//           undecoded port, ICMP echo) into real Canary instances (hooks VerifNew,
//           VerifKnockDetector, VerifInject); all scenarios of a batch run concurrently so
//           that the 5 s quiet period is paid once; portscan events are collected over two
//           quiet periods.
//  -uset  : one implementation test per transition of UniqueSet.tla plus exhaustive
//           operation sequences with the TLC table as oracle, on the real canary.UniqueSet.

import (
	"context"
	"encoding/binary"
	"encoding/json"
	"flag"
	"fmt"
	"net"
	"sort"
	"strings"
	"sync"
	"time"

	"github.com/honeytrap/honeytrap/listener/canary"
)

type c20Probe struct {
	Src   string `json:"src"`
	Via   string `json:"via"` // "gw": behind the shared gateway (its hardware address on the wire), else the source's own
	Proto string `json:"proto"`
	Port  int    `json:"port"`
}

type c20Scenario struct {
	ID     int        `json:"id"`
	Probes []c20Probe `json:"probes"`
	// a scan that takes its time: after the first FastFirst probes every further probe waits PaceMs
	// (gaps stay far below the quiet period: it is still one burst)
	FastFirst int `json:"fast_first,omitempty"`
	PaceMs    int `json:"pace_ms,omitempty"`
}

type c20Report struct {
	Src   string   `json:"src"`
	Dst   string   `json:"dst"`
	Ports []string `json:"ports"`
	Tick  int      `json:"tick"`
}

type c20Result struct {
	ID      int         `json:"id"`
	Reports []c20Report `json:"reports"`
	Error   string      `json:"error,omitempty"`
}

func srcIP(s string) net.IP {
	// "s1" -> 10.0.0.11 ...
	n := 0
	fmt.Sscanf(strings.TrimPrefix(s, "s"), "%d", &n)
	return net.IPv4(10, 0, 0, byte(10+n))
}

func c20Frame(p c20Probe, n int) []byte {
	eth := make([]byte, 14)
	copy(eth[0:6], macMe)
	src := srcIP(p.Src)
	if p.Via == "gw" {
		copy(eth[6:12], net.HardwareAddr{0x02, 0, 0, 0, 1, 0xfe})
	} else {
		copy(eth[6:12], net.HardwareAddr{0x02, 0, 0, 0, 1, src[len(src)-1]})
	}
	eth[12], eth[13] = 0x08, 0x00
	var l4 []byte
	proto := byte(6)
	switch p.Proto {
	case "tcp":
		l4 = make([]byte, 20)
		binary.BigEndian.PutUint16(l4[0:2], uint16(30000+n))
		binary.BigEndian.PutUint16(l4[2:4], uint16(p.Port))
		binary.BigEndian.PutUint32(l4[4:8], uint32(7000+n))
		l4[12] = 5 << 4
		l4[13] = 0x02
		binary.BigEndian.PutUint16(l4[14:16], 1024)
	case "udp":
		proto = 17
		l4 = make([]byte, 8+4)
		binary.BigEndian.PutUint16(l4[0:2], uint16(30000+n))
		binary.BigEndian.PutUint16(l4[2:4], uint16(p.Port))
		binary.BigEndian.PutUint16(l4[4:6], uint16(len(l4)))
		copy(l4[8:], "scan")
	default:
		proto = 1
		l4 = make([]byte, 8)
		l4[0] = 8
	}
	ip := make([]byte, 20)
	ip[0] = 0x45
	binary.BigEndian.PutUint16(ip[2:4], uint16(20+len(l4)))
	ip[8] = 64
	ip[9] = proto
	copy(ip[12:16], src.To4())
	copy(ip[16:20], ipMe.To4())
	return append(append(eth, ip...), l4...)
}

func c20Knock(in, out string) error {
	var scs []c20Scenario
	if err := readJSONLines(in, func(line []byte) error {
		var sc c20Scenario
		if err := json.Unmarshal(line, &sc); err != nil {
			return err
		}
		scs = append(scs, sc)
		return nil
	}); err != nil {
		return err
	}
	o, err := newJSONOut(out)
	if err != nil {
		return err
	}
	defer o.Close()
	ctx, cancel := context.WithCancel(context.Background())
	defer cancel()
	peers := []canary.VerifPeer{}
	for i := 1; i <= 9; i++ {
		ip := net.IPv4(10, 0, 0, byte(10+i))
		peers = append(peers, canary.VerifPeer{IP: ip, MAC: net.HardwareAddr{0x02, 0, 0, 0, 1, byte(10 + i)}})
	}
	results := make([]c20Result, len(scs))
	var wg sync.WaitGroup
	start := time.Now()
	for i, sc := range scs {
		i, sc := i, sc
		results[i].ID = sc.ID
		name := fmt.Sprintf("k%d", sc.ID)
		c, _, err := canary.VerifNew(&captureChannel{Name: name}, peers, nil)
		if err != nil {
			results[i].Error = err.Error()
			continue
		}
		c.VerifKnockDetector(ctx)
		wg.Add(1)
		go func() {
			defer wg.Done()
			for n, p := range sc.Probes {
				c.VerifInject(c20Frame(p, n))
				if sc.PaceMs > 0 && n >= sc.FastFirst {
					time.Sleep(time.Duration(sc.PaceMs) * time.Millisecond)
				} else if n%16 == 15 {
					time.Sleep(time.Millisecond)
				}
			}
		}()
	}
	wg.Wait()
	injected := time.Since(start)
	// first quiet period (5 s after the last probe) and a second one for stragglers / double reports
	if c20ShortWait {
		time.Sleep(5500 * time.Millisecond)
	} else {
		time.Sleep(5500*time.Millisecond + injected)
	}
	mark1 := hub.Len()
	time.Sleep(5500 * time.Millisecond)
	byName := map[string]int{}
	for i, sc := range scs {
		byName[fmt.Sprintf("k%d", sc.ID)] = i
	}
	for k, e := range hub.Since(0) {
		if e.Map["category"] != "portscan" {
			continue
		}
		i, ok := byName[e.Chan]
		if !ok {
			continue
		}
		ports, _ := e.Map["portscan.ports"].([]string)
		ps := append([]string{}, ports...)
		sort.Strings(ps)
		tick := 1
		if k >= mark1 {
			tick = 2
		}
		results[i].Reports = append(results[i].Reports, c20Report{
			Src: fmt.Sprint(e.Map["source-ip"]), Dst: fmt.Sprint(e.Map["destination-ip"]), Ports: ps, Tick: tick})
	}
	for _, r := range results {
		o.Put(r)
	}
	return nil
}

// ---- UniqueSet

type usetTrans struct {
	Items   []int  `json:"items"`
	Op      string `json:"op"`
	Arg     []int  `json:"arg"`
	Visited []int  `json:"visited"`
	Items2  []int  `json:"items2"`
}

func usetBuild(items []int, boxes map[int]*int) *canary.UniqueSet {
	us := canary.NewUniqueSet(func(a, b interface{}) bool { return *(a.(*int)) == *(b.(*int)) })
	for _, k := range items {
		us.Add(boxes[k])
	}
	return us
}

func usetItems(us *canary.UniqueSet) []int {
	out := []int{}
	us.Each(func(i int, v interface{}) {
		if v == nil {
			out = append(out, -1)
			return
		}
		out = append(out, *(v.(*int)))
	})
	return out
}

func usetApply(us *canary.UniqueSet, boxes map[int]*int, t usetTrans) (visited []int) {
	visited = []int{}
	switch t.Op {
	case "add":
		r := us.Add(boxes[t.Arg[0]])
		visited = append(visited, *(r.(*int)))
	case "remove":
		if len(t.Arg) == 0 {
			nine := 9
			us.Remove(&nine)
		}
		for _, k := range t.Arg {
			us.Remove(boxes[k])
		}
	case "each":
		rm := map[int]bool{}
		for _, k := range t.Arg {
			rm[k] = true
		}
		us.Each(func(i int, v interface{}) {
			if v == nil {
				visited = append(visited, -1)
				return
			}
			k := *(v.(*int))
			visited = append(visited, k)
			if rm[k] {
				us.Remove(v)
			}
		})
	}
	return visited
}

func eqInts(a, b []int) bool {
	if len(a) != len(b) {
		return false
	}
	for i := range a {
		if a[i] != b[i] {
			return false
		}
	}
	return true
}

func c20USet(in, out string, seqLen int) error {
	var table []usetTrans
	if err := readJSONLines(in, func(line []byte) error {
		var t usetTrans
		if err := json.Unmarshal(line, &t); err != nil {
			return err
		}
		table = append(table, t)
		return nil
	}); err != nil {
		return err
	}
	boxes := map[int]*int{}
	for k := 1; k <= 3; k++ {
		v := k
		boxes[k] = &v
	}
	type key struct{ items, op, arg string }
	idx := map[key]usetTrans{}
	byState := map[string][]usetTrans{}
	var mism []map[string]interface{}
	n := 0
	for _, t := range table {
		idx[key{fmt.Sprint(t.Items), t.Op, fmt.Sprint(t.Arg)}] = t
		byState[fmt.Sprint(t.Items)] = append(byState[fmt.Sprint(t.Items)], t)
		us := usetBuild(t.Items, boxes)
		vis := usetApply(us, boxes, t)
		got := usetItems(us)
		n++
		if !eqInts(vis, t.Visited) && t.Op != "remove" || !eqInts(got, t.Items2) {
			if len(mism) < 50 {
				mism = append(mism, map[string]interface{}{"mode": "transition", "trans": t, "visited": vis, "items": got})
			}
		}
	}
	// all operation sequences up to seqLen from the empty set, the table being the oracle
	seqs := 0
	var rec func(us *canary.UniqueSet, state []int, depth int, path []usetTrans)
	rec = func(us *canary.UniqueSet, state []int, depth int, path []usetTrans) {
		if depth == seqLen {
			return
		}
		for _, t := range byState[fmt.Sprint(state)] {
			// rebuild by replaying the path (operations mutate the set)
			us2 := usetBuild(nil, boxes)
			for _, p := range path {
				usetApply(us2, boxes, p)
			}
			vis := usetApply(us2, boxes, t)
			got := usetItems(us2)
			seqs++
			if !eqInts(vis, t.Visited) && t.Op != "remove" || !eqInts(got, t.Items2) {
				if len(mism) < 50 {
					mism = append(mism, map[string]interface{}{"mode": "sequence", "path": append(append([]usetTrans{}, path...), t), "visited": vis, "items": got})
				}
				continue
			}
			rec(us2, t.Items2, depth+1, append(append([]usetTrans{}, path...), t))
		}
	}
	rec(nil, []int{}, 0, nil)
	o, err := newJSONOut(out)
	if err != nil {
		return err
	}
	defer o.Close()
	o.Put(map[string]interface{}{"transitions": n, "sequences": seqs, "mismatches": mism})
	return nil
}

var c20ShortWait bool

func c20Main(args []string) error {
	fs := flag.NewFlagSet("c20", flag.ExitOnError)
	in := fs.String("in", "", "input ndjson")
	out := fs.String("out", "", "output")
	uset := fs.Bool("uset", false, "UniqueSet transition table mode")
	seqLen := fs.Int("seqlen", 4, "UniqueSet: exhaustive sequences up to this length")
	fs.BoolVar(&c20ShortWait, "shortwait", false, "wait one quiet period (not one plus the injection time) before the first mark")
	fs.Parse(args)
	quietLogs()
	if *uset {
		return c20USet(*in, *out, *seqLen)
	}
	return c20Knock(*in, *out)
}

func init() { register("c20", c20Main) }
