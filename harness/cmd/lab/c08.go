package main

// C08: connections go to the first configured service that accepts them, stream intact.
// Every TLC-generated configuration is rendered as TOML and wired by the REAL server.Run;
// every connection goes through the real accept loop, handle and findService; the stub
// services record that they ran and every byte they read.

import (
	"encoding/hex"
	"encoding/json"
	"flag"
	"fmt"
	"io"
	"net"
	"os"
	"strings"
	"time"
)

type c08Svc struct {
	Name string   `json:"name"`
	Det  []string `json:"det"`
}

type c08Entry struct {
	Proto string   `json:"proto"`
	IP    string   `json:"ip"`
	Port  int      `json:"port"`
	Svcs  []c08Svc `json:"svcs"`
}

type c08Conn struct {
	Proto string   `json:"proto"`
	IP    string   `json:"ip"`
	Port  int      `json:"port"`
	Head  []string `json:"head"`
	Pad   int      `json:"pad"`
	R     int      `json:"r"`
	RS    int      `json:"rs"` // buffer size of the service's first Read
}

type c08Step struct {
	Conn   c08Conn `json:"conn"`
	Chosen string  `json:"chosen"`
	From   int     `json:"from"`
	To     int     `json:"to"`
}

type c08Scenario struct {
	ID    int        `json:"id"`
	Cfg   []c08Entry `json:"cfg"`
	Conns []c08Step  `json:"conns"`
	// Listener "socket": the configuration is served by honeytrap's own socket listener on
	// loopback (model ports are mapped to free ports); the udp connections of the scenario are
	// additionally delivered back to back (Burst rounds), the services reading DelayMs late.
	Listener string     `json:"listener,omitempty"`
	Scheds   []c08Sched `json:"scheds,omitempty"`
	DelayMs  int        `json:"delay_ms,omitempty"`
}

type c08Obs struct {
	Chosen string `json:"chosen"`
	Ran    int    `json:"ran"` // number of services that saw the connection
	Hex    string `json:"hex"`
	Sent   string `json:"sent"`
	Note   string `json:"note,omitempty"`
}

// c08Sched is a delivery schedule generated from Delivery.tla: Order lists indices into Conns
// (udp connections), sent in groups of Inflight back to back before any service reads.
type c08Sched struct {
	Order    []int `json:"order"`
	Inflight int   `json:"inflight"`
}

type c08Result struct {
	ID  int      `json:"id"`
	Obs []c08Obs `json:"obs"`
	// SchedObs[s][k] is the observation of connection Scheds[s].Order[k]
	SchedObs [][]c08Obs `json:"sched_obs,omitempty"`
	Error    string     `json:"error,omitempty"`
}

func c08TOML(cfg []c08Entry) string { return c08TOMLFor(cfg, "verif-mem", nil, 0) }

func c08TOMLFor(cfg []c08Entry, lst string, ports map[int]int, delay int) string {
	var b strings.Builder
	fmt.Fprintf(&b, "[listener]\ntype=%q\n", lst)
	b.WriteString("[channel.cap]\ntype=\"verif-capture\"\nname=\"cap\"\n[[filter]]\nchannel=[\"cap\"]\n")
	seen := map[string]bool{}
	for _, e := range cfg {
		for _, s := range e.Svcs {
			if seen[s.Name] {
				continue
			}
			seen[s.Name] = true
			if len(s.Det) == 0 {
				fmt.Fprintf(&b, "[service.%s]\ntype=\"verif-stub\"\nname=%q\ndelay_ms=%d\n", s.Name, s.Name, delay)
			} else {
				fmt.Fprintf(&b, "[service.%s]\ntype=\"verif-stub-det\"\nname=%q\nprefix=%q\ndelay_ms=%d\n", s.Name, s.Name, strings.Join(s.Det, ""), delay)
			}
		}
	}
	for _, e := range cfg {
		port := e.Port
		if p, ok := ports[port]; ok {
			port = p
		}
		addr := fmt.Sprintf("%s/%d", e.Proto, port)
		if e.IP != "" {
			addr = fmt.Sprintf("%s/%s:%d", e.Proto, e.IP, port)
		}
		names := []string{}
		for _, s := range e.Svcs {
			names = append(names, fmt.Sprintf("%q", s.Name))
		}
		fmt.Fprintf(&b, "[[port]]\nport=%q\nservices=[%s]\n", addr, strings.Join(names, ","))
	}
	return b.String()
}

func c08Payload(c c08Conn) []byte {
	p := []byte(strings.Join(c.Head, ""))
	for i := 0; i < c.Pad; i++ {
		p = append(p, byte('a'+i%26))
	}
	return p
}

var c08Remote = 0

func stubFor(remote string) (recs []stubRecord) { return stubForSince(remote, 0) }

// stubForSince: records of services that saw a connection from `remote`, among those added after
// the first `mark` records (the kernel hands the same ephemeral port to a later socket: without
// the mark a later datagram would be mixed up with an earlier one from the same port)
func stubForSince(remote string, mark int) (recs []stubRecord) {
	all := stubs.snapshot()
	if mark > len(all) {
		mark = len(all)
	}
	for _, r := range all[mark:] {
		if r.Remote == remote {
			recs = append(recs, r)
		}
	}
	return
}

func stubMark() int { return len(stubs.snapshot()) }

func c08RunConn(m *memListener, c c08Conn) c08Obs {
	payload := c08Payload(c)
	c08Remote++
	rsIdx := 0
	for i, z := range stubReadSizes {
		if z == c.RS {
			rsIdx = i
		}
	}
	// the low two bits of the remote port tell the stub how large its first Read is
	rport := 10000 + (c08Remote%12000)*4 + rsIdx
	rip := fmt.Sprintf("198.51.%d.7", 100+(c08Remote/12000)%100)
	obs := c08Obs{Sent: hex.EncodeToString(payload)}
	if c.Proto == "udp" {
		raddr := udpAddr(rip, rport)
		_, fin := sendUDPWait(m, udpAddr(c.IP, c.Port), raddr, payload, 5*time.Second)
		if !fin {
			obs.Note = "handler did not return in 5s"
		}
		recs := stubFor(raddr.String())
		obs.Ran = len(recs)
		obs.Chosen = "none"
		if len(recs) > 0 {
			obs.Chosen = recs[0].Name
			obs.Hex = recs[0].Hex
		}
		return obs
	}
	raddr := tcpAddr(rip, rport)
	cl, err := m.DialTCP(tcpAddr(c.IP, c.Port), raddr)
	if err != nil {
		obs.Note = "dial: " + err.Error()
		return obs
	}
	defer cl.Close()
	closed := make(chan struct{})
	go func() {
		io.Copy(io.Discard, cl)
		close(closed)
	}()
	first := c.R
	if first > len(payload) {
		first = len(payload)
	}
	cl.Write(payload[:first])
	// wait for the routing decision: a stub started, or the server closed the connection
	decided := false
	deadline := time.Now().Add(5 * time.Second)
	for !decided && time.Now().Before(deadline) {
		if len(stubFor(raddr.String())) > 0 {
			decided = true
			break
		}
		select {
		case <-closed:
			decided = true
		case <-time.After(500 * time.Microsecond):
		}
	}
	if !decided {
		obs.Note = "no routing decision within 5s"
	}
	if first < len(payload) {
		cl.Write(payload[first:])
	}
	if tc, ok := cl.(*net.TCPConn); ok {
		tc.CloseWrite()
	}
	// wait until the chosen stub has seen end of stream, or the server closed
	deadline = time.Now().Add(5 * time.Second)
	for time.Now().Before(deadline) {
		recs := stubFor(raddr.String())
		if len(recs) > 0 && recs[0].Done {
			break
		}
		if len(recs) == 0 {
			select {
			case <-closed:
				// closed without any service; give a late stub a moment to show up
				time.Sleep(2 * time.Millisecond)
				if len(stubFor(raddr.String())) == 0 {
					deadline = time.Now()
				}
				continue
			default:
			}
		}
		time.Sleep(500 * time.Microsecond)
	}
	recs := stubFor(raddr.String())
	obs.Ran = len(recs)
	obs.Chosen = "none"
	if len(recs) > 0 {
		obs.Chosen = recs[0].Name
		obs.Hex = recs[0].Hex
		if !recs[0].Done {
			obs.Note = "service did not reach end of stream"
		}
	}
	return obs
}

// ---- delivery through honeytrap's own socket listener

var portCounter = 0

// freePort picks a port below the ephemeral range (client sockets of parallel lab processes
// live there), spread by pid so that parallel shards do not choose the same one.
func freePort() int {
	for {
		portCounter++
		p := 12000 + (os.Getpid()*131+portCounter*7)%20000
		l, err := net.Listen("tcp", fmt.Sprintf(":%d", p))
		if err != nil {
			continue
		}
		l.Close()
		u, err := net.ListenUDP("udp", &net.UDPAddr{Port: p})
		if err != nil {
			continue
		}
		u.Close()
		return p
	}
}

// waitBound waits until the server's socket listener has bound the port (read from /proc/net:
// probing by binding would race with the listener's own bind)
func waitBound(proto string, port int) bool {
	want := fmt.Sprintf(":%04X ", port)
	deadline := time.Now().Add(5 * time.Second)
	for time.Now().Before(deadline) {
		for _, f := range []string{"/proc/net/" + proto, "/proc/net/" + proto + "6"} {
			raw, err := os.ReadFile(f)
			if err != nil {
				continue
			}
			for _, ln := range strings.Split(string(raw), "\n")[1:] {
				fl := strings.Fields(ln)
				if len(fl) < 4 || !strings.HasSuffix(fl[1]+" ", want) {
					continue
				}
				if proto == "udp" || fl[3] == "0A" {
					return true
				}
			}
		}
		time.Sleep(2 * time.Millisecond)
	}
	return false
}

func obsFor(remote string, sent []byte, mark int) c08Obs {
	obs := c08Obs{Sent: hex.EncodeToString(sent), Chosen: "none"}
	recs := stubForSince(remote, mark)
	obs.Ran = len(recs)
	if len(recs) > 0 {
		obs.Chosen = recs[0].Name
		obs.Hex = recs[0].Hex
		if !recs[0].Done {
			obs.Note = "service did not reach end of stream"
		}
	}
	return obs
}

func waitStub(remote string, d time.Duration, mark int) {
	deadline := time.Now().Add(d)
	for time.Now().Before(deadline) {
		recs := stubForSince(remote, mark)
		if len(recs) > 0 && recs[0].Done {
			return
		}
		time.Sleep(500 * time.Microsecond)
	}
}

func c08SocketConn(c c08Conn, port int, quiet time.Duration) c08Obs {
	payload := c08Payload(c)
	mark := stubMark()
	if c.Proto == "udp" {
		u, err := net.DialUDP("udp", nil, &net.UDPAddr{IP: net.IPv4(127, 0, 0, 1), Port: port})
		if err != nil {
			return c08Obs{Note: "dial: " + err.Error()}
		}
		defer u.Close()
		u.Write(payload)
		remote := u.LocalAddr().String()
		waitStub(remote, quiet, mark)
		return obsFor(remote, payload, mark)
	}
	cl, err := net.DialTCP("tcp", nil, &net.TCPAddr{IP: net.IPv4(127, 0, 0, 1), Port: port})
	if err != nil {
		return c08Obs{Note: "dial: " + err.Error()}
	}
	defer cl.Close()
	remote := cl.LocalAddr().String()
	closed := make(chan struct{})
	go func() {
		io.Copy(io.Discard, cl)
		close(closed)
	}()
	first := c.R
	if first > len(payload) {
		first = len(payload)
	}
	cl.Write(payload[:first])
	deadline := time.Now().Add(5 * time.Second)
	for time.Now().Before(deadline) && len(stubForSince(remote, mark)) == 0 {
		select {
		case <-closed:
			deadline = time.Now()
		case <-time.After(500 * time.Microsecond):
		}
	}
	if first < len(payload) {
		cl.Write(payload[first:])
	}
	cl.CloseWrite()
	select {
	case <-closed:
	case <-time.After(quiet):
	}
	waitStub(remote, 20*time.Millisecond, mark)
	if len(stubForSince(remote, mark)) > 0 {
		waitStub(remote, 5*time.Second, mark)
	}
	return obsFor(remote, payload, mark)
}

func c08RunSocket(sc c08Scenario) c08Result {
	var res c08Result
	for try := 0; try < 4; try++ {
		res = c08RunSocketOnce(sc)
		if !strings.HasPrefix(res.Error, "socket listener did not bind") {
			break
		}
	}
	return res
}

func c08RunSocketOnce(sc c08Scenario) c08Result {
	res := c08Result{ID: sc.ID}
	stubs.reset()
	ports := map[int]int{}
	for _, e := range sc.Cfg {
		if _, ok := ports[e.Port]; !ok {
			ports[e.Port] = freePort()
		}
	}
	srv, err := startServerAny(c08TOMLFor(sc.Cfg, "socket", ports, sc.DelayMs))
	if err != nil {
		res.Error = err.Error()
		return res
	}
	defer srv.Stop()
	for _, e := range sc.Cfg {
		if !waitBound(e.Proto, ports[e.Port]) {
			res.Error = fmt.Sprintf("socket listener did not bind %s/%d", e.Proto, ports[e.Port])
			return res
		}
	}
	configured := func(c c08Conn) bool {
		for _, e := range sc.Cfg {
			if e.Proto == c.Proto && e.Port == c.Port {
				return true
			}
		}
		return false
	}
	quiet := time.Duration(sc.DelayMs+150) * time.Millisecond
	for _, st := range sc.Conns {
		if !configured(st.Conn) {
			// nothing listens there: the kernel refuses, honeytrap never sees the connection
			res.Obs = append(res.Obs, c08Obs{Chosen: "none", Note: "skipped"})
			continue
		}
		res.Obs = append(res.Obs, c08SocketConn(st.Conn, ports[st.Conn.Port], quiet))
	}
	for _, sd := range sc.Scheds {
		obs := make([]c08Obs, len(sd.Order))
		for at := 0; at < len(sd.Order); at += sd.Inflight {
			end := at + sd.Inflight
			if end > len(sd.Order) {
				end = len(sd.Order)
			}
			// one socket per datagram; the whole group is sent before any of it is awaited
			mark := stubMark()
			socks := make([]*net.UDPConn, end-at)
			for k := range socks {
				c := sc.Conns[sd.Order[at+k]].Conn
				u, err := net.DialUDP("udp", nil, &net.UDPAddr{IP: net.IPv4(127, 0, 0, 1), Port: ports[c.Port]})
				if err != nil {
					res.Error = err.Error()
					return res
				}
				socks[k] = u
			}
			for k, u := range socks {
				u.Write(c08Payload(sc.Conns[sd.Order[at+k]].Conn))
			}
			for _, u := range socks {
				waitStub(u.LocalAddr().String(), quiet, mark)
			}
			for k, u := range socks {
				obs[at+k] = obsFor(u.LocalAddr().String(), c08Payload(sc.Conns[sd.Order[at+k]].Conn), mark)
				u.Close()
			}
		}
		res.SchedObs = append(res.SchedObs, obs)
	}
	return res
}

func c08RunScenario(sc c08Scenario) c08Result {
	if sc.Listener == "socket" {
		return c08RunSocket(sc)
	}
	res := c08Result{ID: sc.ID}
	stubs.reset()
	srv, err := startServer(c08TOML(sc.Cfg))
	if err != nil {
		res.Error = err.Error()
		return res
	}
	defer srv.Stop()
	for _, st := range sc.Conns {
		res.Obs = append(res.Obs, c08RunConn(srv.mem, st.Conn))
	}
	return res
}

func c08Main(args []string) error {
	fs := flag.NewFlagSet("c08", flag.ExitOnError)
	in := fs.String("in", "", "scenario ndjson (from TLC)")
	out := fs.String("out", "", "result ndjson")
	fs.Parse(args)
	quietLogs()
	defer cleanupScratch()
	o, err := newJSONOut(*out)
	if err != nil {
		return err
	}
	defer o.Close()
	return readJSONLines(*in, func(line []byte) error {
		var sc c08Scenario
		if err := json.Unmarshal(line, &sc); err != nil {
			return err
		}
		o.Put(c08RunScenario(sc))
		return nil
	})
}

func init() { register("c08", c08Main) }
