package main

// C08: connections go to the first configured service that accepts them, stream intact.
// Every TLC-generated configuration is rendered as TOML and wired by the REAL server.Run;
// every connection goes through the real accept loop, handle and findService; the stub
// services record that they ran and every byte they read.

import (
	"encoding/hex"
	"encoding/json"
	"flag"
	"fmt"
	"io"
	"net"
	"strings"
	"time"
)

type c08Svc struct {
	Name string   `json:"name"`
	Det  []string `json:"det"`
}

type c08Entry struct {
	Proto string   `json:"proto"`
	IP    string   `json:"ip"`
	Port  int      `json:"port"`
	Svcs  []c08Svc `json:"svcs"`
}

type c08Conn struct {
	Proto string   `json:"proto"`
	IP    string   `json:"ip"`
	Port  int      `json:"port"`
	Head  []string `json:"head"`
	Pad   int      `json:"pad"`
	R     int      `json:"r"`
}

type c08Step struct {
	Conn   c08Conn `json:"conn"`
	Chosen string  `json:"chosen"`
	From   int     `json:"from"`
	To     int     `json:"to"`
}

type c08Scenario struct {
	ID    int        `json:"id"`
	Cfg   []c08Entry `json:"cfg"`
	Conns []c08Step  `json:"conns"`
}

type c08Obs struct {
	Chosen string `json:"chosen"`
	Ran    int    `json:"ran"` // number of services that saw the connection
	Hex    string `json:"hex"`
	Sent   string `json:"sent"`
	Note   string `json:"note,omitempty"`
}

type c08Result struct {
	ID    int      `json:"id"`
	Obs   []c08Obs `json:"obs"`
	Error string   `json:"error,omitempty"`
}

func c08TOML(cfg []c08Entry) string {
	var b strings.Builder
	b.WriteString("[listener]\ntype=\"verif-mem\"\n[channel.cap]\ntype=\"verif-capture\"\nname=\"cap\"\n[[filter]]\nchannel=[\"cap\"]\n")
	seen := map[string]bool{}
	for _, e := range cfg {
		for _, s := range e.Svcs {
			if seen[s.Name] {
				continue
			}
			seen[s.Name] = true
			if len(s.Det) == 0 {
				fmt.Fprintf(&b, "[service.%s]\ntype=\"verif-stub\"\nname=%q\n", s.Name, s.Name)
			} else {
				fmt.Fprintf(&b, "[service.%s]\ntype=\"verif-stub-det\"\nname=%q\nprefix=%q\n", s.Name, s.Name, strings.Join(s.Det, ""))
			}
		}
	}
	for _, e := range cfg {
		addr := fmt.Sprintf("%s/%d", e.Proto, e.Port)
		if e.IP != "" {
			addr = fmt.Sprintf("%s/%s:%d", e.Proto, e.IP, e.Port)
		}
		names := []string{}
		for _, s := range e.Svcs {
			names = append(names, fmt.Sprintf("%q", s.Name))
		}
		fmt.Fprintf(&b, "[[port]]\nport=%q\nservices=[%s]\n", addr, strings.Join(names, ","))
	}
	return b.String()
}

func c08Payload(c c08Conn) []byte {
	p := []byte(strings.Join(c.Head, ""))
	for i := 0; i < c.Pad; i++ {
		p = append(p, byte('a'+i%26))
	}
	return p
}

var c08Remote = 0

func stubFor(remote string) (recs []stubRecord) {
	for _, r := range stubs.snapshot() {
		if r.Remote == remote {
			recs = append(recs, r)
		}
	}
	return
}

func c08RunConn(m *memListener, c c08Conn) c08Obs {
	payload := c08Payload(c)
	c08Remote++
	rport := 10000 + c08Remote%50000
	rip := fmt.Sprintf("198.51.%d.7", 100+(c08Remote/50000)%100)
	obs := c08Obs{Sent: hex.EncodeToString(payload)}
	if c.Proto == "udp" {
		raddr := udpAddr(rip, rport)
		_, fin := sendUDPWait(m, udpAddr(c.IP, c.Port), raddr, payload, 5*time.Second)
		if !fin {
			obs.Note = "handler did not return in 5s"
		}
		recs := stubFor(raddr.String())
		obs.Ran = len(recs)
		obs.Chosen = "none"
		if len(recs) > 0 {
			obs.Chosen = recs[0].Name
			obs.Hex = recs[0].Hex
		}
		return obs
	}
	raddr := tcpAddr(rip, rport)
	cl, err := m.DialTCP(tcpAddr(c.IP, c.Port), raddr)
	if err != nil {
		obs.Note = "dial: " + err.Error()
		return obs
	}
	defer cl.Close()
	closed := make(chan struct{})
	go func() {
		io.Copy(io.Discard, cl)
		close(closed)
	}()
	first := c.R
	if first > len(payload) {
		first = len(payload)
	}
	cl.Write(payload[:first])
	// wait for the routing decision: a stub started, or the server closed the connection
	decided := false
	deadline := time.Now().Add(5 * time.Second)
	for !decided && time.Now().Before(deadline) {
		if len(stubFor(raddr.String())) > 0 {
			decided = true
			break
		}
		select {
		case <-closed:
			decided = true
		case <-time.After(500 * time.Microsecond):
		}
	}
	if !decided {
		obs.Note = "no routing decision within 5s"
	}
	if first < len(payload) {
		cl.Write(payload[first:])
	}
	if tc, ok := cl.(*net.TCPConn); ok {
		tc.CloseWrite()
	}
	// wait until the chosen stub has seen end of stream, or the server closed
	deadline = time.Now().Add(5 * time.Second)
	for time.Now().Before(deadline) {
		recs := stubFor(raddr.String())
		if len(recs) > 0 && recs[0].Done {
			break
		}
		if len(recs) == 0 {
			select {
			case <-closed:
				// closed without any service; give a late stub a moment to show up
				time.Sleep(2 * time.Millisecond)
				if len(stubFor(raddr.String())) == 0 {
					deadline = time.Now()
				}
				continue
			default:
			}
		}
		time.Sleep(500 * time.Microsecond)
	}
	recs := stubFor(raddr.String())
	obs.Ran = len(recs)
	obs.Chosen = "none"
	if len(recs) > 0 {
		obs.Chosen = recs[0].Name
		obs.Hex = recs[0].Hex
		if !recs[0].Done {
			obs.Note = "service did not reach end of stream"
		}
	}
	return obs
}

func c08RunScenario(sc c08Scenario) c08Result {
	res := c08Result{ID: sc.ID}
	stubs.reset()
	srv, err := startServer(c08TOML(sc.Cfg))
	if err != nil {
		res.Error = err.Error()
		return res
	}
	defer srv.Stop()
	for _, st := range sc.Conns {
		res.Obs = append(res.Obs, c08RunConn(srv.mem, st.Conn))
	}
	return res
}

func c08Main(args []string) error {
	fs := flag.NewFlagSet("c08", flag.ExitOnError)
	in := fs.String("in", "", "scenario ndjson (from TLC)")
	out := fs.String("out", "", "result ndjson")
	fs.Parse(args)
	quietLogs()
	defer cleanupScratch()
	o, err := newJSONOut(*out)
	if err != nil {
		return err
	}
	defer o.Close()
	return readJSONLines(*in, func(line []byte) error {
		var sc c08Scenario
		if err := json.Unmarshal(line, &sc); err != nil {
			return err
		}
		o.Put(c08RunScenario(sc))
		return nil
	})
}

func init() { register("c08", c08Main) }
