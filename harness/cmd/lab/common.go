package main

// Common fixtures: an in-memory listener, a capturing channel and stub services that
// are plugged into the REAL honeytrap server through its public registries, so that
// server.New + Run, findService, handle, the bus/filter wiring and the real services
// are what is exercised.

import (
	"bufio"
	"bytes"
	"context"
	"encoding/hex"
	"encoding/json"
	"fmt"
	"io"
	"io/ioutil"
	"net"
	"os"
	"path/filepath"
	"sort"
	"strconv"
	"strings"
	"sync"
	"time"

	"github.com/honeytrap/honeytrap/config"
	"github.com/honeytrap/honeytrap/event"
	"github.com/honeytrap/honeytrap/listener"
	"github.com/honeytrap/honeytrap/pushers"
	"github.com/honeytrap/honeytrap/server"
	"github.com/honeytrap/honeytrap/services"
)

// ---------------------------------------------------------------- mem listener

type memListener struct {
	mu      sync.Mutex
	addrs   []net.Addr
	ch      chan net.Conn
	started chan struct{}
	inner   net.Listener
}

var (
	memMu   sync.Mutex
	curMem  *memListener
	memOnce sync.Once
)

func newMemListener(options ...func(listener.Listener) error) (listener.Listener, error) {
	l := &memListener{ch: make(chan net.Conn, 1024), started: make(chan struct{})}
	for _, o := range options {
		o(l)
	}
	memMu.Lock()
	curMem = l
	memMu.Unlock()
	return l, nil
}

func (l *memListener) AddAddress(a net.Addr) {
	l.mu.Lock()
	l.addrs = append(l.addrs, a)
	l.mu.Unlock()
}

func (l *memListener) Addresses() []net.Addr {
	l.mu.Lock()
	defer l.mu.Unlock()
	return append([]net.Addr{}, l.addrs...)
}

func (l *memListener) Start(ctx context.Context) error {
	in, err := net.Listen("tcp", "127.0.0.1:0")
	if err != nil {
		return err
	}
	l.inner = in
	close(l.started)
	go func() {
		<-ctx.Done()
		in.Close()
	}()
	return nil
}

func (l *memListener) Accept() (net.Conn, error) {
	c, ok := <-l.ch
	if !ok {
		// never return an error: the accept goroutine of Run panics on error
		select {}
	}
	return c, nil
}

// addrConn is a real loopback TCP connection presenting chosen addresses.
type addrConn struct {
	net.Conn
	l, r net.Addr
}

func (c *addrConn) LocalAddr() net.Addr  { return c.l }
func (c *addrConn) RemoteAddr() net.Addr { return c.r }

// DialTCP opens a connection whose server side reports (laddr, raddr); the server side
// is handed to honeytrap's accept loop, the client side is returned.
func (l *memListener) DialTCP(laddr, raddr net.Addr) (net.Conn, error) {
	// one dial at a time: the accepted socket must be the peer of the socket dialled here
	dialMu.Lock()
	defer dialMu.Unlock()
	type res struct {
		c   net.Conn
		err error
	}
	acc := make(chan res, 1)
	go func() {
		c, err := l.inner.Accept()
		acc <- res{c, err}
	}()
	cl, err := net.Dial("tcp", l.inner.Addr().String())
	if err != nil {
		return nil, err
	}
	r := <-acc
	if r.err != nil {
		cl.Close()
		return nil, r.err
	}
	l.ch <- &addrConn{Conn: r.c, l: laddr, r: raddr}
	return cl, nil
}

var dialMu sync.Mutex

// SendUDP hands one datagram to the server the way the socket listener does
// (listener.DummyUDPConn); replies are passed to fn.
func (l *memListener) SendUDP(laddr net.Addr, raddr *net.UDPAddr, payload []byte, fn func([]byte)) {
	l.ch <- &listener.DummyUDPConn{
		Buffer: append([]byte{}, payload...),
		Laddr:  laddr,
		Raddr:  raddr,
		Fn: func(b []byte, addr *net.UDPAddr) (int, error) {
			if fn != nil {
				fn(append([]byte{}, b...))
			}
			return len(b), nil
		},
	}
}

// ---------------------------------------------------------------- capture channel

type capEvent struct {
	Seq     int64                  `json:"seq"`
	Chan    string                 `json:"chan"`
	Map     map[string]interface{} `json:"map"`
	JSONErr string                 `json:"json_err,omitempty"`
	JSONKey []string               `json:"json_keys,omitempty"`
	raw     event.Event
}

type captureHub struct {
	mu     sync.Mutex
	seq    int64
	events []capEvent
	cond   *sync.Cond
}

var hub = func() *captureHub { h := &captureHub{}; h.cond = sync.NewCond(&h.mu); return h }()

type captureChannel struct {
	Name string `toml:"name"`
}

func newCapture(options ...func(pushers.Channel) error) (pushers.Channel, error) {
	c := &captureChannel{}
	for _, o := range options {
		if err := o(c); err != nil {
			return nil, err
		}
	}
	return c, nil
}

func (c *captureChannel) Send(e event.Event) {
	m := map[string]interface{}{}
	e.Range(func(k, v interface{}) bool {
		if ks, ok := k.(string); ok {
			m[ks] = v
		}
		return true
	})
	ce := capEvent{Chan: c.Name, Map: m, raw: e}
	// serialise exactly as the file/kafka/... channels do
	if b, err := json.Marshal(e); err != nil {
		ce.JSONErr = err.Error()
	} else {
		var back map[string]interface{}
		if err := json.Unmarshal(b, &back); err != nil {
			ce.JSONErr = "reparse: " + err.Error()
		} else {
			for k := range back {
				ce.JSONKey = append(ce.JSONKey, k)
			}
			sort.Strings(ce.JSONKey)
		}
	}
	hub.mu.Lock()
	hub.seq++
	ce.Seq = hub.seq
	hub.events = append(hub.events, ce)
	hub.cond.Broadcast()
	hub.mu.Unlock()
}

func (h *captureHub) Len() int {
	h.mu.Lock()
	defer h.mu.Unlock()
	return len(h.events)
}

func (h *captureHub) Since(n int) []capEvent {
	h.mu.Lock()
	defer h.mu.Unlock()
	if n > len(h.events) {
		n = len(h.events)
	}
	return append([]capEvent{}, h.events[n:]...)
}

func (h *captureHub) Reset() {
	h.mu.Lock()
	h.events = nil
	h.mu.Unlock()
}

// WaitQuiet waits until no new event has arrived for `quiet`, at most `max`.
func (h *captureHub) WaitQuiet(quiet, max time.Duration) {
	deadline := time.Now().Add(max)
	last := h.Len()
	lastChange := time.Now()
	for time.Now().Before(deadline) {
		time.Sleep(quiet / 4)
		n := h.Len()
		if n != last {
			last = n
			lastChange = time.Now()
		} else if time.Since(lastChange) >= quiet {
			return
		}
	}
}

// WaitFor waits until pred(events since n) holds or the timeout passes.
func (h *captureHub) WaitFor(n int, timeout time.Duration, pred func([]capEvent) bool) bool {
	deadline := time.Now().Add(timeout)
	for {
		if pred(h.Since(n)) {
			return true
		}
		if time.Now().After(deadline) {
			return false
		}
		time.Sleep(2 * time.Millisecond)
	}
}

// ---------------------------------------------------------------- stub services

// stubService records that it ran and every byte it read until EOF / error.
type stubRecord struct {
	Name   string `json:"name"`
	Remote string `json:"remote"`
	Local  string `json:"local"`
	Hex    string `json:"hex"`
	Done   bool   `json:"done"`
}

type stubHub struct {
	mu   sync.Mutex
	recs []*stubRecord
}

var stubs = &stubHub{}

func (s *stubHub) add(r *stubRecord) {
	s.mu.Lock()
	s.recs = append(s.recs, r)
	s.mu.Unlock()
}

func (s *stubHub) snapshot() []stubRecord {
	s.mu.Lock()
	defer s.mu.Unlock()
	out := make([]stubRecord, len(s.recs))
	for i, r := range s.recs {
		out[i] = *r
	}
	return out
}

func (s *stubHub) reset() {
	s.mu.Lock()
	s.recs = nil
	s.mu.Unlock()
}

type stubService struct {
	Name    string `toml:"name"`
	Reply   string `toml:"reply"`
	DelayMs int    `toml:"delay_ms"` // a service that starts reading a little late
	PanicOn string `toml:"panic_on"` // the handler panics when it has read this text (the server recovers)
	ch      pushers.Channel
}

func (s *stubService) SetChannel(c pushers.Channel) { s.ch = c }

func (s *stubService) Handle(ctx context.Context, conn net.Conn) error {
	rec := &stubRecord{Name: s.Name, Remote: conn.RemoteAddr().String(), Local: conn.LocalAddr().String()}
	stubs.add(rec)
	if s.DelayMs > 0 {
		time.Sleep(time.Duration(s.DelayMs) * time.Millisecond)
	}
	if s.Reply != "" {
		conn.Write([]byte(s.Reply))
	}
	buf := make([]byte, 4096)
	var all []byte
	zero := 0
	first := stubFirstRead(conn.RemoteAddr())
	for {
		b := buf
		if first > 0 {
			// the size of a service's first Read is part of the scenario (C08: a reader with a small buffer)
			b, first = buf[:first], 0
		}
		n, err := conn.Read(b)
		all = append(all, b[:n]...)
		if s.PanicOn != "" && bytes.Contains(all, []byte(s.PanicOn)) {
			panic("verif-stub: panic on demand")
		}
		stubs.mu.Lock()
		rec.Hex = hex.EncodeToString(all)
		stubs.mu.Unlock()
		if err != nil {
			break
		}
		if n == 0 {
			zero++
			if zero > 3 {
				break
			}
		}
	}
	stubs.mu.Lock()
	rec.Done = true
	stubs.mu.Unlock()
	return nil
}

// stubFirstRead: connections from 198.51.x.7 (the C08 driver) carry the buffer size of the service's
// first Read in the low two bits of their remote port
var stubReadSizes = []int{4096, 1, 3, 700}

func stubFirstRead(a net.Addr) int {
	host, port, err := net.SplitHostPort(a.String())
	if err != nil || !strings.HasPrefix(host, "198.51.") || !strings.HasSuffix(host, ".7") {
		return 0
	}
	p, _ := strconv.Atoi(port)
	return stubReadSizes[p%4]
}

// stubDetService additionally has a payload detector: a prefix predicate.
type stubDetService struct {
	stubService
	Prefix string `toml:"prefix"`
}

func (s *stubDetService) CanHandle(b []byte) bool {
	return bytes.HasPrefix(b, []byte(s.Prefix))
}

// emitService puts scripted events on the bus: each line the client sends is a JSON
// object {"category":..,"service":..,...}; values given as {"$int": n} are stored as int.
type emitService struct {
	ch pushers.Channel
}

func (s *emitService) SetChannel(c pushers.Channel) { s.ch = c }

func (s *emitService) Handle(ctx context.Context, conn net.Conn) error {
	r := bufio.NewReader(conn)
	for {
		line, err := r.ReadBytes('\n')
		if len(bytes.TrimSpace(line)) > 0 {
			var m map[string]interface{}
			if jerr := json.Unmarshal(line, &m); jerr == nil {
				opts := []event.Option{}
				for k, v := range m {
					if mm, ok := v.(map[string]interface{}); ok {
						if iv, ok := mm["$int"]; ok {
							opts = append(opts, event.Custom(k, int(iv.(float64))))
							continue
						}
					}
					opts = append(opts, event.Custom(k, v))
				}
				s.ch.Send(event.New(opts...))
			}
			conn.Write([]byte("ok\n"))
		}
		if err != nil {
			return nil
		}
	}
}

func init() {
	listener.Register("verif-mem", newMemListener)
	pushers.Register("verif-capture", newCapture)
	services.Register("verif-stub", func(options ...services.ServicerFunc) services.Servicer {
		s := &stubService{}
		for _, o := range options {
			o(s)
		}
		return s
	})
	services.Register("verif-stub-det", func(options ...services.ServicerFunc) services.Servicer {
		s := &stubDetService{}
		for _, o := range options {
			o(s)
		}
		return s
	})
	services.Register("verif-emit", func(options ...services.ServicerFunc) services.Servicer {
		s := &emitService{}
		for _, o := range options {
			o(s)
		}
		return s
	})
}

// ---------------------------------------------------------------- server

type labServer struct {
	mem    *memListener
	cancel context.CancelFunc
	ht     *server.Honeytrap
}

var (
	dataDirOnce sync.Once
	labDataDir  string
	// labDataOverride, when set, is the data directory handed to the server (C18: it must
	// persist across processes)
	labDataOverride string
)

func dataDirFor(scratch string) string {
	if labDataOverride != "" {
		return labDataOverride
	}
	return filepath.Join(scratch, "data")
}

// scratchDir returns a per-process scratch directory (removed by cleanupScratch).
func scratchDir() string {
	dataDirOnce.Do(func() {
		base := os.Getenv("VERIF_SCRATCH")
		if base == "" {
			base = os.TempDir()
		}
		d, err := ioutil.TempDir(base, "lab-")
		if err != nil {
			panic(err)
		}
		labDataDir = d
	})
	return labDataDir
}

func cleanupScratch() {
	if labDataDir != "" {
		os.RemoveAll(labDataDir)
	}
}

// startServer runs the real server in-process with the given TOML configuration.
func startServer(toml string) (*labServer, error) {
	dir := scratchDir()
	cfgPath := filepath.Join(dir, fmt.Sprintf("config-%d.toml", time.Now().UnixNano()))
	if err := ioutil.WriteFile(cfgPath, []byte(toml), 0600); err != nil {
		return nil, err
	}
	defer os.Remove(cfgPath)
	config.Default = config.Config{}
	memMu.Lock()
	curMem = nil
	memMu.Unlock()

	cfgOpt, err := server.WithConfig(cfgPath)
	if err != nil {
		return nil, err
	}
	ddOpt, err := server.WithDataDir(dataDirFor(dir))
	if err != nil {
		return nil, err
	}
	ht, err := server.New(cfgOpt, ddOpt, server.WithToken())
	if err != nil {
		return nil, err
	}
	ctx, cancel := context.WithCancel(context.Background())
	go ht.Run(ctx)
	deadline := time.Now().Add(60 * time.Second)
	for {
		memMu.Lock()
		m := curMem
		memMu.Unlock()
		if m != nil {
			select {
			case <-m.started:
				return &labServer{mem: m, cancel: cancel, ht: ht}, nil
			default:
			}
		}
		if time.Now().After(deadline) {
			cancel()
			return nil, fmt.Errorf("server did not start its listener")
		}
		time.Sleep(time.Millisecond)
	}
}

func (s *labServer) Stop() { s.cancel() }

// startServerAny runs the real server with a configuration that uses one of honeytrap's own
// listeners (socket, agent): there is no in-memory listener to wait for.
func startServerAny(toml string) (*labServer, error) {
	dir := scratchDir()
	cfgPath := filepath.Join(dir, fmt.Sprintf("config-%d.toml", time.Now().UnixNano()))
	if err := ioutil.WriteFile(cfgPath, []byte(toml), 0600); err != nil {
		return nil, err
	}
	defer os.Remove(cfgPath)
	config.Default = config.Config{}
	cfgOpt, err := server.WithConfig(cfgPath)
	if err != nil {
		return nil, err
	}
	ddOpt, err := server.WithDataDir(dataDirFor(dir))
	if err != nil {
		return nil, err
	}
	ht, err := server.New(cfgOpt, ddOpt, server.WithToken())
	if err != nil {
		return nil, err
	}
	ctx, cancel := context.WithCancel(context.Background())
	go ht.Run(ctx)
	return &labServer{cancel: cancel, ht: ht}, nil
}

// ---------------------------------------------------------------- helpers

func tcpAddr(ip string, port int) *net.TCPAddr {
	return &net.TCPAddr{IP: net.ParseIP(ip), Port: port}
}

func udpAddr(ip string, port int) *net.UDPAddr {
	return &net.UDPAddr{IP: net.ParseIP(ip), Port: port}
}

func readJSONLines(path string, fn func(line []byte) error) error {
	f, err := os.Open(path)
	if err != nil {
		return err
	}
	defer f.Close()
	r := bufio.NewReaderSize(f, 1<<20)
	for {
		line, err := r.ReadBytes('\n')
		if len(bytes.TrimSpace(line)) > 0 {
			if e := fn(line); e != nil {
				return e
			}
		}
		if err == io.EOF {
			return nil
		}
		if err != nil {
			return err
		}
	}
}

type jsonOut struct {
	mu sync.Mutex
	w  *bufio.Writer
	f  *os.File
}

func newJSONOut(path string) (*jsonOut, error) {
	f, err := os.Create(path)
	if err != nil {
		return nil, err
	}
	return &jsonOut{w: bufio.NewWriterSize(f, 1<<20), f: f}, nil
}

func (o *jsonOut) Put(v interface{}) {
	b, err := json.Marshal(v)
	if err != nil {
		panic(err)
	}
	o.mu.Lock()
	o.w.Write(b)
	o.w.WriteByte('\n')
	o.mu.Unlock()
}

func (o *jsonOut) Close() {
	o.mu.Lock()
	o.w.Flush()
	o.f.Close()
	o.mu.Unlock()
}

// silenceStdout points fd 1 at /dev/null: honeytrap prints banners there.
func quietLogs() {
	// honeytrap's config.Load installs log backends only if configured; by default
	// go-logging writes to stderr. Leave stderr alone (diagnostics), drop stdout noise.
	if os.Getenv("VERIF_LAB_VERBOSE") == "" {
		devnull, err := os.OpenFile(os.DevNull, os.O_WRONLY, 0)
		if err == nil {
			os.Stdout = devnull
		}
	}
}
