package main

// C05: payloads are byte-exact and events serialise.
//  -table: one implementation test per transition (store, option) of Event.tla on the real
//          event package: ToMap and json.Marshal of the real event vs the model's store.
//  -flat : event.Payload over all 1- and 2-byte strings and seeded long ones, addresses of
//          every kind; logged for Event_Trace.

import (
	"encoding/json"
	"flag"
	"fmt"
	"math/rand"
	"net"
	"sort"

	"github.com/honeytrap/honeytrap/event"
)

type c05Val struct {
	T string `json:"t"`
	S string `json:"s"`
	I int    `json:"i"`
}

type c05Addr struct {
	Net  string `json:"net"`
	IP   string `json:"ip"`
	Port int    `json:"port"`
}

type c05Op struct {
	O string            `json:"o"`
	K string            `json:"k"`
	V c05Val            `json:"v"`
	B []int             `json:"b"`
	A c05Addr           `json:"a"`
	M map[string]c05Val `json:"m"`
}

type c05Trans struct {
	KV  map[string]c05Val `json:"kv"`
	Op  c05Op             `json:"op"`
	KV2 map[string]c05Val `json:"kv2"`
}

func (v c05Val) goVal() interface{} {
	if v.T == "i" {
		return v.I
	}
	return v.S
}

func (a c05Addr) netAddr() net.Addr {
	switch a.Net {
	case "tcp":
		return &net.TCPAddr{IP: net.ParseIP(a.IP), Port: a.Port}
	case "udp":
		return &net.UDPAddr{IP: net.ParseIP(a.IP), Port: a.Port}
	}
	return &net.UnixAddr{Name: a.IP, Net: "unix"}
}

func c05Table(in string, o *jsonOut) error {
	n := 0
	rawDrift := 0
	var mism []map[string]interface{}
	err := readJSONLines(in, func(line []byte) error {
		var t c05Trans
		// TLC prints the empty function as []: tolerate
		var raw struct {
			KV  json.RawMessage `json:"kv"`
			Op  c05Op           `json:"op"`
			KV2 json.RawMessage `json:"kv2"`
		}
		if err := json.Unmarshal(line, &raw); err != nil {
			return err
		}
		t.Op = raw.Op
		t.KV, t.KV2 = map[string]c05Val{}, map[string]c05Val{}
		if len(raw.KV) > 0 && raw.KV[0] == '{' {
			json.Unmarshal(raw.KV, &t.KV)
		}
		if len(raw.KV2) > 0 && raw.KV2[0] == '{' {
			json.Unmarshal(raw.KV2, &t.KV2)
		}
		n++
		e := event.New()
		keys := []string{}
		for k := range t.KV {
			keys = append(keys, k)
		}
		sort.Strings(keys)
		for _, k := range keys {
			event.Custom(k, t.KV[k].goVal())(e)
		}
		var opt event.Option
		var rawPayload []byte
		switch t.Op.O {
		case "custom":
			opt = event.Custom(t.Op.K, t.Op.V.goVal())
		case "payload":
			rawPayload = bufBytes(t.Op.B)
			opt = event.Payload(rawPayload)
		case "source":
			opt = event.SourceAddr(t.Op.A.netAddr())
		case "destination":
			opt = event.DestinationAddr(t.Op.A.netAddr())
		case "merge", "copy":
			m := map[string]interface{}{}
			for k, v := range t.Op.M {
				m[k] = v.goVal()
			}
			if t.Op.O == "merge" {
				opt = event.MergeFrom(m)
			} else {
				opt = event.CopyFrom(m)
			}
		default:
			return fmt.Errorf("unknown option %q", t.Op.O)
		}
		event.Apply(e, opt)
		got := event.ToMap(e)
		delete(got, "date")
		problem := ""
		// the raw text field is not part of the property (hex and length are): a difference is drift
		if t.Op.O == "payload" {
			if s, ok := got["payload"].(string); !ok || s != string(rawPayload) {
				rawDrift++
			}
		}
		delete(got, "payload")
		if problem == "" {
			if len(got) != len(t.KV2) {
				problem = fmt.Sprintf("keys differ: real %v", keysOf(got))
			}
			for k, v := range t.KV2 {
				if gv, ok := got[k]; !ok || gv != v.goVal() {
					problem = fmt.Sprintf("key %q: real %#v, spec %#v", k, gv, v.goVal())
					break
				}
			}
		}
		if problem == "" {
			b, err := json.Marshal(e)
			if err != nil {
				problem = "json.Marshal: " + err.Error()
			} else {
				var back map[string]interface{}
				if err := json.Unmarshal(b, &back); err != nil {
					problem = "serialised event does not parse: " + err.Error()
				} else {
					for k := range t.KV2 {
						if _, ok := back[k]; !ok {
							problem = fmt.Sprintf("JSON lacks key %q", k)
						}
					}
				}
			}
		}
		if problem != "" && len(mism) < 50 {
			mism = append(mism, map[string]interface{}{"trans": json.RawMessage(append([]byte{}, line...)), "op": t.Op.O, "problem": problem})
		}
		return nil
	})
	if err != nil {
		return err
	}
	o.Put(map[string]interface{}{"transitions": n, "mismatches": mism, "raw_text_differs": rawDrift})
	return nil
}

func keysOf(m map[string]interface{}) []string {
	ks := []string{}
	for k := range m {
		ks = append(ks, k)
	}
	sort.Strings(ks)
	return ks
}

func c05Flat(o *jsonOut, seed int64, longN int, maxLong int) {
	emitPayload := func(b []byte) {
		e := event.New(event.Payload(b))
		m := event.ToMap(e)
		hexs, _ := m["payload-hex"].(string)
		length, _ := m["payload-length"].(int)
		rawOK := m["payload"] == string(b)
		_, jerr := json.Marshal(e)
		ints := make([]int, len(b))
		for i, x := range b {
			ints[i] = int(x)
		}
		if len(b) <= 32 {
			o.Put(map[string]interface{}{"k": "payload", "bytes": ints, "hex": hexs, "length": length, "raw_ok": rawOK, "json_ok": jerr == nil})
			return
		}
		// long payloads: aligned chunks of 32 bytes / 64 hex digits, then the total
		ok := len(hexs) == 2*len(b)
		for i := 0; i < len(b) && ok; i += 32 {
			j := i + 32
			if j > len(b) {
				j = len(b)
			}
			o.Put(map[string]interface{}{"k": "chunk", "bytes": ints[i:j], "hex": hexs[2*i : 2*j]})
		}
		o.Put(map[string]interface{}{"k": "total", "n": len(b), "length": length, "hexlen": len(hexs), "raw_ok": rawOK, "json_ok": jerr == nil})
	}
	emitPayload([]byte{})
	for a := 0; a < 256; a++ {
		emitPayload([]byte{byte(a)})
	}
	for a := 0; a < 256; a++ {
		for b := 0; b < 256; b++ {
			emitPayload([]byte{byte(a), byte(b)})
		}
	}
	rng := rand.New(rand.NewSource(seed))
	for i := 0; i < longN; i++ {
		n := 3 + rng.Intn(maxLong)
		b := make([]byte, n)
		rng.Read(b)
		emitPayload(b)
	}
	for _, netw := range []string{"tcp", "udp", "other"} {
		for _, ip := range []string{"10.0.0.1", "255.255.255.255", "::1", "2001:db8::1"} {
			for _, port := range []int{0, 1, 80, 65535} {
				a := c05Addr{netw, ip, port}
				e := event.New(event.SourceAddr(a.netAddr()), event.DestinationAddr(a.netAddr()))
				m := event.ToMap(e)
				row := map[string]interface{}{"k": "addr", "net": netw, "ip": ip, "port": port,
					"has": m["source-ip"] != nil || m["source-port"] != nil || m["destination-ip"] != nil || m["destination-port"] != nil}
				if s, ok := m["source-ip"].(string); ok {
					row["sip"] = s
				} else {
					row["sip"] = ""
				}
				if s, ok := m["destination-ip"].(string); ok {
					row["dip"] = s
				} else {
					row["dip"] = ""
				}
				if p, ok := m["source-port"].(int); ok {
					row["sport"] = p
				} else {
					row["sport"] = -1
				}
				if p, ok := m["destination-port"].(int); ok {
					row["dport"] = p
				} else {
					row["dport"] = -1
				}
				o.Put(row)
			}
		}
	}
}

func c05Main(args []string) error {
	fs := flag.NewFlagSet("c05", flag.ExitOnError)
	in := fs.String("in", "", "transition table ndjson (from TLC)")
	out := fs.String("out", "", "result")
	flat := fs.Bool("flat", false, "flat payload/address space for trace validation")
	seed := fs.Int64("seed", 1, "seed")
	longN := fs.Int("long", 50, "number of long payloads")
	maxLong := fs.Int("maxlong", 65536, "max length of long payloads")
	fs.Parse(args)
	o, err := newJSONOut(*out)
	if err != nil {
		return err
	}
	defer o.Close()
	if *flat {
		c05Flat(o, *seed, *longN, *maxLong)
		return nil
	}
	return c05Table(*in, o)
}

func init() { register("c05", c05Main) }
