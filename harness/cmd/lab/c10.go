package main

// C10: UDP services are not amplifiers. Replays request mixes through the REAL server
// (real dispatch, real Handle, real Limiter) with listener.DummyUDPConn datagrams and
// reports, per datagram, how many events it produced and how many response datagrams
// were sent back.

import (
	"encoding/binary"
	"encoding/json"
	"flag"
	"fmt"
	"math/rand"
	"net"
	"sort"
	"sync"
	"sync/atomic"
	"time"

	"github.com/honeytrap/honeytrap/listener"
)

type c10Step struct {
	Svc  string `json:"svc"`
	IP   string `json:"ip"`
	Port int    `json:"port"`
	Kind string `json:"kind"`
	Ev   int    `json:"ev"`
	Rep  int    `json:"rep"`
}

type c10Scenario struct {
	ID    int       `json:"id"`
	Steps []c10Step `json:"steps"`
	// Concurrent: all datagrams are handed to the server at once (the server handles every datagram in a
	// goroutine of its own); only the number of response datagrams per step is observed
	Concurrent bool `json:"concurrent,omitempty"`
}

type c10Result struct {
	ID    int       `json:"id"`
	Obs   []c10Step `json:"obs"`
	Error string    `json:"error,omitempty"`
}

var c10Ports = map[string]int{"tftp": 69, "memcached": 11211, "snmp": 161, "counterstrike": 27015}

func snmpMsg(version byte, pduTag byte, reqid uint32) []byte {
	vb := []byte{0x30, 0x09, 0x06, 0x05, 0x2b, 0x06, 0x01, 0x02, 0x01, 0x05, 0x00}
	vbl := append([]byte{0x30, byte(len(vb))}, vb...)
	id := make([]byte, 4)
	binary.BigEndian.PutUint32(id, reqid&0x7fffffff|0x01000000)
	pdu := append([]byte{0x02, 0x04}, id...)
	pdu = append(pdu, 0x02, 0x01, 0x00, 0x02, 0x01, 0x00)
	pdu = append(pdu, vbl...)
	body := []byte{0x02, 0x01, version, 0x04, 0x06, 'p', 'u', 'b', 'l', 'i', 'c'}
	body = append(body, pduTag, byte(len(pdu)))
	body = append(body, pdu...)
	return append([]byte{0x30, byte(len(body))}, body...)
}

var mcHdr = []byte{0, 1, 0, 0, 0, 1, 0, 0}

// c10Bytes is the concretisation table: (service, kind) -> datagram. Kind names are the
// ones of MC_Limiter.tla's MCSteps.
func c10Bytes(svc, kind string, n uint32) ([]byte, error) {
	switch svc + "/" + kind {
	case "tftp/rrq":
		return []byte("\x00\x01file\x00octet\x00"), nil
	case "tftp/wrq":
		return []byte("\x00\x02file\x00octet\x00"), nil
	case "tftp/data":
		return []byte("\x00\x03\x00\x01abc"), nil
	case "tftp/ack":
		return []byte("\x00\x04\x00\x01"), nil
	case "tftp/short":
		return []byte("\x00"), nil
	case "tftp/unknown":
		return []byte("\x00\x09zz"), nil
	case "snmp/get":
		return snmpMsg(0, 0xa0, n), nil
	case "snmp/getnext":
		return snmpMsg(0, 0xa1, n), nil
	case "snmp/set":
		return snmpMsg(0, 0xa3, n), nil
	case "snmp/v2c":
		return snmpMsg(1, 0xa0, n), nil
	case "snmp/garbage":
		return []byte{0x30, 0x03, 0x02, 0x01}, nil
	case "counterstrike/info":
		return []byte("\xff\xff\xff\xffTSource Engine Query\x00"), nil
	case "counterstrike/player":
		return []byte("\xff\xff\xff\xff\x55\xff\xff\xff\xff"), nil
	case "counterstrike/rules":
		return []byte("\xff\xff\xff\xff\x56\xff\xff\xff\xff"), nil
	case "counterstrike/other":
		return []byte("\xff\xff\xff\xff\x41abcd"), nil
	case "counterstrike/badhdr":
		return []byte("\x00\x00\x00\x00Tabcd"), nil
	case "memcached/stats":
		return append(append([]byte{}, mcHdr...), "stats\r\n"...), nil
	case "memcached/get":
		return append(append([]byte{}, mcHdr...), "get a\r\n"...), nil
	case "memcached/two":
		return append(append([]byte{}, mcHdr...), "stats\r\nget a\r\n"...), nil
	case "memcached/three":
		return append(append([]byte{}, mcHdr...), "get a\r\nstats\r\nflush_all\r\n"...), nil
	case "memcached/set":
		return append(append([]byte{}, mcHdr...), "set k 0 0 1\r\nx\r\n"...), nil
	case "memcached/badset":
		return append(append([]byte{}, mcHdr...), "set k\r\n"...), nil
	case "memcached/empty":
		return append([]byte{}, mcHdr...), nil
	}
	return nil, fmt.Errorf("no byte template for %s/%s", svc, kind)
}

var c10Kinds = map[string][]string{
	"tftp":          {"rrq", "wrq", "data", "ack", "short", "unknown"},
	"snmp":          {"get", "getnext", "set", "v2c", "garbage"},
	"counterstrike": {"info", "player", "rules", "other", "badhdr"},
	"memcached":     {"stats", "get", "two", "three", "set", "badset", "empty"},
}

const c10Config = `
[listener]
type="verif-mem"
[channel.cap]
type="verif-capture"
name="cap"
[[filter]]
channel=["cap"]
[service.tftp]
type="tftp"
[service.memcached]
type="memcached"
[service.snmp]
type="snmp"
[service.counterstrike]
type="counterstrike"
[[port]]
port="udp/69"
services=["tftp"]
[[port]]
port="udp/11211"
services=["memcached"]
[[port]]
port="udp/161"
services=["snmp"]
[[port]]
port="udp/27015"
services=["counterstrike"]
`

// udpDone wraps the DummyUDPConn the socket listener would hand over so that the
// harness learns when honeytrap's handle() has finished with it (handle closes it).
type udpDone struct {
	*listener.DummyUDPConn
	once sync.Once
	done chan struct{}
}

func (u *udpDone) Close() error {
	u.once.Do(func() { close(u.done) })
	return u.DummyUDPConn.Close()
}

// sendUDPWait delivers one datagram and waits until handle() returned for it.
func sendUDPWait(m *memListener, laddr net.Addr, raddr *net.UDPAddr, payload []byte, timeout time.Duration) (replies [][]byte, finished bool) {
	var mu sync.Mutex
	u := &udpDone{done: make(chan struct{})}
	u.DummyUDPConn = &listener.DummyUDPConn{
		Buffer: append([]byte{}, payload...),
		Laddr:  laddr,
		Raddr:  raddr,
		Fn: func(b []byte, addr *net.UDPAddr) (int, error) {
			mu.Lock()
			replies = append(replies, append([]byte{}, b...))
			mu.Unlock()
			return len(b), nil
		},
	}
	m.ch <- u
	select {
	case <-u.done:
		finished = true
	case <-time.After(timeout):
	}
	mu.Lock()
	defer mu.Unlock()
	return append([][]byte{}, replies...), finished
}

var c10Counter uint32

func c10RunScenario(sc c10Scenario) c10Result {
	res := c10Result{ID: sc.ID}
	srv, err := startServer(c10Config)
	if err != nil {
		res.Error = err.Error()
		return res
	}
	defer srv.Stop()
	if sc.Concurrent {
		res.Obs = make([]c10Step, len(sc.Steps))
		var wg sync.WaitGroup
		start := make(chan struct{})
		for i, st := range sc.Steps {
			i, st := i, st
			payload, err := c10Bytes(st.Svc, st.Kind, atomic.AddUint32(&c10Counter, 1))
			if err != nil {
				res.Error = err.Error()
				return res
			}
			wg.Add(1)
			go func() {
				defer wg.Done()
				<-start
				replies, _ := sendUDPWait(srv.mem, udpAddr("192.0.2.1", c10Ports[st.Svc]), udpAddr(st.IP, st.Port), payload, 10*time.Second)
				o := st
				o.Rep = len(replies)
				res.Obs[i] = o
			}()
		}
		close(start)
		wg.Wait()
		return res
	}
	for _, st := range sc.Steps {
		payload, err := c10Bytes(st.Svc, st.Kind, atomic.AddUint32(&c10Counter, 1))
		if err != nil {
			res.Error = err.Error()
			return res
		}
		port := st.Port
		if st.Svc == "tftp" && st.Kind == "data" {
			port += 10000 // a DATA packet without a pending write request (see MC_Limiter)
		}
		before := hub.Len()
		replies, fin := sendUDPWait(srv.mem, udpAddr("192.0.2.1", c10Ports[st.Svc]), udpAddr(st.IP, port), payload, 10*time.Second)
		if !fin {
			res.Error = fmt.Sprintf("handler for %s/%s did not return within 10s", st.Svc, st.Kind)
			return res
		}
		evs := hub.Since(before)
		o := st
		o.Ev = 0
		for _, e := range evs {
			if e.Map["category"] == st.Svc {
				o.Ev++
			}
		}
		o.Rep = len(replies)
		res.Obs = append(res.Obs, o)
	}
	return res
}

func c10Random(rng *rand.Rand, id int, maxLen int) c10Scenario {
	sc := c10Scenario{ID: id}
	svcs := []string{"tftp", "memcached", "snmp", "counterstrike"}
	sort.Strings(svcs)
	nips := 1 + rng.Intn(3)
	nsvc := 1 + rng.Intn(2)
	n := 1 + rng.Intn(maxLen)
	pick := rng.Perm(len(svcs))[:nsvc]
	for i := 0; i < n; i++ {
		svc := svcs[pick[rng.Intn(nsvc)]]
		kinds := c10Kinds[svc]
		sc.Steps = append(sc.Steps, c10Step{
			Svc:  svc,
			IP:   fmt.Sprintf("10.0.0.%d", 1+rng.Intn(nips)),
			Port: 1024 + rng.Intn(60000),
			Kind: kinds[rng.Intn(len(kinds))],
		})
	}
	return sc
}

func c10Main(args []string) error {
	fs := flag.NewFlagSet("c10", flag.ExitOnError)
	in := fs.String("in", "", "scenario ndjson (from TLC)")
	out := fs.String("out", "", "result ndjson")
	random := fs.Int("random", 0, "additionally run N seeded random bursts")
	maxLen := fs.Int("maxlen", 200, "max burst length of random scenarios")
	seed := fs.Int64("seed", 1, "seed")
	fs.Parse(args)
	quietLogs()
	defer cleanupScratch()
	o, err := newJSONOut(*out)
	if err != nil {
		return err
	}
	defer o.Close()
	var scs []c10Scenario
	if *in != "" {
		if err := readJSONLines(*in, func(line []byte) error {
			var sc c10Scenario
			if err := json.Unmarshal(line, &sc); err != nil {
				return err
			}
			scs = append(scs, sc)
			return nil
		}); err != nil {
			return err
		}
	}
	rng := rand.New(rand.NewSource(*seed))
	for i := 0; i < *random; i++ {
		scs = append(scs, c10Random(rng, 1000000+i, *maxLen))
	}
	// one server at a time: config.Default and the listener registry are process globals
	for _, sc := range scs {
		hub.Reset()
		o.Put(c10RunScenario(sc))
	}
	return nil
}

func init() { register("c10", c10Main) }
