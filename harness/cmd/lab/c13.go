package main

// C13: the recorded JA3 fingerprint is the specification's JA3 of the ClientHello sent.
// Hello records generated from Ja3.tla are serialised by the harness (optionally fragmented
// over several TLS records), sent to the real https service through the real server, and the
// connection is dropped after the server's flight; the digest and server name recorded in the
// connection's event are reported back. One scenario completes a real handshake with the
// standard library's TLS client.

import (
	"bytes"
	stdtls "crypto/tls"
	"encoding/binary"
	"encoding/json"
	"flag"
	"fmt"
	"io"
	"net"
	"strconv"
	"strings"
	"sync"
	"time"
)

type c13Hello struct {
	Vers    int    `json:"vers"`
	Ciphers []int  `json:"ciphers"`
	Exts    []int  `json:"exts"`
	Groups  []int  `json:"groups"`
	Points  []int  `json:"points"`
	SNI     string `json:"sni"`
}

type c13Item struct {
	ID    int      `json:"id"`
	Hello c13Hello `json:"hello"`
	Frag  []int    `json:"frag"` // cut points of the handshake message over TLS records
	Real  bool     `json:"real"` // complete a real handshake with crypto/tls instead
}

type c13Result struct {
	ID         int      `json:"id"`
	Digest     string   `json:"digest"`
	ServerName string   `json:"server_name"`
	EventType  string   `json:"event_type"`
	Events     []string `json:"events"`
	HarnessJA3 string   `json:"harness_ja3"`
	Note       string   `json:"note,omitempty"`
}

func u16(v int) []byte { return []byte{byte(v >> 8), byte(v)} }

func c13ExtBody(t int, h c13Hello) []byte {
	switch t {
	case 0:
		name := []byte(h.SNI)
		entry := append([]byte{0}, append(u16(len(name)), name...)...)
		return append(u16(len(entry)), entry...)
	case 10:
		var l []byte
		for _, g := range h.Groups {
			l = append(l, u16(g)...)
		}
		return append(u16(len(l)), l...)
	case 11:
		var l []byte
		for _, p := range h.Points {
			l = append(l, byte(p))
		}
		return append([]byte{byte(len(l))}, l...)
	case 16:
		proto := []byte("h2")
		entry := append([]byte{byte(len(proto))}, proto...)
		return append(u16(len(entry)), entry...)
	case 65281:
		return []byte{0}
	case 4660:
		return []byte("xyz")
	}
	return nil // empty body (23, 35, GREASE ...)
}

func c13Marshal(h c13Hello) []byte {
	var b bytes.Buffer
	b.Write(u16(h.Vers))
	rnd := make([]byte, 32)
	for i := range rnd {
		rnd[i] = byte(i * 7)
	}
	b.Write(rnd)
	b.WriteByte(0) // session id
	b.Write(u16(2 * len(h.Ciphers)))
	for _, c := range h.Ciphers {
		b.Write(u16(c))
	}
	b.Write([]byte{1, 0}) // null compression
	if len(h.Exts) > 0 {
		var e bytes.Buffer
		for _, t := range h.Exts {
			body := c13ExtBody(t, h)
			e.Write(u16(t))
			e.Write(u16(len(body)))
			e.Write(body)
		}
		b.Write(u16(e.Len()))
		b.Write(e.Bytes())
	}
	body := b.Bytes()
	msg := append([]byte{1, byte(len(body) >> 16), byte(len(body) >> 8), byte(len(body))}, body...)
	return msg
}

func c13Records(msg []byte, cuts []int) []byte {
	var out []byte
	prev := 0
	for _, c := range append(append([]int{}, cuts...), len(msg)) {
		if c <= prev || c > len(msg) {
			continue
		}
		frag := msg[prev:c]
		out = append(out, 22, 3, 1)
		out = append(out, u16(len(frag))...)
		out = append(out, frag...)
		prev = c
	}
	return out
}

var greaseVals = func() map[int]bool {
	m := map[int]bool{}
	for k := 0; k < 16; k++ {
		m[0x0a0a+0x1010*k] = true
	}
	return m
}()

// the harness's own JA3 (cross-checked against Ja3.tla on every generated hello)
func c13JA3(h c13Hello) string {
	join := func(v []int, filter bool) string {
		s := []string{}
		for _, x := range v {
			if filter && greaseVals[x] {
				continue
			}
			s = append(s, strconv.Itoa(x))
		}
		return strings.Join(s, "-")
	}
	return fmt.Sprintf("%d,%s,%s,%s,%s", h.Vers, join(h.Ciphers, true), join(h.Exts, true), join(h.Groups, true), join(h.Points, false))
}

// parse a ClientHello handshake message (as sent by crypto/tls) into the model's record
func c13Parse(msg []byte) (h c13Hello, ok bool) {
	if len(msg) < 4+2+32+1 || msg[0] != 1 {
		return h, false
	}
	p := msg[4:]
	h.Vers = int(binary.BigEndian.Uint16(p[0:2]))
	p = p[34:]
	sl := int(p[0])
	p = p[1+sl:]
	cl := int(binary.BigEndian.Uint16(p[0:2]))
	for i := 0; i < cl; i += 2 {
		h.Ciphers = append(h.Ciphers, int(binary.BigEndian.Uint16(p[2+i:4+i])))
	}
	p = p[2+cl:]
	p = p[1+int(p[0]):]
	if len(p) < 2 {
		return h, true
	}
	p = p[2:]
	for len(p) >= 4 {
		t := int(binary.BigEndian.Uint16(p[0:2]))
		l := int(binary.BigEndian.Uint16(p[2:4]))
		body := p[4 : 4+l]
		h.Exts = append(h.Exts, t)
		switch t {
		case 0:
			if len(body) >= 5 {
				h.SNI = string(body[5:])
			}
		case 10:
			for i := 2; i+1 < len(body); i += 2 {
				h.Groups = append(h.Groups, int(binary.BigEndian.Uint16(body[i:i+2])))
			}
		case 11:
			for _, x := range body[1:] {
				h.Points = append(h.Points, int(x))
			}
		}
		p = p[4+l:]
	}
	return h, true
}

type tapConn struct {
	net.Conn
	mu  sync.Mutex
	out []byte
}

func (t *tapConn) Write(b []byte) (int, error) {
	t.mu.Lock()
	t.out = append(t.out, b...)
	t.mu.Unlock()
	return t.Conn.Write(b)
}

func c13Run(m *memListener, it c13Item) c13Result {
	res := c13Result{ID: it.ID, HarnessJA3: c13JA3(it.Hello)}
	ip := fmt.Sprintf("10.13.%d.%d", (it.ID/250)%250, 1+it.ID%250)
	mark := hub.Len()
	cl, err := m.DialTCP(tcpAddr("127.0.0.1", 443), tcpAddr(ip, 4433))
	if err != nil {
		res.Note = err.Error()
		return res
	}
	if it.Real {
		tap := &tapConn{Conn: cl}
		tc := stdtls.Client(tap, &stdtls.Config{InsecureSkipVerify: true, ServerName: it.Hello.SNI, MaxVersion: stdtls.VersionTLS12})
		tc.SetDeadline(time.Now().Add(20 * time.Second))
		if err := tc.Handshake(); err != nil {
			res.Note = "handshake: " + err.Error()
		} else {
			fmt.Fprintf(tc, "GET /ja3 HTTP/1.1\r\nHost: %s\r\n\r\n", it.Hello.SNI)
			buf := make([]byte, 4096)
			tc.SetReadDeadline(time.Now().Add(2 * time.Second))
			tc.Read(buf)
		}
		tc.Close()
		tap.mu.Lock()
		wire := tap.out
		tap.mu.Unlock()
		if len(wire) > 5 && wire[0] == 22 {
			n := int(binary.BigEndian.Uint16(wire[3:5]))
			if 5+n <= len(wire) {
				if h, ok := c13Parse(wire[5 : 5+n]); ok {
					res.HarnessJA3 = c13JA3(h)
				}
			}
		}
	} else {
		cl.Write(c13Records(c13Marshal(it.Hello), it.Frag))
		// read the server's flight (or its alert), then drop the connection
		cl.SetReadDeadline(time.Now().Add(15 * time.Second))
		buf := make([]byte, 65536)
		total := 0
		for {
			n, err := cl.Read(buf)
			total += n
			if err != nil {
				break
			}
			cl.SetReadDeadline(time.Now().Add(60 * time.Millisecond))
		}
		_ = io.EOF
		cl.Close()
	}
	hub.WaitFor(mark, 3*time.Second, func(evs []capEvent) bool {
		for _, e := range evs {
			if e.Map["source-ip"] == ip {
				return true
			}
		}
		return false
	})
	time.Sleep(20 * time.Millisecond)
	for _, e := range hub.Since(mark) {
		if e.Map["source-ip"] != ip {
			continue
		}
		t, _ := e.Map["type"].(string)
		res.Events = append(res.Events, fmt.Sprintf("%v/%s", e.Map["category"], t))
		if d, ok := e.Map["https.ja3-digest"].(string); ok && (res.EventType == "" || t == "request") {
			res.Digest = d
			res.ServerName, _ = e.Map["https.server-name"].(string)
			res.EventType = t
		}
	}
	return res
}

func c13Main(args []string) error {
	fs := flag.NewFlagSet("c13", flag.ExitOnError)
	in := fs.String("in", "", "hello records ndjson")
	out := fs.String("out", "", "result ndjson")
	par := fs.Int("par", 8, "connections in flight")
	fs.Parse(args)
	quietLogs()
	defer cleanupScratch()
	srv, err := startServer(`
[listener]
type="verif-mem"
[channel.cap]
type="verif-capture"
name="cap"
[[filter]]
channel=["cap"]
[service.https]
type="https"
[[port]]
port="tcp/443"
services=["https"]
`)
	if err != nil {
		return err
	}
	defer srv.Stop()
	o, err := newJSONOut(*out)
	if err != nil {
		return err
	}
	defer o.Close()
	var items []c13Item
	if err := readJSONLines(*in, func(line []byte) error {
		var it c13Item
		if err := json.Unmarshal(line, &it); err != nil {
			return err
		}
		items = append(items, it)
		return nil
	}); err != nil {
		return err
	}
	// warm the per-server-name certificate cache one name at a time (RSA-4096 generation)
	warmed := map[string]bool{}
	for _, it := range items {
		if !warmed[it.Hello.SNI] && !it.Real {
			warmed[it.Hello.SNI] = true
			w := it
			w.ID = 60000 + len(warmed)
			c13Run(srv.mem, w)
		}
	}
	sem := make(chan struct{}, *par)
	var wg sync.WaitGroup
	for _, it := range items {
		it := it
		wg.Add(1)
		sem <- struct{}{}
		go func() {
			defer wg.Done()
			defer func() { <-sem }()
			o.Put(c13Run(srv.mem, it))
		}()
	}
	wg.Wait()
	return nil
}

func init() { register("c13", c13Main) }
