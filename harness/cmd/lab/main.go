package main

import (
	"fmt"
	"os"
)

type cmdFn func(args []string) error

var commands = map[string]cmdFn{}

func register(name string, fn cmdFn) { commands[name] = fn }

func main() {
	if len(os.Args) < 2 {
		fmt.Fprintln(os.Stderr, "usage: lab <command> [args]")
		os.Exit(2)
	}
	fn, ok := commands[os.Args[1]]
	if !ok {
		fmt.Fprintf(os.Stderr, "lab: unknown command %q\n", os.Args[1])
		os.Exit(2)
	}
	if err := fn(os.Args[2:]); err != nil {
		fmt.Fprintf(os.Stderr, "lab %s: %v\n", os.Args[1], err)
		os.Exit(2)
	}
}
