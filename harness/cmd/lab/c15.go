package main

// C15: proxy services relay requests and replies unchanged to the configured backend.
// The real server runs with the real `socket` listener on loopback and `forward` directors;
// the harness provides the backends (an HTTP backend reading raw requests, a TCP stream
// backend, a UDP backend) and a decoy listener that must never be contacted, plays the
// clients, and reports what each side saw.

import (
	"bufio"
	"bytes"
	"encoding/hex"
	"encoding/json"
	"flag"
	"fmt"
	"io"
	"io/ioutil"
	"net"
	"net/http"
	"sort"
	"strings"
	"sync"
	"time"
)

type c15Req struct {
	Kind    string     `json:"kind"`
	Method  string     `json:"method"`
	Target  string     `json:"target"`
	Headers [][]string `json:"headers"`
	Body    int        `json:"body"`
	Chunked bool       `json:"chunked"`
}

type c15Exchange struct {
	ID        int      `json:"id"`
	Kind      string   `json:"kind"`
	Reqs      []c15Req `json:"reqs"`
	Replies   []int    `json:"replies"`
	Pipelined bool     `json:"pipelined"`
	Cut       int      `json:"cut"`
	ReplyCut  int      `json:"replycut"`
	Clients   int      `json:"clients"`
	// HalfClose (copy): the client shuts down its sending side after its stream and only then
	// reads; the backend answers when it has seen the end of the stream
	HalfClose bool `json:"halfclose"`
	// Portless (copy): 1 or 2 = go through one of the two copy proxies whose director names a host WITHOUT a port
	// (the backend's port is then the port the client connected to); 0 = the ordinary copy proxy
	Portless int `json:"portless"`
	// StderrN (ssh): the backend also writes this many bytes to the session's extended data stream (stderr)
	StderrN int `json:"stderr"`
}

type c15Seen struct {
	Method  string   `json:"method,omitempty"`
	Target  string   `json:"target,omitempty"`
	Headers []string `json:"headers,omitempty"`
	BodySHA string   `json:"body"` // length:first-bytes...:hash-free compact form
}

type c15Result struct {
	ID      int                      `json:"id"`
	Backend [][]c15Seen              `json:"backend"` // per client: what the backend saw
	Client  [][]c15Seen              `json:"client"`  // per client: what came back
	Sent    [][]c15Seen              `json:"sent"`    // per client: what was sent
	Replied [][]c15Seen              `json:"replied"` // per client: what the backend answered
	Decoy   int                      `json:"decoy_connections"`
	Events  []map[string]interface{} `json:"events"`
	Notes   []string                 `json:"notes,omitempty"`
	// BackendAt: per client, the address of the backend that received its stream (copy)
	BackendAt []string `json:"backend_at,omitempty"`
	WantAt    []string `json:"want_at,omitempty"`
}

func bodyBytes(tag string, n int) []byte {
	b := make([]byte, n)
	for i := range b {
		b[i] = tag[i%len(tag)] + byte(i%7)
	}
	return b
}

func compact(b []byte) string {
	sum := 0
	for i, x := range b {
		sum = (sum*31 + int(x) + i) % 1000003
	}
	head := b
	if len(head) > 12 {
		head = head[:12]
	}
	return fmt.Sprintf("%d:%x:%d", len(b), head, sum)
}

func headerLines(h http.Header, drop ...string) []string {
	out := []string{}
	for k, vs := range h {
		skip := false
		for _, d := range drop {
			if strings.EqualFold(k, d) {
				skip = true
			}
		}
		if skip {
			continue
		}
		for _, v := range vs {
			out = append(out, k+": "+v)
		}
	}
	sort.Strings(out)
	return out
}

type c15Rig struct {
	proxyHTTP, proxyCopy, proxyDNS string
	proxySSH                       string
	mu                             sync.Mutex
	httpSeen                       map[string][]c15Seen // by X-Client header
	httpReplied                    map[string][]c15Seen
	copySeen                       map[string][]byte
	copyAt                         map[string]string // client name -> address of the backend that saw it
	proxyPortless                  [2]string         // the two proxies behind the port-less director
	backendPortless                [2]string
	dnsSeen                        map[string][][]byte
	decoy                          int
	replyPlan                      map[string][]int
	stderrPlan                     map[string]int
	replyCut                       map[string]int
	replyAtEOF                     map[string]bool
}

func listenLocal() (net.Listener, string) {
	l, err := net.Listen("tcp", "127.0.0.1:0")
	if err != nil {
		panic(err)
	}
	return l, l.Addr().String()
}

func freeTCPPort() int {
	l, _ := listenLocal()
	p := l.Addr().(*net.TCPAddr).Port
	l.Close()
	return p
}

func (r *c15Rig) httpBackend(l net.Listener) {
	for {
		c, err := l.Accept()
		if err != nil {
			return
		}
		go func(c net.Conn) {
			defer c.Close()
			br := bufio.NewReader(c)
			for {
				req, err := http.ReadRequest(br)
				if err != nil {
					return
				}
				body, _ := ioutil.ReadAll(req.Body)
				client := req.Header.Get("X-Client")
				seen := c15Seen{Method: req.Method, Target: req.RequestURI, Headers: headerLines(req.Header, "X-Client", "Content-Length", "Transfer-Encoding"), BodySHA: compact(body)}
				r.mu.Lock()
				idx := len(r.httpSeen[client])
				r.httpSeen[client] = append(r.httpSeen[client], seen)
				n := 0
				if plan := r.replyPlan[client]; idx < len(plan) {
					n = plan[idx]
				}
				cut := r.replyCut[client]
				r.mu.Unlock()
				rb := bodyBytes(fmt.Sprintf("R%d", idx), n)
				head := fmt.Sprintf("HTTP/1.1 200 OK\r\nContent-Length: %d\r\nX-Reply: %d\r\nX-Multi: a\r\nX-Multi: b\r\n\r\n", n, idx)
				out := append([]byte(head), rb...)
				if req.Method == "HEAD" {
					out = []byte(head)
					rb = nil
				}
				r.mu.Lock()
				r.httpReplied[client] = append(r.httpReplied[client], c15Seen{Headers: []string{"X-Multi: a", "X-Multi: b", fmt.Sprintf("X-Reply: %d", idx)}, BodySHA: compact(rb)})
				r.mu.Unlock()
				if cut > 0 && cut < len(out) {
					c.Write(out[:cut])
					time.Sleep(3 * time.Millisecond)
					c.Write(out[cut:])
				} else {
					c.Write(out)
				}
			}
		}(c)
	}
}

func (r *c15Rig) copyBackend(l net.Listener) {
	for {
		c, err := l.Accept()
		if err != nil {
			return
		}
		go func(c net.Conn) {
			defer c.Close()
			// the first line names the client; everything is recorded; the answer is a fixed stream per client
			br := bufio.NewReader(c)
			var all []byte
			buf := make([]byte, 32768)
			name := ""
			replied := false
			for {
				n, err := br.Read(buf)
				all = append(all, buf[:n]...)
				if name == "" {
					if i := bytes.IndexByte(all, '\n'); i >= 0 {
						name = string(all[:i])
					}
				}
				r.mu.Lock()
				atEOF := r.replyAtEOF[name]
				r.mu.Unlock()
				if name != "" && !replied && (!atEOF || err != nil) {
					replied = true
					r.mu.Lock()
					plan := r.replyPlan[name]
					r.mu.Unlock()
					total := 0
					for _, x := range plan {
						total += x
					}
					c.Write(bodyBytes("S"+name, total))
				}
				r.mu.Lock()
				if name != "" {
					r.copySeen[name] = append([]byte{}, all...)
					r.copyAt[name] = c.LocalAddr().String()
				}
				r.mu.Unlock()
				if err != nil {
					return
				}
			}
		}(c)
	}
}

func (r *c15Rig) dnsBackend(pc net.PacketConn) {
	buf := make([]byte, 65535)
	for {
		n, addr, err := pc.ReadFrom(buf)
		if err != nil {
			return
		}
		d := append([]byte{}, buf[:n]...)
		name := fmt.Sprintf("%x", d[:2])
		r.mu.Lock()
		idx := len(r.dnsSeen[name])
		r.dnsSeen[name] = append(r.dnsSeen[name], d)
		size := 12
		if plan := r.replyPlan[name]; idx < len(plan) {
			size = plan[idx]
		}
		r.mu.Unlock()
		reply := append(append([]byte{}, d[:2]...), bodyBytes("D"+name, size)...)
		pc.WriteTo(reply, addr)
	}
}

func (r *c15Rig) decoyListener(l net.Listener) {
	for {
		c, err := l.Accept()
		if err != nil {
			return
		}
		r.mu.Lock()
		r.decoy++
		r.mu.Unlock()
		c.Close()
	}
}

func dnsQueryBytes(id uint16, pad int) []byte {
	q := []byte{byte(id >> 8), byte(id), 0x01, 0x00, 0, 1, 0, 0, 0, 0, 0, 0}
	label := bodyBytes("q", pad%60+1)
	for i := range label {
		label[i] = 'a' + label[i]%26
	}
	q = append(q, byte(len(label)))
	q = append(q, label...)
	q = append(q, 7, 'e', 'x', 'a', 'm', 'p', 'l', 'e', 0, 0, 1, 0, 1)
	return q
}

func c15HTTPRequestBytes(rq c15Req, client string, idx int) ([]byte, c15Seen) {
	body := bodyBytes(fmt.Sprintf("B%d", idx), rq.Body)
	var b bytes.Buffer
	fmt.Fprintf(&b, "%s %s HTTP/1.1\r\nHost: backend.example\r\nX-Client: %s\r\n", rq.Method, rq.Target, client)
	hdr := http.Header{}
	hdr.Add("Host-Marker", "x") // never sent; placeholder to keep the header type used
	hdr.Del("Host-Marker")
	for _, kv := range rq.Headers {
		fmt.Fprintf(&b, "%s: %s\r\n", kv[0], kv[1])
		hdr.Add(kv[0], kv[1])
	}
	if rq.Body > 0 || rq.Method == "POST" || rq.Method == "PUT" {
		if rq.Chunked {
			b.WriteString("Transfer-Encoding: chunked\r\n\r\n")
			half := len(body) / 2
			if half > 0 { // (a zero-length chunk would end the body)
				fmt.Fprintf(&b, "%x\r\n", half)
				b.Write(body[:half])
				b.WriteString("\r\n")
			}
			if len(body)-half > 0 {
				fmt.Fprintf(&b, "%x\r\n", len(body)-half)
				b.Write(body[half:])
				b.WriteString("\r\n")
			}
			b.WriteString("0\r\n\r\n")
		} else {
			fmt.Fprintf(&b, "Content-Length: %d\r\n\r\n", len(body))
			b.Write(body)
		}
	} else {
		b.WriteString("\r\n")
	}
	return b.Bytes(), c15Seen{Method: rq.Method, Target: rq.Target, Headers: headerLines(hdr), BodySHA: compact(body)}
}

func (r *c15Rig) run(ex c15Exchange) c15Result {
	res := c15Result{ID: ex.ID}
	mark := hub.Len()
	var wg sync.WaitGroup
	nclients := ex.Clients
	if nclients < 1 {
		nclients = 1
	}
	res.Backend = make([][]c15Seen, nclients)
	res.Client = make([][]c15Seen, nclients)
	res.Sent = make([][]c15Seen, nclients)
	res.Replied = make([][]c15Seen, nclients)
	var nmu sync.Mutex
	note := func(f string, a ...interface{}) {
		nmu.Lock()
		res.Notes = append(res.Notes, fmt.Sprintf(f, a...))
		nmu.Unlock()
	}
	for ci := 0; ci < nclients; ci++ {
		ci := ci
		name := fmt.Sprintf("x%dc%d", ex.ID, ci)
		if ex.Kind == "dns" {
			name = fmt.Sprintf("%04x", (ex.ID*4+ci)&0xffff)
		}
		r.mu.Lock()
		r.replyPlan[name] = ex.Replies
		r.stderrPlan[name] = ex.StderrN
		r.replyCut[name] = ex.ReplyCut
		r.replyAtEOF[name] = ex.HalfClose
		r.mu.Unlock()
		wg.Add(1)
		go func() {
			defer wg.Done()
			switch ex.Kind {
			case "ssh":
				r.runSSH(ex, ci, name, &res, note)
			case "http":
				c, err := net.DialTimeout("tcp", r.proxyHTTP, 3*time.Second)
				if err != nil {
					note("dial proxy: %v", err)
					return
				}
				defer c.Close()
				c.SetDeadline(time.Now().Add(20 * time.Second))
				br := bufio.NewReader(c)
				var stream []byte
				for i, rq := range ex.Reqs {
					b, sent := c15HTTPRequestBytes(rq, name, i)
					res.Sent[ci] = append(res.Sent[ci], sent)
					if ex.Pipelined {
						stream = append(stream, b...)
						continue
					}
					cut := ex.Cut
					if cut > 0 && cut < len(b) {
						c.Write(b[:cut])
						time.Sleep(3 * time.Millisecond)
						c.Write(b[cut:])
					} else {
						c.Write(b)
					}
					resp, err := http.ReadResponse(br, &http.Request{Method: rq.Method})
					if err != nil {
						note("client %d: reading reply %d: %v", ci, i, err)
						return
					}
					body, _ := ioutil.ReadAll(resp.Body)
					res.Client[ci] = append(res.Client[ci], c15Seen{Headers: headerLines(resp.Header, "Content-Length", "Date"), BodySHA: compact(body)})
				}
				if ex.Pipelined {
					cut := ex.Cut
					if cut > 0 && cut < len(stream) {
						c.Write(stream[:cut])
						time.Sleep(3 * time.Millisecond)
						c.Write(stream[cut:])
					} else {
						c.Write(stream)
					}
					for i, rq := range ex.Reqs {
						resp, err := http.ReadResponse(br, &http.Request{Method: rq.Method})
						if err != nil {
							note("client %d: reading pipelined reply %d: %v", ci, i, err)
							return
						}
						body, _ := ioutil.ReadAll(resp.Body)
						res.Client[ci] = append(res.Client[ci], c15Seen{Headers: headerLines(resp.Header, "Content-Length", "Date"), BodySHA: compact(body)})
					}
				}
			case "copy":
				target := r.proxyCopy
				if ex.Portless == 1 || ex.Portless == 2 {
					target = r.proxyPortless[ex.Portless-1]
				}
				c, err := net.DialTimeout("tcp", target, 3*time.Second)
				if err != nil {
					note("dial proxy: %v", err)
					return
				}
				defer c.Close()
				c.SetDeadline(time.Now().Add(15 * time.Second))
				stream := []byte(name + "\n")
				for i, rq := range ex.Reqs {
					stream = append(stream, bodyBytes(fmt.Sprintf("C%d", i), rq.Body)...)
				}
				res.Sent[ci] = []c15Seen{{BodySHA: compact(stream)}}
				cut := ex.Cut
				if cut > 0 && cut < len(stream) {
					c.Write(stream[:cut])
					time.Sleep(3 * time.Millisecond)
					c.Write(stream[cut:])
				} else {
					c.Write(stream)
				}
				if ex.HalfClose {
					if tc, ok := c.(*net.TCPConn); ok {
						tc.CloseWrite()
					}
				}
				total := 0
				for _, x := range ex.Replies {
					total += x
				}
				got := make([]byte, total)
				n, err := io.ReadFull(c, got)
				if err != nil {
					note("client %d: read %d of %d reply bytes: %v", ci, n, total, err)
				}
				res.Client[ci] = []c15Seen{{BodySHA: compact(got[:n])}}
				res.Replied[ci] = []c15Seen{{BodySHA: compact(bodyBytes("S"+name, total))}}
				time.Sleep(30 * time.Millisecond)
				r.mu.Lock()
				res.Backend[ci] = []c15Seen{{BodySHA: compact(r.copySeen[name])}}
				if ex.Portless == 1 || ex.Portless == 2 {
					nmu.Lock()
					for len(res.BackendAt) <= ci {
						res.BackendAt = append(res.BackendAt, "")
						res.WantAt = append(res.WantAt, "")
					}
					res.BackendAt[ci] = r.copyAt[name]
					res.WantAt[ci] = r.backendPortless[ex.Portless-1]
					nmu.Unlock()
				}
				r.mu.Unlock()
			case "dns":
				pc, err := net.Dial("udp", r.proxyDNS)
				if err != nil {
					note("dial proxy: %v", err)
					return
				}
				defer pc.Close()
				var id uint16
				fmt.Sscanf(name, "%04x", &id)
				for i, rq := range ex.Reqs {
					q := dnsQueryBytes(id, rq.Body+i)
					res.Sent[ci] = append(res.Sent[ci], c15Seen{BodySHA: compact(q)})
					pc.Write(q)
					pc.SetReadDeadline(time.Now().Add(3 * time.Second))
					buf := make([]byte, 65535)
					n, err := pc.Read(buf)
					if err != nil {
						note("client %d: no reply to datagram %d: %v", ci, i, err)
						res.Client[ci] = append(res.Client[ci], c15Seen{BodySHA: "none"})
					} else {
						res.Client[ci] = append(res.Client[ci], c15Seen{BodySHA: compact(buf[:n])})
					}
					size := 12
					if i < len(ex.Replies) {
						size = ex.Replies[i]
					}
					res.Replied[ci] = append(res.Replied[ci], c15Seen{BodySHA: compact(append(append([]byte{}, q[:2]...), bodyBytes("D"+name, size)...))})
				}
				r.mu.Lock()
				for _, d := range r.dnsSeen[name] {
					res.Backend[ci] = append(res.Backend[ci], c15Seen{BodySHA: compact(d)})
				}
				r.mu.Unlock()
			}
			if ex.Kind == "http" {
				time.Sleep(20 * time.Millisecond)
				r.mu.Lock()
				res.Backend[ci] = append([]c15Seen{}, r.httpSeen[name]...)
				res.Replied[ci] = append([]c15Seen{}, r.httpReplied[name]...)
				r.mu.Unlock()
			}
		}()
	}
	wg.Wait()
	time.Sleep(20 * time.Millisecond)
	r.mu.Lock()
	res.Decoy = r.decoy
	r.mu.Unlock()
	for _, e := range hub.Since(mark) {
		m := cleanEvent(e.Map)
		delete(m, "payload")
		delete(m, "payload-hex")
		res.Events = append(res.Events, m)
	}
	return res
}

var _ = hex.EncodeToString

func c15Main(args []string) error {
	fs := flag.NewFlagSet("c15", flag.ExitOnError)
	in := fs.String("in", "", "exchanges ndjson")
	out := fs.String("out", "", "result ndjson")
	fs.Parse(args)
	quietLogs()
	defer cleanupScratch()
	rig := &c15Rig{httpSeen: map[string][]c15Seen{}, httpReplied: map[string][]c15Seen{}, copySeen: map[string][]byte{}, copyAt: map[string]string{}, dnsSeen: map[string][][]byte{},
		replyPlan: map[string][]int{}, stderrPlan: map[string]int{}, replyCut: map[string]int{}, replyAtEOF: map[string]bool{}}
	hb, hbAddr := listenLocal()
	cb, cbAddr := listenLocal()
	dl, dlAddr := listenLocal()
	sb, sbAddr := listenLocal()
	go rig.sshBackend(sb)
	udp, err := net.ListenPacket("udp", "127.0.0.1:0")
	if err != nil {
		return err
	}
	go rig.httpBackend(hb)
	go rig.copyBackend(cb)
	go rig.dnsBackend(udp)
	go rig.decoyListener(dl)
	// the ports honeytrap will bind itself: below the ephemeral range and spread by pid (freePort), so that neither
	// a parallel lab process nor a client socket takes one between our choosing it and the server binding it
	p1, p2, p3 := freePort(), freePort(), freePort()
	rig.proxySSH = fmt.Sprintf("127.0.0.1:%d", freePort())
	// two copy proxies on 127.0.0.1:p5 / p6 share a director whose host (127.0.0.2) names no port: their backends
	// listen on the same port numbers of that host
	p5, p6 := freePort(), freePort()
	for i, p := range []int{p5, p6} {
		bl, err := net.Listen("tcp", fmt.Sprintf("127.0.0.2:%d", p))
		if err != nil {
			return err
		}
		go rig.copyBackend(bl)
		rig.proxyPortless[i] = fmt.Sprintf("127.0.0.1:%d", p)
		rig.backendPortless[i] = fmt.Sprintf("127.0.0.2:%d", p)
	}
	rig.proxyHTTP = fmt.Sprintf("127.0.0.1:%d", p1)
	rig.proxyCopy = fmt.Sprintf("127.0.0.1:%d", p2)
	rig.proxyDNS = fmt.Sprintf("127.0.0.1:%d", p3)
	cfg := fmt.Sprintf(`
[listener]
type="socket"
[channel.cap]
type="verif-capture"
name="cap"
[[filter]]
channel=["cap"]
[director.dhttp]
type="forward"
host=%q
[director.dcopy]
type="forward"
host=%q
[director.ddns]
type="forward"
host=%q
[director.decoy]
type="forward"
host=%q
[director.dssh]
type="forward"
host=%q
[service.sp]
type="ssh-proxy"
director="dssh"
[[port]]
port="tcp/%s"
services=["sp"]
[director.dportless]
type="forward"
host="127.0.0.2"
[service.cp5]
type="copy"
director="dportless"
[service.cp6]
type="copy"
director="dportless"
[[port]]
port="tcp/%s"
services=["cp5"]
[[port]]
port="tcp/%s"
services=["cp6"]
[service.hp]
type="http-proxy"
director="dhttp"
[service.cp]
type="copy"
director="dcopy"
[service.dp]
type="dns-proxy"
director="ddns"
[[port]]
port="tcp/%s"
services=["hp"]
[[port]]
port="tcp/%s"
services=["cp"]
[[port]]
port="udp/%s"
services=["dp"]
`, hbAddr, cbAddr, udp.LocalAddr().String(), dlAddr, sbAddr, rig.proxySSH, rig.proxyPortless[0], rig.proxyPortless[1], rig.proxyHTTP, rig.proxyCopy, rig.proxyDNS)
	if _, err := startServerAny(cfg); err != nil {
		return err
	}
	deadline := time.Now().Add(10 * time.Second)
	for {
		c, err := net.DialTimeout("tcp", rig.proxyCopy, time.Second)
		if err == nil {
			c.Close()
			break
		}
		if time.Now().After(deadline) {
			return fmt.Errorf("proxy ports did not come up: %v", err)
		}
		time.Sleep(10 * time.Millisecond)
	}
	time.Sleep(50 * time.Millisecond)
	o, err := newJSONOut(*out)
	if err != nil {
		return err
	}
	defer o.Close()
	return readJSONLines(*in, func(line []byte) error {
		var ex c15Exchange
		if err := json.Unmarshal(line, &ex); err != nil {
			return err
		}
		o.Put(rig.run(ex))
		return nil
	})
}

func init() { register("c15", c15Main) }
