package main

// C07: the file channel keeps every event as one intact JSON line across rotations.
//  level "rf": TLC-generated write/remove/rename sequences replayed on the real
//              fschannel.OpenRotateFile / Write; the property's predicates are evaluated on
//              the files found on disk afterwards (and after every step for overwrites).
//  level "fb": bursts of events through the real FileBackend (pushers "file": Send, the
//              writer goroutine, the 1 s flush), incl. an unopenable destination.

import (
	"bytes"
	"encoding/json"
	"flag"
	"fmt"
	"io/ioutil"
	"os"
	"path/filepath"
	"sort"
	"strings"
	"sync"
	"time"

	"github.com/honeytrap/honeytrap/event"
	"github.com/honeytrap/honeytrap/pushers"
	fschannel "github.com/honeytrap/honeytrap/pushers/file"
)

type c07Line struct {
	ID  int `json:"id"`
	Len int `json:"len"`
}

type c07Step struct {
	A     string    `json:"a"` // write | remove | rename | wait
	Lines []c07Line `json:"lines"`
}

type c07Scenario struct {
	ID      int       `json:"id"`
	Level   string    `json:"level"` // rf | fb | fb-unwritable
	MaxSize int64     `json:"maxsize"`
	Steps   []c07Step `json:"steps"`
}

type c07Result struct {
	ID          int              `json:"id"`
	Lost        []int            `json:"lost,omitempty"`
	Dup         []int            `json:"dup,omitempty"`
	Corrupt     []string         `json:"corrupt,omitempty"`
	Oversize    []string         `json:"oversize_multi,omitempty"`
	Overwritten []string         `json:"overwritten,omitempty"`
	Blocked     string           `json:"blocked,omitempty"`
	Panic       string           `json:"panic,omitempty"`
	WriteErr    string           `json:"write_err,omitempty"`
	Layout      map[string][]int `json:"layout,omitempty"`
	Removed     []int            `json:"removed,omitempty"`
	Error       string           `json:"error,omitempty"`
}

func c07LineBytes(l c07Line) []byte {
	base := fmt.Sprintf(`{"id":%d,"pad":""}`+"\n", l.ID)
	pad := l.Len - len(base)
	if pad < 0 {
		pad = 0
	}
	return []byte(fmt.Sprintf(`{"id":%d,"pad":"%s"}`+"\n", l.ID, strings.Repeat("x", pad)))
}

func snapshotDir(dir string) map[string][]byte {
	out := map[string][]byte{}
	fis, _ := ioutil.ReadDir(dir)
	for _, fi := range fis {
		if fi.IsDir() {
			continue
		}
		b, err := ioutil.ReadFile(filepath.Join(dir, fi.Name()))
		if err == nil {
			out[fi.Name()] = b
		}
	}
	return out
}

// evaluate the property's predicates on the files in dir
func c07Evaluate(res *c07Result, dir, base string, maxSize int64, sent map[int][]byte, removed map[int]bool, exact bool) {
	snap := snapshotDir(dir)
	seen := map[int]int{}
	res.Layout = map[string][]int{}
	names := []string{}
	for n := range snap {
		names = append(names, n)
	}
	sort.Strings(names)
	for _, name := range names {
		content := snap[name]
		lines := bytes.Split(content, []byte("\n"))
		if len(lines) > 0 && len(lines[len(lines)-1]) == 0 {
			lines = lines[:len(lines)-1]
		}
		ids := []int{}
		for _, ln := range lines {
			var m struct {
				ID  *int   `json:"id"`
				Pad string `json:"pad"`
			}
			if err := json.Unmarshal(ln, &m); err != nil || m.ID == nil {
				if len(res.Corrupt) < 5 {
					s := string(ln)
					if len(s) > 60 {
						s = s[:30] + "..." + s[len(s)-20:]
					}
					res.Corrupt = append(res.Corrupt, fmt.Sprintf("%s: unparseable line %q", name, s))
				}
				continue
			}
			want, ok := sent[*m.ID]
			if !ok {
				res.Corrupt = append(res.Corrupt, fmt.Sprintf("%s: line with unknown id %d", name, *m.ID))
				continue
			}
			if exact && !bytes.Equal(append(append([]byte{}, ln...), '\n'), want) {
				if len(res.Corrupt) < 5 {
					res.Corrupt = append(res.Corrupt, fmt.Sprintf("%s: line %d differs from what was sent (%d vs %d bytes)", name, *m.ID, len(ln)+1, len(want)))
				}
				continue
			}
			if !exact {
				// FileBackend: the line is the JSON of the event; compare the pad field
				var w struct {
					Pad string `json:"pad"`
				}
				json.Unmarshal(want, &w)
				if w.Pad != m.Pad {
					res.Corrupt = append(res.Corrupt, fmt.Sprintf("%s: event %d pad differs", name, *m.ID))
					continue
				}
			}
			seen[*m.ID]++
			ids = append(ids, *m.ID)
		}
		res.Layout[name] = ids
		if int64(len(content)) > maxSize && len(lines) > 1 {
			res.Oversize = append(res.Oversize, fmt.Sprintf("%s: %d bytes in %d lines (max %d)", name, len(content), len(lines), maxSize))
		}
	}
	for id := range sent {
		switch {
		case seen[id] == 0 && !removed[id]:
			res.Lost = append(res.Lost, id)
		case seen[id] > 1:
			res.Dup = append(res.Dup, id)
		}
	}
	sort.Ints(res.Lost)
	sort.Ints(res.Dup)
	for id := range removed {
		res.Removed = append(res.Removed, id)
	}
	sort.Ints(res.Removed)
}

func checkOverwrite(res *c07Result, prev, cur map[string][]byte, base string) {
	for name, old := range prev {
		if name == base || strings.HasPrefix(name, "taken-") {
			continue
		}
		now, ok := cur[name]
		if !ok {
			res.Overwritten = append(res.Overwritten, fmt.Sprintf("rotated file %s disappeared", name))
		} else if !bytes.HasPrefix(now, old) {
			res.Overwritten = append(res.Overwritten, fmt.Sprintf("rotated file %s was overwritten (%d bytes -> %d bytes, different content)", name, len(old), len(now)))
		}
	}
}

func c07RunRF(sc c07Scenario) (res c07Result) {
	res.ID = sc.ID
	dir, err := ioutil.TempDir(scratchDir(), "c07-")
	if err != nil {
		res.Error = err.Error()
		return
	}
	defer os.RemoveAll(dir)
	base := "events.json"
	path := filepath.Join(dir, base)
	rf, err := fschannel.OpenRotateFile(path, 0600, sc.MaxSize)
	if err != nil {
		res.Error = err.Error()
		return
	}
	defer func() { rf.Close() }()
	sent := map[int][]byte{}
	removed := map[int]bool{}
	inActive := []int{}
	prev := snapshotDir(dir)
	taken := 0
	for _, st := range sc.Steps {
		switch st.A {
		case "write":
			var batch []byte
			for _, l := range st.Lines {
				b := c07LineBytes(l)
				sent[l.ID] = b
				batch = append(batch, b...)
			}
			done := make(chan string, 1)
			go func() {
				defer func() {
					if r := recover(); r != nil {
						done <- fmt.Sprint("panic: ", r)
					}
				}()
				n, err := rf.Write(batch)
				if err != nil {
					done <- "err: " + err.Error()
				} else if n != len(batch) {
					done <- fmt.Sprintf("short: Write returned %d for %d bytes", n, len(batch))
				} else {
					done <- ""
				}
			}()
			select {
			case msg := <-done:
				if strings.HasPrefix(msg, "panic") {
					res.Panic = msg
					return
				} else if msg != "" {
					res.WriteErr = msg
				}
			case <-time.After(20 * time.Second):
				res.Blocked = fmt.Sprintf("Write of %d bytes did not return within 20s", len(batch))
				return
			}
		case "reopen":
			// the channel is closed and opened again on the same path (restart)
			rf.Sync()
			rf.Close()
			rf, err = fschannel.OpenRotateFile(path, 0600, sc.MaxSize)
			if err != nil {
				res.Error = "reopen: " + err.Error()
				return
			}
		case "remove", "rename":
			// which ids are in the active file right now?
			cur := snapshotDir(dir)
			inActive = inActive[:0]
			for _, ln := range bytes.Split(cur[base], []byte("\n")) {
				var m struct {
					ID *int `json:"id"`
				}
				if json.Unmarshal(ln, &m) == nil && m.ID != nil {
					inActive = append(inActive, *m.ID)
				}
			}
			if st.A == "remove" {
				os.Remove(path)
				for _, id := range inActive {
					removed[id] = true
				}
			} else {
				taken++
				os.Rename(path, filepath.Join(dir, fmt.Sprintf("taken-%d", taken)))
			}
			prev = snapshotDir(dir)
			continue
		}
		cur := snapshotDir(dir)
		checkOverwrite(&res, prev, cur, base)
		prev = cur
	}
	rf.Sync()
	c07Evaluate(&res, dir, base, sc.MaxSize, sent, removed, true)
	return
}

func c07RunFB(sc c07Scenario) (res c07Result) {
	res.ID = sc.ID
	dir, err := ioutil.TempDir(scratchDir(), "c07fb-")
	if err != nil {
		res.Error = err.Error()
		return
	}
	defer os.RemoveAll(dir)
	base := "events.json"
	path := filepath.Join(dir, base)
	if sc.Level == "fb-unwritable" {
		// the parent of the log file is a regular file: it can never be opened (we run as root,
		// permission bits would not stop us)
		ioutil.WriteFile(filepath.Join(dir, "blocker"), []byte("x"), 0600)
		path = filepath.Join(dir, "blocker", base)
	}
	fn, _ := pushers.Get("file")
	open := func() (pushers.Channel, error) {
		return fn(func(c pushers.Channel) error {
			fb := c.(*fschannel.FileBackend)
			fb.File = path
			fb.MaxSize = sc.MaxSize
			return nil
		})
	}
	ch, err := open()
	if err != nil {
		res.Error = err.Error()
		return
	}
	sent := map[int][]byte{}
	prev := snapshotDir(dir)
	for _, st := range sc.Steps {
		switch st.A {
		case "write":
			for _, l := range st.Lines {
				pad := l.Len - 80
				if pad < 0 {
					pad = 0
				}
				p := strings.Repeat("y", pad)
				b, _ := json.Marshal(map[string]interface{}{"id": l.ID, "pad": p})
				sent[l.ID] = b
				done := make(chan struct{})
				go func() {
					ch.Send(event.New(event.Custom("id", l.ID), event.Custom("pad", p)))
					close(done)
				}()
				select {
				case <-done:
				case <-time.After(5 * time.Second):
					res.Blocked = fmt.Sprintf("Send of event %d did not return within 5s", l.ID)
					return
				}
			}
		case "wait":
			time.Sleep(1300 * time.Millisecond)
			cur := snapshotDir(dir)
			checkOverwrite(&res, prev, cur, base)
			prev = cur
		case "reopen":
			// a restart after the flush interval has passed: the channel is closed and a new one
			// takes over the same file (Close itself does not flush: events still buffered when it
			// is called are outside what the property promises)
			time.Sleep(1300 * time.Millisecond)
			closed := make(chan struct{})
			go func() {
				ch.(*fschannel.FileBackend).Close()
				close(closed)
			}()
			select {
			case <-closed:
			case <-time.After(10 * time.Second):
				res.Blocked = "Close of the file channel did not return within 10s"
				return
			}
			cur := snapshotDir(dir)
			checkOverwrite(&res, prev, cur, base)
			prev = cur
			if ch, err = open(); err != nil {
				res.Error = "reopen: " + err.Error()
				return
			}
		}
	}
	time.Sleep(1500 * time.Millisecond)
	cur := snapshotDir(dir)
	checkOverwrite(&res, prev, cur, base)
	if sc.Level == "fb-unwritable" {
		return // only "never blocks" is at stake
	}
	c07Evaluate(&res, dir, base, sc.MaxSize, sent, map[int]bool{}, false)
	return
}

func c07Main(args []string) error {
	fs := flag.NewFlagSet("c07", flag.ExitOnError)
	in := fs.String("in", "", "scenario ndjson")
	out := fs.String("out", "", "result ndjson")
	par := fs.Int("par", 1, "scenarios in flight (fb level: each waits for real flush timers)")
	fs.Parse(args)
	quietLogs()
	defer cleanupScratch()
	o, err := newJSONOut(*out)
	if err != nil {
		return err
	}
	defer o.Close()
	var scs []c07Scenario
	if err := readJSONLines(*in, func(line []byte) error {
		var sc c07Scenario
		if err := json.Unmarshal(line, &sc); err != nil {
			return err
		}
		if sc.MaxSize == 0 {
			sc.MaxSize = 1024
		}
		scs = append(scs, sc)
		return nil
	}); err != nil {
		return err
	}
	sem := make(chan struct{}, *par)
	var wg sync.WaitGroup
	for _, sc := range scs {
		sc := sc
		if sc.Level == "" || sc.Level == "rf" {
			o.Put(c07RunRF(sc))
			continue
		}
		wg.Add(1)
		sem <- struct{}{}
		go func() {
			defer wg.Done()
			defer func() { <-sem }()
			o.Put(c07RunFB(sc))
		}()
	}
	wg.Wait()
	return nil
}

func init() { register("c07", c07Main) }
