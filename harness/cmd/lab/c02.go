//go:build verif
// +build verif

package main

// C02: no frame on the wire can terminate the raw (canary) listener. Frames described by
// the CanaryParse.tla lattice are built into bytes and written to the socketpair of a
// real Canary (hook VerifNew); they flow through the real Start loop. After every frame a
// well-formed UDP probe to an undecoded port must still yield its event. The process
// dying is observed by the parent (this command runs as a child).

import (
	"context"
	"encoding/binary"
	"encoding/json"
	"flag"
	"fmt"
	"math/rand"
	"net"
	"os"
	"syscall"
	"time"

	"github.com/honeytrap/honeytrap/listener/canary"
)

type c02Frame struct {
	Eth   string   `json:"eth"`
	IHL   int      `json:"ihl"`
	IPLen int      `json:"iplen"`
	Total int      `json:"total"`
	Proto int      `json:"proto"`
	Doff  int      `json:"doff"`
	Opts  []int    `json:"opts"`
	ULen  int      `json:"ulen"`
	ToMe  bool     `json:"tome"`
	Peer  string   `json:"peer"`
	Flags []string `json:"flags"`
	Raw   string   `json:"raw,omitempty"` // hex of a complete frame (random-bytes mode)
	Sport int      `json:"sport,omitempty"`
}

type c02Item struct {
	ID int      `json:"id"`
	F  c02Frame `json:"f"`
}

var (
	macMe   = net.HardwareAddr{0x02, 0, 0, 0, 0, 0x01}
	macPeer = net.HardwareAddr{0x02, 0, 0, 0, 0, 0x10}
	ipMe    = net.IPv4(127, 0, 0, 1)
)

func peerIP(kind string) net.IP {
	switch kind {
	case "route":
		return net.IPv4(10, 1, 0, 5)
	case "gwless":
		return net.IPv4(10, 2, 0, 9)
	case "onlink":
		return net.IPv4(10, 3, 0, 9)
	case "none":
		return net.IPv4(172, 16, 9, 9)
	}
	return net.IPv4(10, 0, 0, 2)
}

func c02Build(f c02Frame, n int) []byte {
	eth := make([]byte, 14)
	copy(eth[0:6], macMe)
	copy(eth[6:12], macPeer)
	switch f.Eth {
	case "ipv4":
		eth[12], eth[13] = 0x08, 0x00
	case "arp":
		eth[12], eth[13] = 0x08, 0x06
	default:
		eth[12], eth[13] = 0x12, 0x34
	}
	ip := make([]byte, 20+65535)
	ip[0] = 0x40 | byte(f.IHL&0x0f)
	binary.BigEndian.PutUint16(ip[2:4], uint16(f.Total))
	ip[8] = 64
	ip[9] = byte(f.Proto)
	copy(ip[12:16], peerIP(f.Peer).To4())
	if f.ToMe {
		copy(ip[16:20], ipMe.To4())
	} else {
		copy(ip[16:20], net.IPv4(10, 0, 0, 99).To4())
	}
	l4 := ip[20:]
	sport := f.Sport
	if sport == 0 {
		sport = 20000 + n%20000
	}
	switch f.Proto {
	case 6:
		binary.BigEndian.PutUint16(l4[0:2], uint16(sport))
		binary.BigEndian.PutUint16(l4[2:4], 9999)
		binary.BigEndian.PutUint32(l4[4:8], uint32(1000+n))
		l4[12] = byte(f.Doff << 4)
		var fl byte
		for _, x := range f.Flags {
			switch x {
			case "FIN":
				fl |= 0x01
			case "SYN":
				fl |= 0x02
			case "RST":
				fl |= 0x04
			case "PSH":
				fl |= 0x08
			case "ACK":
				fl |= 0x10
			}
		}
		l4[13] = fl
		binary.BigEndian.PutUint16(l4[14:16], 65535)
		for i, o := range f.Opts {
			l4[20+i] = byte(o)
		}
	case 17:
		binary.BigEndian.PutUint16(l4[0:2], uint16(sport))
		binary.BigEndian.PutUint16(l4[2:4], 9999)
		binary.BigEndian.PutUint16(l4[4:6], uint16(f.ULen))
	case 1:
		l4[0] = 8
	}
	n2 := f.IPLen
	if n2 < 0 {
		n2 = 0
	}
	if n2 > 1586 {
		n2 = 1586
	}
	return append(eth, ip[:n2]...)
}

func c02Probe(seq int) []byte {
	payload := []byte(fmt.Sprintf("PROBE-%d", seq))
	eth := make([]byte, 14)
	copy(eth[0:6], macMe)
	copy(eth[6:12], macPeer)
	eth[12], eth[13] = 0x08, 0x00
	total := 20 + 8 + len(payload)
	ip := make([]byte, total)
	ip[0] = 0x45
	binary.BigEndian.PutUint16(ip[2:4], uint16(total))
	ip[8] = 64
	ip[9] = 17
	copy(ip[12:16], net.IPv4(10, 0, 0, 3).To4())
	copy(ip[16:20], ipMe.To4())
	binary.BigEndian.PutUint16(ip[20:22], 4444)
	binary.BigEndian.PutUint16(ip[22:24], uint16(30000+seq%1000))
	binary.BigEndian.PutUint16(ip[24:26], uint16(8+len(payload)))
	copy(ip[28:], payload)
	return append(eth, ip...)
}

type canaryRig struct {
	c    *canary.Canary
	peer int
}

func newCanaryRig(start bool) (*canaryRig, error) {
	_, net10, _ := net.ParseCIDR("10.1.0.0/16")
	_, netGwless, _ := net.ParseCIDR("10.2.0.0/16") // via a gateway that has no ARP entry
	_, netOnlink, _ := net.ParseCIDR("10.3.0.0/16") // on link: no gateway, senders not in the cache
	c, peer, err := canary.VerifNew(&captureChannel{Name: "canary"},
		[]canary.VerifPeer{
			{IP: net.IPv4(10, 0, 0, 2), MAC: macPeer},
			{IP: net.IPv4(10, 0, 0, 3), MAC: macPeer},
			{IP: net.IPv4(10, 0, 0, 254), MAC: net.HardwareAddr{0x02, 0, 0, 0, 0, 0xfe}},
		},
		[]canary.VerifRoute{{Destination: *net10, Gateway: net.IPv4(10, 0, 0, 254)},
			{Destination: *netGwless, Gateway: net.IPv4(10, 0, 0, 253)},
			{Destination: *netOnlink, Gateway: net.IPv4zero}})
	if err != nil {
		return nil, err
	}
	if start {
		if err := c.Start(context.Background()); err != nil {
			return nil, err
		}
	}
	return &canaryRig{c: c, peer: peer}, nil
}

func (r *canaryRig) write(frame []byte) error {
	for {
		err := syscall.Sendto(r.peer, frame, 0, nil)
		if err == syscall.EAGAIN || err == syscall.ENOBUFS {
			time.Sleep(100 * time.Microsecond)
			continue
		}
		return err
	}
}

// probe sends a well-formed UDP datagram to an undecoded port and waits for its event
func (r *canaryRig) probe(seq int, timeout time.Duration) bool {
	want := fmt.Sprintf("PROBE-%d", seq)
	mark := hub.Len()
	if err := r.write(c02Probe(seq)); err != nil {
		return false
	}
	deadline := time.Now().Add(timeout)
	for {
		for _, e := range hub.Since(mark) {
			if p, _ := e.Map["payload"].(string); p == want {
				return true
			}
		}
		if time.Now().After(deadline) {
			return false
		}
		time.Sleep(50 * time.Microsecond)
	}
}

func c02Main(args []string) error {
	fs := flag.NewFlagSet("c02", flag.ExitOnError)
	in := fs.String("in", "", "frame records ndjson")
	progress := fs.String("progress", "", "progress file: last frame id handed to the listener")
	from := fs.Int("from", 0, "skip records with id < from")
	fill := fs.Int("fill", 0, "pre-fill the connection table with this many half-open connections")
	flood := fs.Int("flood", 0, "send this many distinct SYNs after the records")
	random := fs.Int("random", 0, "send this many random-byte frames after the records")
	seed := fs.Int64("seed", 1, "seed")
	quiet := fs.Bool("quiet", false, "after everything else: 5.7 s of silence (the knock detector reports), then a probe")
	fs.Parse(args)
	quietLogs()
	rig, err := newCanaryRig(true)
	if err != nil {
		return err
	}
	pf, err := os.Create(*progress)
	if err != nil {
		return err
	}
	note := func(s string) {
		pf.WriteString(s + "\n")
	}
	if !rig.probe(0, 5*time.Second) {
		note("noprobe -1")
		return fmt.Errorf("initial probe not answered")
	}
	if *fill > 0 {
		rig.c.VerifFillStateTable(*fill)
	}
	seq := 1
	step := func(id int, frame []byte) bool {
		note(fmt.Sprintf("sent %d", id))
		rig.write(frame)
		seq++
		if !rig.probe(seq, 3*time.Second) {
			note(fmt.Sprintf("noprobe %d", id))
			return false
		}
		return true
	}
	if *in != "" {
		err = readJSONLines(*in, func(line []byte) error {
			var it c02Item
			if err := json.Unmarshal(line, &it); err != nil {
				return err
			}
			if it.ID < *from {
				return nil
			}
			if !step(it.ID, c02Build(it.F, it.ID)) {
				return fmt.Errorf("listener stopped answering after frame %d", it.ID)
			}
			return nil
		})
		if err != nil {
			return err
		}
	}
	rng := rand.New(rand.NewSource(*seed))
	for i := 0; i < *random; i++ {
		id := 1000000 + i
		if id < *from {
			rng.Intn(1) // keep the stream aligned is not needed: frames are regenerated from (seed, i)
		}
		r2 := rand.New(rand.NewSource(*seed*1000003 + int64(i)))
		n := 14 + r2.Intn(1587)
		frame := make([]byte, n)
		r2.Read(frame)
		if i%2 == 0 && n >= 34 {
			// let half of them get past the Ethernet/IPv4 type checks
			frame[12], frame[13] = 0x08, 0x00
			frame[14] = 0x40 | byte(r2.Intn(16))
			frame[23] = []byte{1, 6, 17, 6, 17}[r2.Intn(5)]
			if i%4 == 0 {
				copy(frame[30:34], ipMe.To4())
			}
		}
		if id < *from {
			continue
		}
		if !step(id, frame) {
			return fmt.Errorf("listener stopped answering after random frame %d", i)
		}
	}
	for i := 0; i < *flood; i++ {
		id := 2000000 + i
		if id < *from {
			continue
		}
		f := c02Frame{Eth: "ipv4", IHL: 5, IPLen: 40, Total: 40, Proto: 6, Doff: 5, ToMe: true, Peer: "arp", Flags: []string{"SYN"}, Sport: 1 + i%65000}
		frame := c02Build(f, i)
		// distinct source addresses as well
		frame[14+12], frame[14+13], frame[14+14], frame[14+15] = 10, 0, 0, 2
		binary.BigEndian.PutUint32(frame[14+20+4:], uint32(i))
		note(fmt.Sprintf("sent %d", id))
		rig.write(frame)
		if i%64 == 63 || i == *flood-1 {
			seq++
			if !rig.probe(seq, 20*time.Second) {
				note(fmt.Sprintf("noprobe %d", id))
				return fmt.Errorf("listener stopped answering during the flood at %d", i)
			}
		}
	}
	// a history, not a frame: by now one peer has knocked on hundreds of distinct ports (every probe goes to another
	// one); when the wire falls silent for the detector's quiet period (5 s) the port scan is reported - by a goroutine
	// of the listener's that must survive it
	if *quiet {
		note("sent 3000000")
		time.Sleep(5700 * time.Millisecond)
		seq++
		if !rig.probe(seq, 5*time.Second) {
			note("noprobe 3000000")
			return fmt.Errorf("listener stopped answering after the quiet period")
		}
	}
	note(fmt.Sprintf("done states=%d", rig.c.VerifStateCount()))
	return nil
}

func init() { register("c02", c02Main) }
