package main

// C17 (decoder part): the transition table of Decoder.tla, as printed by TLC, is
//  (1) turned into one implementation test per transition (state reached through the
//      API: Seek(off), then a failing Seek if the error flag is to be set), and
//  (2) used as the oracle while ALL operation sequences up to a length bound, and seeded
//      long sequences, are run on the real services/decoder.Decode.
// A Go panic is a failed step.

import (
	"encoding/json"
	"flag"
	"fmt"
	"math/rand"
	"sort"
	"sync"

	"github.com/honeytrap/honeytrap/services/decoder"
)

type decOp struct {
	Name string `json:"name"`
	N    int    `json:"n"`
}

type decRet struct {
	V  *int  `json:"v,omitempty"`
	Hi *int  `json:"hi,omitempty"`
	Lo *int  `json:"lo,omitempty"`
	B  []int `json:"b,omitempty"`
}

type decTrans struct {
	Buf  []int  `json:"buf"`
	Off  int    `json:"off"`
	Err  bool   `json:"err"`
	Op   decOp  `json:"op"`
	Ret  decRet `json:"ret"`
	Off2 int    `json:"off2"`
	Err2 bool   `json:"err2"`
}

type decKey struct {
	buf string
	off int
	err bool
	op  string
	n   int
}

type decObs struct {
	Ret   string `json:"ret"`
	Off   int    `json:"off"`
	Err   bool   `json:"err"`
	Panic string `json:"panic,omitempty"`
}

type decMismatch struct {
	Mode   string   `json:"mode"`
	Buf    []int    `json:"buf"`
	Ops    []decOp  `json:"ops"`
	Step   int      `json:"step"`
	Expect decObs   `json:"expect"`
	Got    decObs   `json:"got"`
	Trace  []decObs `json:"trace,omitempty"`
}

func bufBytes(b []int) []byte {
	out := make([]byte, len(b))
	for i, v := range b {
		out[i] = byte(v)
	}
	return out
}

func expectRet(t *decTrans) string {
	r := t.Ret
	switch {
	case r.Hi != nil && r.Lo != nil:
		u := uint32(*r.Hi)<<16 | uint32(*r.Lo)
		if t.Op.Name == "Int32" {
			return fmt.Sprintf("%d", int32(u))
		}
		return fmt.Sprintf("%d", u)
	case r.V != nil:
		return fmt.Sprintf("%d", *r.V)
	default:
		return fmt.Sprintf("%x", bufBytes(r.B))
	}
}

// applyOp runs one operation on the real decoder and projects the observable state.
func applyOp(d *decoder.Decode, total int, op decOp) (o decObs) {
	defer func() {
		if r := recover(); r != nil {
			o.Panic = fmt.Sprint(r)
		}
	}()
	switch op.Name {
	case "Byte":
		o.Ret = fmt.Sprintf("%d", d.Byte())
	case "Int16":
		o.Ret = fmt.Sprintf("%d", d.Int16())
	case "Int32":
		o.Ret = fmt.Sprintf("%d", d.Int32())
	case "Uint32":
		o.Ret = fmt.Sprintf("%d", d.Uint32())
	case "PeekByte":
		o.Ret = fmt.Sprintf("%d", d.PeekByte())
	case "PeekInt16":
		o.Ret = fmt.Sprintf("%d", d.PeekInt16())
	case "Copy":
		o.Ret = fmt.Sprintf("%x", d.Copy(op.N))
	case "Seek":
		d.Seek(op.N)
		o.Ret = "0"
	case "Data":
		o.Ret = fmt.Sprintf("%x", []byte(d.Data()))
	case "HasBytes":
		if d.HasBytes(op.N) == nil {
			o.Ret = "1"
		} else {
			o.Ret = "0"
		}
	default:
		o.Panic = "harness: unknown op " + op.Name
	}
	o.Off = total - d.Available()
	o.Err = d.LastError() != nil
	return o
}

func c17decMain(args []string) error {
	fs := flag.NewFlagSet("c17dec", flag.ExitOnError)
	in := fs.String("in", "", "transition table ndjson (from TLC)")
	out := fs.String("out", "", "result json")
	seqLen := fs.Int("seqlen", 3, "exhaustive operation sequences up to this length")
	randomN := fs.Int("random", 2000, "seeded long sequences")
	randomLen := fs.Int("randomlen", 40, "length of the long sequences")
	seed := fs.Int64("seed", 1, "seed")
	fs.Parse(args)

	table := map[decKey]*decTrans{}
	bufs := map[string][]int{}
	opsSet := map[decOp]bool{}
	var all []*decTrans
	if err := readJSONLines(*in, func(line []byte) error {
		t := &decTrans{}
		if err := json.Unmarshal(line, t); err != nil {
			return err
		}
		k := decKey{fmt.Sprint(t.Buf), t.Off, t.Err, t.Op.Name, t.Op.N}
		table[k] = t
		bufs[k.buf] = t.Buf
		opsSet[t.Op] = true
		all = append(all, t)
		return nil
	}); err != nil {
		return err
	}
	var ops []decOp
	for o := range opsSet {
		ops = append(ops, o)
	}
	// deterministic order
	for i := 0; i < len(ops); i++ {
		for j := i + 1; j < len(ops); j++ {
			if ops[j].Name < ops[i].Name || (ops[j].Name == ops[i].Name && ops[j].N < ops[i].N) {
				ops[i], ops[j] = ops[j], ops[i]
			}
		}
	}

	var mu sync.Mutex
	var mismatches []decMismatch
	counts := map[string]int64{}
	report := func(m decMismatch) {
		mu.Lock()
		if len(mismatches) < 200 {
			mismatches = append(mismatches, m)
		}
		counts["mismatches"]++
		mu.Unlock()
	}

	// (1) one implementation test per transition
	for _, t := range all {
		raw := bufBytes(t.Buf)
		d := decoder.NewDecoder(raw)
		path := []decOp{}
		if t.Off != 0 {
			path = append(path, decOp{"Seek", t.Off})
		}
		if t.Err {
			path = append(path, decOp{"Seek", len(raw) + 1})
		}
		bad := false
		for _, p := range path {
			o := applyOp(d, len(raw), p)
			if o.Panic != "" {
				report(decMismatch{Mode: "transition-setup", Buf: t.Buf, Ops: path, Got: o})
				bad = true
				break
			}
		}
		if bad {
			continue
		}
		if len(raw)-d.Available() != t.Off || (d.LastError() != nil) != t.Err {
			report(decMismatch{Mode: "transition-setup", Buf: t.Buf, Ops: path,
				Expect: decObs{Off: t.Off, Err: t.Err}, Got: decObs{Off: len(raw) - d.Available(), Err: d.LastError() != nil}})
			continue
		}
		got := applyOp(d, len(raw), t.Op)
		exp := decObs{Ret: expectRet(t), Off: t.Off2, Err: t.Err2}
		counts["transitions"]++
		if got != exp {
			report(decMismatch{Mode: "transition", Buf: t.Buf, Ops: append(path, t.Op), Step: len(path), Expect: exp, Got: got})
		}
	}

	// (2) all operation sequences up to seqLen over all buffers, the table being the oracle
	runSeq := func(bufKey string, b []int, seq []decOp, mode string) {
		raw := bufBytes(b)
		d := decoder.NewDecoder(raw)
		off, errf := 0, false
		for i, op := range seq {
			t := table[decKey{bufKey, off, errf, op.Name, op.N}]
			if t == nil {
				report(decMismatch{Mode: mode + "-no-table-entry", Buf: b, Ops: seq, Step: i})
				return
			}
			got := applyOp(d, len(raw), op)
			exp := decObs{Ret: expectRet(t), Off: t.Off2, Err: t.Err2}
			if got != exp {
				report(decMismatch{Mode: mode, Buf: b, Ops: append([]decOp{}, seq[:i+1]...), Step: i, Expect: exp, Got: got})
				return
			}
			off, errf = t.Off2, t.Err2
		}
	}
	var keys []string
	for k := range bufs {
		keys = append(keys, k)
	}
	sort.Strings(keys)
	var wg sync.WaitGroup
	var seqCount int64
	for _, k := range keys {
		wg.Add(1)
		go func(k string) {
			defer wg.Done()
			b := bufs[k]
			var n int64
			seq := make([]decOp, 0, *seqLen)
			var rec func(depth int)
			rec = func(depth int) {
				if depth > 0 {
					runSeq(k, b, seq, "sequence")
					n++
				}
				if depth == *seqLen {
					return
				}
				for _, o := range ops {
					seq = append(seq, o)
					rec(depth + 1)
					seq = seq[:len(seq)-1]
				}
			}
			rec(0)
			mu.Lock()
			seqCount += n
			mu.Unlock()
		}(k)
	}
	wg.Wait()
	counts["sequences"] = seqCount

	// (3) seeded long sequences, arguments beyond the table's range are clamped to it
	rng := rand.New(rand.NewSource(*seed))
	for i := 0; i < *randomN; i++ {
		k := keys[rng.Intn(len(keys))]
		seq := make([]decOp, *randomLen)
		for j := range seq {
			seq[j] = ops[rng.Intn(len(ops))]
		}
		runSeq(k, bufs[k], seq, "random")
		counts["random_sequences"]++
	}

	o, err := newJSONOut(*out)
	if err != nil {
		return err
	}
	defer o.Close()
	o.Put(map[string]interface{}{"counts": counts, "buffers": len(keys), "ops": len(ops), "mismatches": mismatches})
	return nil
}

func init() { register("c17dec", c17decMain) }
