//go:build verif
// +build verif

package main

// C17 (IPP part, decode side): every generated request is given to the service's own decoder
// (hook ipp.VerifDecode) and the decoded operation, request id, groups, attributes, values and
// document are written out for comparison with what was encoded; the service's encoder is
// run on the decoded message as well (hook ipp.VerifReencode).

import (
	"encoding/hex"
	"encoding/json"
	"flag"
	"fmt"

	"github.com/honeytrap/honeytrap/services/ipp"
)

type c17IppIn struct {
	ID  int    `json:"id"`
	Hex string `json:"hex"`
}

func c17IppDecMain(args []string) error {
	fs := flag.NewFlagSet("c17ippdec", flag.ExitOnError)
	in := fs.String("in", "", "requests ndjson {id, hex}")
	out := fs.String("out", "", "result ndjson")
	fs.Parse(args)
	quietLogs()
	defer cleanupScratch()
	o, err := newJSONOut(*out)
	if err != nil {
		return err
	}
	defer o.Close()
	return readJSONLines(*in, func(line []byte) error {
		var rq c17IppIn
		if err := json.Unmarshal(line, &rq); err != nil {
			return err
		}
		raw, _ := hex.DecodeString(rq.Hex)
		res := map[string]interface{}{"id": rq.ID}
		func() {
			defer func() {
				if r := recover(); r != nil {
					res["panic"] = fmt.Sprint(r)
				}
			}()
			m, err := ipp.VerifDecode(raw)
			if err != nil {
				res["error"] = err.Error()
			}
			if m != nil {
				res["msg"] = m
				res["data_hex"] = hex.EncodeToString(m.Data)
				m.Data = nil
			}
			if re, err := ipp.VerifReencode(raw); err == nil {
				res["reencoded"] = hex.EncodeToString(re)
			}
		}()
		o.Put(res)
		return nil
	})
}

func init() { register("c17ippdec", c17IppDecMain) }
