package main

// C04, datagram clause through the REAL delivery path: honeytrap's own socket listener on a
// loopback port, a real datagram service behind it, real UDP sockets as clients.  The whole
// group of datagrams is sent before anything is awaited (several datagrams in flight between
// the listener's receive loop and their handlers); every datagram comes from its own source
// address (127.9.x.y: rate limiters and the attribution of events work per address).
// Reported: the events captured, as the script executor reports them.

import (
	"encoding/hex"
	"encoding/json"
	"flag"
	"fmt"
	"net"
	"time"
)

type c04sockScenario struct {
	ID     int      `json:"id"`
	Svc    string   `json:"svc"`    // service type
	Extra  string   `json:"extra"`  // extra lines of the [service] section
	Dgrams []string `json:"dgrams"` // hex, sent in this order, datagram i from 127.9.(i/250).(1+i%250)
	GapUs  int      `json:"gap_us"` // pause between two datagrams (0: back to back)
}

type c04sockResult struct {
	ID     int                      `json:"id"`
	Port   int                      `json:"port"`
	Sent   int                      `json:"sent"`
	Events []map[string]interface{} `json:"events"`
	Error  string                   `json:"error,omitempty"`
}

func c04sockSrc(i int) net.IP { return net.IPv4(127, 9, byte(i/250), byte(1+i%250)) }

func c04sockRun(sc c04sockScenario) c04sockResult {
	res := c04sockResult{ID: sc.ID}
	for attempt := 0; attempt < 4; attempt++ {
		hub.Reset()
		port := freePort()
		res.Port = port
		toml := fmt.Sprintf("[listener]\ntype=\"socket\"\n[channel.cap]\ntype=\"verif-capture\"\nname=\"cap\"\n[[filter]]\nchannel=[\"cap\"]\n"+
			"[service.s]\ntype=%q\n%s\n[[port]]\nport=\"udp/127.0.0.1:%d\"\nservices=[\"s\"]\n", sc.Svc, sc.Extra, port)
		srv, err := startServerAny(toml)
		if err != nil {
			res.Error = err.Error()
			return res
		}
		if !waitBound("udp", port) {
			srv.Stop()
			res.Error = fmt.Sprintf("socket listener did not bind udp/%d", port)
			continue
		}
		res.Error = ""
		dst := &net.UDPAddr{IP: net.IPv4(127, 0, 0, 1), Port: port}
		var socks []*net.UDPConn
		for i := range sc.Dgrams {
			c, err := net.DialUDP("udp", &net.UDPAddr{IP: c04sockSrc(i)}, dst)
			if err != nil {
				res.Error = "client socket: " + err.Error()
				break
			}
			socks = append(socks, c)
		}
		if res.Error == "" {
			for i, h := range sc.Dgrams {
				b, _ := hex.DecodeString(h)
				socks[i].Write(b)
				res.Sent++
				if sc.GapUs > 0 {
					time.Sleep(time.Duration(sc.GapUs) * time.Microsecond)
				}
			}
			hub.WaitQuiet(150*time.Millisecond, 4*time.Second)
			for _, e := range hub.Since(0) {
				res.Events = append(res.Events, cleanEvent(e.Map))
			}
		}
		for _, c := range socks {
			c.Close()
		}
		srv.Stop()
		return res
	}
	return res
}

func c04sockMain(args []string) error {
	fs := flag.NewFlagSet("udpsock", flag.ExitOnError)
	in := fs.String("in", "", "scenario ndjson")
	out := fs.String("out", "", "result ndjson")
	fs.Parse(args)
	quietLogs()
	defer cleanupScratch()
	o, err := newJSONOut(*out)
	if err != nil {
		return err
	}
	defer o.Close()
	return readJSONLines(*in, func(line []byte) error {
		var sc c04sockScenario
		if err := json.Unmarshal(line, &sc); err != nil {
			return err
		}
		o.Put(c04sockRun(sc))
		return nil
	})
}

func init() { register("udpsock", c04sockMain) }
