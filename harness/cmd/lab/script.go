package main

// Generic byte-level script executor against the REAL server running in-process with a
// given TOML configuration. Used by the protocol-level properties (C01, C03, C04, C09,
// C12, C13 ...): the orchestrator concretises TLC's abstract tokens into scripts, this
// executes them and reports raw observations (bytes received, events captured).
//
// scenario: {"id":..,"steps":[step...]}        one scenario at a time per server unless -par
// step ops:
//   open   {c, laddr:"ip:port", raddr:"ip:port"}            TCP connection via verif-mem
//   send   {c, hex, cuts:[offsets], gap_ms}                 write with the given segmentation
//   recv   {c, until:"quiet"|"re"|"eof", re, quiet_ms, timeout_ms}
//   close  {c}            close the client side;   shut {c}: half-close (CloseWrite)
//   udp    {laddr, raddr, hex, timeout_ms}                  one datagram (DummyUDPConn), waits for handle() to return
//   events {wait_ms}                                        events captured since the previous events step
//   sleep  {ms}
//   dial   {c, addr}      plain TCP dial to a real address (FTP passive data connections)
//   portaccept {c, d}     listens on a loopback port, sends PORT for it on the FTP control connection c, accepts the server's data connection as d
//   pasvdial {c, d}       sends PASV on the FTP control connection c, reads the 227 reply and dials the port it names as d

import (
	"bytes"
	"encoding/hex"
	"encoding/json"
	"flag"
	"fmt"
	"io/ioutil"
	"net"
	"os"
	"os/exec"
	"path/filepath"
	"regexp"
	"strconv"
	"strings"
	"sync"
	"time"
)

type scStep struct {
	Op        string `json:"op"`
	C         string `json:"c,omitempty"`
	D         string `json:"d,omitempty"`
	Laddr     string `json:"laddr,omitempty"`
	Raddr     string `json:"raddr,omitempty"`
	Addr      string `json:"addr,omitempty"`
	Hex       string `json:"hex,omitempty"`
	Cuts      []int  `json:"cuts,omitempty"`
	GapMs     int    `json:"gap_ms,omitempty"`
	Until     string `json:"until,omitempty"`
	Re        string `json:"re,omitempty"`
	QuietMs   int    `json:"quiet_ms,omitempty"`
	TimeoutMs int    `json:"timeout_ms,omitempty"`
	WaitMs    int    `json:"wait_ms,omitempty"`
	Ms        int    `json:"ms,omitempty"`
}

var pasvRe = regexp.MustCompile(`227 [^\r\n]*\(\d+,\d+,\d+,\d+,(\d+),(\d+)\)`)

type scScenario struct {
	ID    int      `json:"id"`
	Steps []scStep `json:"steps"`
}

type scObs struct {
	Op      string                   `json:"op"`
	Hex     string                   `json:"hex,omitempty"`
	EOF     bool                     `json:"eof,omitempty"`
	Timeout bool                     `json:"timeout,omitempty"`
	Ms      int                      `json:"ms,omitempty"`
	Err     string                   `json:"err,omitempty"`
	Replies []string                 `json:"replies,omitempty"`
	Done    bool                     `json:"done,omitempty"`
	Events  []map[string]interface{} `json:"events,omitempty"`
}

type scResult struct {
	ID    int     `json:"id"`
	Obs   []scObs `json:"obs"`
	Error string  `json:"error,omitempty"`
}

// sclient reads continuously in the background so that "recv" can wait on accumulated data.
type sclient struct {
	conn net.Conn
	mu   sync.Mutex
	buf  []byte
	eof  bool
	err  string
	last time.Time
}

func newSClient(c net.Conn) *sclient {
	s := &sclient{conn: c, last: time.Now()}
	go func() {
		b := make([]byte, 65536)
		for {
			n, err := c.Read(b)
			s.mu.Lock()
			if n > 0 {
				s.buf = append(s.buf, b[:n]...)
				s.last = time.Now()
			}
			if err != nil {
				s.eof = true
				s.err = err.Error()
				s.mu.Unlock()
				return
			}
			s.mu.Unlock()
		}
	}()
	return s
}

func (s *sclient) recv(st scStep) scObs {
	timeout := time.Duration(st.TimeoutMs) * time.Millisecond
	if timeout == 0 {
		timeout = 2 * time.Second
	}
	quiet := time.Duration(st.QuietMs) * time.Millisecond
	if quiet == 0 {
		quiet = 25 * time.Millisecond
	}
	var re *regexp.Regexp
	if st.Until == "re" {
		re = regexp.MustCompile(st.Re)
	}
	start := time.Now()
	o := scObs{Op: "recv"}
	for {
		s.mu.Lock()
		n := len(s.buf)
		eof := s.eof
		last := s.last
		done := false
		switch st.Until {
		case "re":
			done = re.Match(s.buf)
		case "eof":
			done = eof
		default: // quiet
			done = n > 0 && time.Since(last) >= quiet
		}
		if done || eof || time.Since(start) >= timeout {
			o.Hex = hex.EncodeToString(s.buf)
			s.buf = nil
			o.Ms = int(time.Since(start) / time.Millisecond)
			o.EOF = eof
			o.Timeout = !done && !eof
			s.mu.Unlock()
			return o
		}
		s.mu.Unlock()
		time.Sleep(500 * time.Microsecond)
	}
}

func parseHostPort(s string) (string, int) {
	h, p, err := net.SplitHostPort(s)
	if err != nil {
		return s, 0
	}
	n, _ := strconv.Atoi(p)
	return h, n
}

var (
	evMu   sync.Mutex
	evMark = map[int]int{} // scenario id -> hub position
)

func cleanEvent(m map[string]interface{}) map[string]interface{} {
	out := map[string]interface{}{}
	for k, v := range m {
		switch x := v.(type) {
		case time.Time:
			continue
		case []byte:
			out[k] = map[string]string{"$bytes": hex.EncodeToString(x)}
		case string, int, int64, uint16, uint32, bool, float64, int32, uint8, uint64, int16:
			out[k] = x
		case error:
			out[k] = "error: " + x.Error()
		case fmt.Stringer:
			out[k] = x.String()
		default:
			out[k] = fmt.Sprintf("%T:%v", v, v)
		}
	}
	return out
}

// connections a scenario leaves open on purpose (a peer that stays connected and silent): kept
// referenced until the process ends, or the runtime's finalizer would close them
var (
	heldOpenMu sync.Mutex
	heldOpen   []net.Conn
)

func runScript(m *memListener, sc scScenario, concurrent bool) scResult {
	res := scResult{ID: sc.ID}
	clients := map[string]*sclient{}
	raddrs := map[string]bool{}
	defer func() {
		for _, c := range clients {
			c.conn.Close()
		}
	}()
	mark := hub.Len()
	for _, st := range sc.Steps {
		switch st.Op {
		case "open":
			lh, lp := parseHostPort(st.Laddr)
			rh, rp := parseHostPort(st.Raddr)
			cl, err := m.DialTCP(tcpAddr(lh, lp), tcpAddr(rh, rp))
			if err != nil {
				res.Obs = append(res.Obs, scObs{Op: "open", Err: err.Error()})
				continue
			}
			clients[st.C] = newSClient(cl)
			raddrs[rh] = true
			res.Obs = append(res.Obs, scObs{Op: "open"})
		case "dial":
			cl, err := net.DialTimeout("tcp", st.Addr, 2*time.Second)
			if err != nil {
				res.Obs = append(res.Obs, scObs{Op: "dial", Err: err.Error()})
				continue
			}
			clients[st.C] = newSClient(cl)
			res.Obs = append(res.Obs, scObs{Op: "dial"})
		case "portaccept":
			c := clients[st.C]
			if c == nil {
				res.Obs = append(res.Obs, scObs{Op: "portaccept", Err: "no such connection"})
				continue
			}
			ln, err := net.Listen("tcp", "127.0.0.1:0")
			if err != nil {
				res.Obs = append(res.Obs, scObs{Op: "portaccept", Err: err.Error()})
				continue
			}
			port := ln.Addr().(*net.TCPAddr).Port
			fmt.Fprintf(c.conn, "PORT 127,0,0,1,%d,%d\r\n", port/256, port%256)
			ln.(*net.TCPListener).SetDeadline(time.Now().Add(3 * time.Second))
			dc, err := ln.Accept()
			ln.Close()
			if err != nil {
				res.Obs = append(res.Obs, scObs{Op: "portaccept", Err: err.Error()})
				continue
			}
			clients[st.D] = newSClient(dc)
			res.Obs = append(res.Obs, scObs{Op: "portaccept"})
		case "pasvdial":
			c := clients[st.C]
			if c == nil {
				res.Obs = append(res.Obs, scObs{Op: "pasvdial", Err: "no such connection"})
				continue
			}
			c.mu.Lock()
			from := len(c.buf)
			c.mu.Unlock()
			c.conn.Write([]byte("PASV\r\n"))
			port := 0
			for t0 := time.Now(); time.Since(t0) < 3*time.Second && port == 0; time.Sleep(5 * time.Millisecond) {
				c.mu.Lock()
				if from > len(c.buf) {
					from = 0
				}
				if m := pasvRe.FindSubmatch(c.buf[from:]); m != nil {
					hi, _ := strconv.Atoi(string(m[1]))
					lo, _ := strconv.Atoi(string(m[2]))
					port = hi*256 + lo
				}
				c.mu.Unlock()
			}
			if port == 0 {
				res.Obs = append(res.Obs, scObs{Op: "pasvdial", Err: "no 227 reply"})
				continue
			}
			cl, err := net.DialTimeout("tcp", fmt.Sprintf("127.0.0.1:%d", port), 2*time.Second)
			if err != nil {
				res.Obs = append(res.Obs, scObs{Op: "pasvdial", Err: err.Error()})
				continue
			}
			clients[st.D] = newSClient(cl)
			res.Obs = append(res.Obs, scObs{Op: "pasvdial"})
		case "send":
			c := clients[st.C]
			if c == nil {
				res.Obs = append(res.Obs, scObs{Op: "send", Err: "no such connection"})
				continue
			}
			data, _ := hex.DecodeString(st.Hex)
			prev := 0
			o := scObs{Op: "send"}
			for _, cut := range append(append([]int{}, st.Cuts...), len(data)) {
				if cut <= prev || cut > len(data) {
					continue
				}
				if _, err := c.conn.Write(data[prev:cut]); err != nil {
					o.Err = err.Error()
					break
				}
				prev = cut
				if cut < len(data) {
					gap := st.GapMs
					if gap == 0 {
						gap = 3
					}
					time.Sleep(time.Duration(gap) * time.Millisecond)
				}
			}
			res.Obs = append(res.Obs, o)
		case "recv":
			c := clients[st.C]
			if c == nil {
				res.Obs = append(res.Obs, scObs{Op: "recv", Err: "no such connection"})
				continue
			}
			res.Obs = append(res.Obs, c.recv(st))
		case "leave":
			if c := clients[st.C]; c != nil {
				heldOpenMu.Lock()
				heldOpen = append(heldOpen, c.conn)
				heldOpenMu.Unlock()
				delete(clients, st.C)
			}
			res.Obs = append(res.Obs, scObs{Op: "leave"})
		case "close":
			if c := clients[st.C]; c != nil {
				c.conn.Close()
			}
			res.Obs = append(res.Obs, scObs{Op: "close"})
		case "shut":
			if c := clients[st.C]; c != nil {
				if tc, ok := c.conn.(*net.TCPConn); ok {
					tc.CloseWrite()
				}
			}
			res.Obs = append(res.Obs, scObs{Op: "shut"})
		case "udp":
			lh, lp := parseHostPort(st.Laddr)
			rh, rp := parseHostPort(st.Raddr)
			data, _ := hex.DecodeString(st.Hex)
			to := time.Duration(st.TimeoutMs) * time.Millisecond
			if to == 0 {
				to = 5 * time.Second
			}
			raddrs[rh] = true
			replies, fin := sendUDPWait(m, udpAddr(lh, lp), udpAddr(rh, rp), data, to)
			o := scObs{Op: "udp", Done: fin}
			for _, r := range replies {
				o.Replies = append(o.Replies, hex.EncodeToString(r))
			}
			res.Obs = append(res.Obs, o)
		case "udpburst":
			// Ms datagrams (the given payloads round-robin) delivered at once from distinct source ports
			lh, lp := parseHostPort(st.Laddr)
			rh, rp := parseHostPort(st.Raddr)
			raddrs[rh] = true
			var payloads [][]byte
			for _, h := range strings.Split(st.Hex, ",") {
				b, _ := hex.DecodeString(h)
				payloads = append(payloads, b)
			}
			var bw sync.WaitGroup
			for i := 0; i < st.Ms; i++ {
				bw.Add(1)
				go func(i int) {
					defer bw.Done()
					// every datagram from its own source address (rate limiters work per address)
					ip := net.ParseIP(rh).To4()
					src := &net.UDPAddr{IP: net.IPv4(ip[0], ip[1], byte(i/250), byte(1+i%250)), Port: rp + i%50}
					sendUDPWait(m, udpAddr(lh, lp), src, payloads[i%len(payloads)], 6*time.Second)
				}(i)
			}
			bw.Wait()
			res.Obs = append(res.Obs, scObs{Op: "udpburst", Done: true})
		case "events":
			if st.WaitMs > 0 {
				time.Sleep(time.Duration(st.WaitMs) * time.Millisecond)
			}
			o := scObs{Op: "events", Events: []map[string]interface{}{}}
			evs := hub.Since(mark)
			mark += len(evs)
			for _, e := range evs {
				if concurrent {
					// only events naming one of this scenario's client addresses
					ip, _ := e.Map["source-ip"].(string)
					if !raddrs[ip] {
						continue
					}
				}
				ce := cleanEvent(e.Map)
				if e.JSONErr != "" {
					ce["$json_err"] = e.JSONErr
				}
				o.Events = append(o.Events, ce)
			}
			res.Obs = append(res.Obs, o)
		case "sleep":
			time.Sleep(time.Duration(st.Ms) * time.Millisecond)
			res.Obs = append(res.Obs, scObs{Op: "sleep"})
		default:
			res.Obs = append(res.Obs, scObs{Op: st.Op, Err: "unknown op"})
		}
	}
	return res
}

func scriptMain(args []string) error {
	fs := flag.NewFlagSet("script", flag.ExitOnError)
	in := fs.String("in", "", "scenario ndjson")
	out := fs.String("out", "", "result ndjson")
	cfg := fs.String("config", "", "TOML configuration file (may contain {SCRATCH})")
	par := fs.Int("par", 1, "scenarios in flight against the same server")
	fresh := fs.Bool("fresh", false, "start a fresh server for every scenario (one at a time)")
	fs.Parse(args)
	quietLogs()
	defer cleanupScratch()
	raw, err := ioutil.ReadFile(*cfg)
	if err != nil {
		return err
	}
	toml := strings.Replace(string(raw), "{SCRATCH}", scratchDir(), -1)
	o, err := newJSONOut(*out)
	if err != nil {
		return err
	}
	defer o.Close()
	var scs []scScenario
	if err := readJSONLines(*in, func(line []byte) error {
		var sc scScenario
		if err := json.Unmarshal(line, &sc); err != nil {
			return err
		}
		scs = append(scs, sc)
		return nil
	}); err != nil {
		return err
	}
	if *fresh {
		// one child process per scenario: several services keep process-global state
		// (smtp's DefaultServeMux, ftp's feature list, the badger store), so "a fresh
		// server" is only honest in a fresh process
		sem := make(chan struct{}, *par)
		var wg sync.WaitGroup
		for i, sc := range scs {
			sc := sc
			i := i
			wg.Add(1)
			sem <- struct{}{}
			go func() {
				defer wg.Done()
				defer func() { <-sem }()
				inF := filepath.Join(scratchDir(), fmt.Sprintf("one-%d.in", i))
				outF := filepath.Join(scratchDir(), fmt.Sprintf("one-%d.out", i))
				b, _ := json.Marshal(sc)
				ioutil.WriteFile(inF, b, 0600)
				cmd := exec.Command(os.Args[0], "script", "-in", inF, "-out", outF, "-config", *cfg)
				cmd.Env = append(os.Environ(), "VERIF_SCRATCH="+scratchDir())
				var stderr bytes.Buffer
				cmd.Stderr = &stderr
				err := cmd.Run()
				rb, rerr := ioutil.ReadFile(outF)
				os.Remove(inF)
				os.Remove(outF)
				var r scResult
				if rerr != nil || json.Unmarshal(bytes.TrimSpace(rb), &r) != nil {
					tail := stderr.String()
					if len(tail) > 1500 {
						tail = tail[len(tail)-1500:]
					}
					r = scResult{ID: sc.ID, Error: fmt.Sprintf("child failed: %v: %s", err, tail)}
				}
				o.Put(r)
			}()
		}
		wg.Wait()
		return nil
	}
	srv, err := startServer(toml)
	if err != nil {
		return err
	}
	defer srv.Stop()
	sem := make(chan struct{}, *par)
	var wg sync.WaitGroup
	for _, sc := range scs {
		sc := sc
		wg.Add(1)
		sem <- struct{}{}
		go func() {
			defer wg.Done()
			defer func() { <-sem }()
			o.Put(runScript(srv.mem, sc, *par > 1))
		}()
	}
	wg.Wait()
	return nil
}

func init() { register("script", scriptMain) }
