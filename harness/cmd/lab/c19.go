package main

// C19: exactly the well-formed port entries that name a service are listened on.
// Each TLC-generated configuration is rendered as TOML and wired by the real server.Run
// with the recording verif-mem listener (AddAddress calls, in order); probe connections
// then show which service each concrete address reaches. A second mode runs the exported
// server.ToAddr over all port numbers (flat space, validated by Ports_Trace).

import (
	"encoding/json"
	"flag"
	"fmt"
	"net"
	"strings"

	"github.com/honeytrap/honeytrap/server"
)

type c19PS struct {
	Text string `json:"text"`
}

type c19Entry struct {
	Port     []c19PS  `json:"port"`
	HasPorts bool     `json:"hasPorts"`
	Ports    []c19PS  `json:"ports"`
	Svcs     []string `json:"svcs"`
}

type c19Addr struct {
	Proto string `json:"proto"`
	IP    string `json:"ip"`
	Port  int    `json:"port"`
}

type c19Scenario struct {
	ID      int        `json:"id"`
	Cfg     []c19Entry `json:"cfg"`
	Targets []c19Addr  `json:"targets"`
}

type c19Result struct {
	ID       int       `json:"id"`
	Listened []c19Addr `json:"listened"`
	Reach    []string  `json:"reach"`
	Notes    []string  `json:"notes,omitempty"`
	Error    string    `json:"error,omitempty"`
}

func c19TOML(cfg []c19Entry) string {
	var b strings.Builder
	b.WriteString("[listener]\ntype=\"verif-mem\"\n[channel.cap]\ntype=\"verif-capture\"\nname=\"cap\"\n[[filter]]\nchannel=[\"cap\"]\n")
	b.WriteString("[service.s1]\ntype=\"verif-stub\"\nname=\"s1\"\n[service.s2]\ntype=\"verif-stub\"\nname=\"s2\"\n")
	for _, e := range cfg {
		b.WriteString("[[port]]\n")
		if len(e.Port) > 0 {
			fmt.Fprintf(&b, "port=%q\n", e.Port[0].Text)
		}
		if e.HasPorts {
			qs := []string{}
			for _, p := range e.Ports {
				qs = append(qs, fmt.Sprintf("%q", p.Text))
			}
			fmt.Fprintf(&b, "ports=[%s]\n", strings.Join(qs, ","))
		}
		qs := []string{}
		for _, s := range e.Svcs {
			qs = append(qs, fmt.Sprintf("%q", s))
		}
		fmt.Fprintf(&b, "services=[%s]\n", strings.Join(qs, ","))
	}
	return b.String()
}

func c19FromNet(a net.Addr) c19Addr {
	switch t := a.(type) {
	case *net.TCPAddr:
		ip := ""
		if t.IP != nil {
			ip = t.IP.String()
		}
		return c19Addr{"tcp", ip, t.Port}
	case *net.UDPAddr:
		ip := ""
		if t.IP != nil {
			ip = t.IP.String()
		}
		return c19Addr{"udp", ip, t.Port}
	}
	return c19Addr{a.Network(), a.String(), -1}
}

func c19Run(sc c19Scenario) c19Result {
	res := c19Result{ID: sc.ID, Listened: []c19Addr{}}
	stubs.reset()
	srv, err := startServer(c19TOML(sc.Cfg))
	if err != nil {
		res.Error = err.Error()
		return res
	}
	defer srv.Stop()
	for _, a := range srv.mem.Addresses() {
		res.Listened = append(res.Listened, c19FromNet(a))
	}
	for _, t := range sc.Targets {
		o := c08RunConn(srv.mem, c08Conn{Proto: t.Proto, IP: t.IP, Port: t.Port, Head: []string{"A", "x"}, R: 9999})
		if o.Note != "" {
			res.Notes = append(res.Notes, fmt.Sprintf("%v: %s", t, o.Note))
		}
		if o.Chosen != "none" && o.Hex != o.Sent {
			res.Notes = append(res.Notes, fmt.Sprintf("%v: stream differs", t))
		}
		res.Reach = append(res.Reach, o.Chosen)
	}
	return res
}

// c19Parse: the exported parser over a flat space of port strings.
func c19Parse(out *jsonOut) {
	emit := func(s string) {
		addr, proto, port, err := server.ToAddr(s)
		row := map[string]interface{}{"k": "parse", "text": s, "ok": err == nil && addr != nil}
		if err == nil && addr != nil {
			a := c19FromNet(addr)
			row["proto"], row["ip"], row["port"] = a.Proto, a.IP, a.Port
			row["proto2"], row["port2"] = proto, port
		}
		out.Put(row)
	}
	for n := -5; n <= 65540; n++ {
		emit(fmt.Sprintf("tcp/%d", n))
	}
	for n := -5; n <= 65540; n += 1 {
		if n%7 == 0 || n < 10 || n > 65530 {
			emit(fmt.Sprintf("udp/10.0.0.1:%d", n))
		}
	}
}

func c19Main(args []string) error {
	fs := flag.NewFlagSet("c19", flag.ExitOnError)
	in := fs.String("in", "", "scenario ndjson (from TLC)")
	out := fs.String("out", "", "result ndjson")
	parse := fs.Bool("parse", false, "run ToAddr over all port numbers instead")
	fs.Parse(args)
	quietLogs()
	defer cleanupScratch()
	o, err := newJSONOut(*out)
	if err != nil {
		return err
	}
	defer o.Close()
	if *parse {
		c19Parse(o)
		return nil
	}
	return readJSONLines(*in, func(line []byte) error {
		var sc c19Scenario
		if err := json.Unmarshal(line, &sc); err != nil {
			return err
		}
		o.Put(c19Run(sc))
		return nil
	})
}

func init() { register("c19", c19Main) }
