package main

// C16: the agent tunnel relays each remote connection's bytes in order, to it alone.
// The REAL agent listener (libdisco Noise_NK transport, TLV framing, session loop) is started
// by the real server on loopback; the harness plays a scripted agent using libdisco's client
// and honeytrap's own exported message types; an echo service answers per virtual connection.
// -codec runs the message codec round trip (MarshalBinary / UnmarshalBinary) instead.

import (
	"context"
	"encoding"
	"encoding/binary"
	"encoding/hex"
	"encoding/json"
	"flag"
	"fmt"
	"io"
	"net"
	"sync"
	"time"

	"github.com/honeytrap/honeytrap/listener/agent"
	"github.com/honeytrap/honeytrap/pushers"
	"github.com/honeytrap/honeytrap/services"
	"github.com/mimoo/disco/libdisco"
)

// ---- echo service: answers every chunk it reads with the same bytes; a chunk starting with 'Q'
// makes it close its side after answering.

type echoRecord struct {
	Local, Remote string
	Data          []byte
	Done          bool
	Agent         string
}

type echoHub struct {
	mu   sync.Mutex
	recs []*echoRecord
}

var echoes = &echoHub{}

type echoService struct{ ch pushers.Channel }

func (s *echoService) SetChannel(c pushers.Channel) { s.ch = c }

func (s *echoService) Handle(ctx context.Context, conn net.Conn) error {
	rec := &echoRecord{Local: conn.LocalAddr().String(), Remote: conn.RemoteAddr().String()}
	echoes.mu.Lock()
	echoes.recs = append(echoes.recs, rec)
	echoes.mu.Unlock()
	buf := make([]byte, 70000)
	for {
		n, err := conn.Read(buf)
		if n > 0 {
			echoes.mu.Lock()
			rec.Data = append(rec.Data, buf[:n]...)
			echoes.mu.Unlock()
			conn.Write(buf[:n])
			if buf[0] == 'Q' {
				break
			}
			if n == 333 {
				// a chunk of exactly 333 bytes makes the service slow: what the agent sends meanwhile (more data,
				// end of stream) is waiting for it when it reads again
				time.Sleep(40 * time.Millisecond)
			}
		}
		if err != nil {
			break
		}
	}
	echoes.mu.Lock()
	rec.Done = true
	echoes.mu.Unlock()
	return nil
}

func init() {
	services.Register("verif-echo", func(options ...services.ServicerFunc) services.Servicer {
		s := &echoService{}
		for _, o := range options {
			o(s)
		}
		return s
	})
}

// ---- scripted agent

type c16Msg struct {
	M string `json:"m"` // hello | data | quit | eof | disconnect (the agent goes away: last message)
	K int    `json:"k"`
	N int    `json:"n"`
}

type c16Scenario struct {
	ID   int      `json:"id"`
	Msgs []c16Msg `json:"msgs"`
	Size []int    `json:"size"` // payload size per message index (data/quit)
	// Pipelined: data messages are sent back to back without waiting for their echo (the
	// service then reads the next chunk while its previous answer is still on its way out)
	Pipelined bool `json:"pipelined,omitempty"`
	// At: per message index, where the service's reader is to be when the message arrives: "gap" (it has found its buffer
	// empty and released the lock but does not wait yet: held there through hook agent.VerifReadGap), "waiting" or ""
	At []string `json:"at,omitempty"`
}

// ---- gate in the reader's gap (hook agent.VerifReadGap): keyed by the virtual connection's remote address

type gapGate struct {
	hit     chan struct{}
	release chan struct{}
}

var gapGates = struct {
	mu sync.Mutex
	m  map[string]*gapGate
}{m: map[string]*gapGate{}}

func armGap(remote string) *gapGate {
	g := &gapGate{hit: make(chan struct{}), release: make(chan struct{})}
	gapGates.mu.Lock()
	gapGates.m[remote] = g
	gapGates.mu.Unlock()
	return g
}

func init() {
	agent.VerifReadGap = func(local, remote net.Addr) {
		gapGates.mu.Lock()
		g := gapGates.m[remote.String()]
		delete(gapGates.m, remote.String())
		gapGates.mu.Unlock()
		if g == nil {
			return
		}
		close(g.hit)
		select {
		case <-g.release:
		case <-time.After(5 * time.Second):
		}
	}
}

type c16Result struct {
	ID        int               `json:"id"`
	Delivered map[string]string `json:"delivered"` // k -> hex of what the CURRENT generation's service read
	Echoed    map[string]string `json:"echoed"`    // k -> hex of payloads received back tagged with k
	EOFs      map[string]int    `json:"eofs"`      // k -> EOF messages received for k
	Done      map[string]bool   `json:"done"`      // k -> the service of the latest announcement of k has seen the end of its stream and returned
	Notes     []string          `json:"notes,omitempty"`
	Stray     []string          `json:"stray"`
	Error     string            `json:"error,omitempty"`
}

// addresses of virtual connection k of scenario id (the remote port carries the scenario, several
// scenarios share one server process)
func c16Addr(id, k int) (net.Addr, net.Addr) {
	// unique per (scenario, connection): 4000 scenarios per address block, ten ports per scenario
	return &net.TCPAddr{IP: net.IPv4(192, 0, 2, 1), Port: 7000}, &net.TCPAddr{IP: net.IPv4(203, byte(id/4000), 113, byte(k)), Port: 20000 + (id%4000)*10 + k}
}

func chunkBytes(k, n, size int, quit bool) []byte {
	b := make([]byte, size)
	for i := range b {
		b[i] = byte('a' + (k*7+n*13+i)%26)
	}
	if size > 0 {
		b[0] = byte('A' + k)
		if quit {
			b[0] = 'Q'
		}
	}
	return b
}

func frameWrite(c net.Conn, typ int, m encoding.BinaryMarshaler) error {
	data, err := m.MarshalBinary()
	if err != nil {
		return err
	}
	hdr := []byte{byte(typ), 0, 0}
	binary.LittleEndian.PutUint16(hdr[1:3], uint16(len(data)))
	_, err = c.Write(append(hdr, data...))
	return err
}

func frameRead(c net.Conn) (int, []byte, error) {
	hdr := make([]byte, 3)
	if _, err := io.ReadFull(c, hdr); err != nil {
		return 0, nil, err
	}
	data := make([]byte, binary.LittleEndian.Uint16(hdr[1:3]))
	if _, err := io.ReadFull(c, data); err != nil {
		return 0, nil, err
	}
	return int(hdr[0]), data, nil
}

type agentRig struct {
	addr string
	pub  []byte
}

func c16Run(rig *agentRig, sc c16Scenario) c16Result {
	res := c16Result{ID: sc.ID, Delivered: map[string]string{}, Echoed: map[string]string{}, EOFs: map[string]int{}}
	cl, err := libdisco.Dial("tcp", rig.addr, &libdisco.Config{HandshakePattern: libdisco.Noise_NK, RemoteKey: rig.pub})
	if err != nil {
		res.Error = "dial: " + err.Error()
		return res
	}
	defer cl.Close()
	if err := frameWrite(cl, agent.TypeHandshake, agent.Handshake{ProtocolVersion: 1, Version: "verif", ShortCommitID: "abc", CommitID: "abcdef", Token: fmt.Sprintf("agent-%d", sc.ID)}); err != nil {
		res.Error = "handshake: " + err.Error()
		return res
	}
	// reader: frames from the server
	var mu sync.Mutex
	echoed := map[int][]byte{}
	eofs := map[int]int{}
	var stray []string
	keyOf := func(l, r net.Addr) int {
		for k := 1; k <= 9; k++ {
			la, ra := c16Addr(sc.ID, k)
			if l != nil && r != nil && l.String() == la.String() && r.String() == ra.String() {
				return k
			}
		}
		return 0
	}
	go func() {
		for {
			typ, data, err := frameRead(cl)
			if err != nil {
				return
			}
			mu.Lock()
			switch typ {
			case agent.TypeHandshakeResponse:
			case agent.TypeReadWriteTCP:
				m := agent.ReadWriteTCP{}
				m.UnmarshalBinary(data)
				if k := keyOf(m.Laddr, m.Raddr); k != 0 {
					echoed[k] = append(echoed[k], m.Payload...)
				} else {
					stray = append(stray, fmt.Sprintf("data for %v/%v", m.Laddr, m.Raddr))
				}
			case agent.TypeEOF:
				m := agent.EOF{}
				m.UnmarshalBinary(data)
				if k := keyOf(m.Laddr, m.Raddr); k != 0 {
					eofs[k]++
				} else {
					stray = append(stray, fmt.Sprintf("eof for %v/%v", m.Laddr, m.Raddr))
				}
			default:
				stray = append(stray, fmt.Sprintf("message type %d", typ))
			}
			mu.Unlock()
		}
	}()
	gone := false
	at := func(i int) string {
		if i >= 0 && i < len(sc.At) {
			return sc.At[i]
		}
		return ""
	}
	var gate *gapGate
	// the message after the next one is to arrive in the gap: the gate is armed before the reader can get there
	armFor := func(i int) {
		if at(i) == "gap" {
			_, ra := c16Addr(sc.ID, sc.Msgs[i].K)
			gate = armGap(ra.String())
		}
	}
	armFor(1) // (message 0 is the hello that creates the reader)
	for i, m := range sc.Msgs {
		la, ra := c16Addr(sc.ID, m.K)
		switch at(i) {
		case "gap":
			// wait until the reader is held in the gap (it is not if an earlier chunk never reached it)
			select {
			case <-gate.hit:
			case <-time.After(600 * time.Millisecond):
				res.Notes = append(res.Notes, fmt.Sprintf("message %d: the reader did not come to the gap", i))
			}
		case "waiting":
			time.Sleep(30 * time.Millisecond)
		}
		if at(i) == "gap" && gate != nil {
			// the message is handled by the session loop while the reader is held; 30 ms later the reader goes on
			// (the gate for the next message is armed before that)
			g := gate
			gate = nil
			armFor(i + 1)
			go func() {
				time.Sleep(30 * time.Millisecond)
				close(g.release)
			}()
		} else if i > 0 {
			armFor(i + 1)
		}
		switch m.M {
		case "hello":
			frameWrite(cl, agent.TypeHello, agent.Hello{Laddr: la, Raddr: ra})
			time.Sleep(15 * time.Millisecond)
		case "data", "quit":
			size := 8
			if i < len(sc.Size) && sc.Size[i] > 0 {
				size = sc.Size[i]
			}
			payload := chunkBytes(m.K, m.N, size, m.M == "quit")
			frameWrite(cl, agent.TypeReadWriteTCP, agent.ReadWriteTCP{Laddr: la, Raddr: ra, Payload: payload})
			if sc.Pipelined && m.M == "data" {
				continue
			}
			// lock-step: give the echo time to come back (it will not if the chunk is dropped)
			mu.Lock()
			have := len(echoed[m.K])
			mu.Unlock()
			waitEchoTarget := have + len(payload)
			deadline := time.Now().Add(400 * time.Millisecond)
			for time.Now().Before(deadline) {
				mu.Lock()
				n := len(echoed[m.K])
				mu.Unlock()
				if n >= waitEchoTarget {
					break
				}
				time.Sleep(300 * time.Microsecond)
			}
			if m.M == "quit" {
				time.Sleep(20 * time.Millisecond)
			}
		case "eof":
			frameWrite(cl, agent.TypeEOF, agent.EOF{Laddr: la, Raddr: ra})
			time.Sleep(20 * time.Millisecond)
		case "disconnect":
			gone = true
			time.Sleep(40 * time.Millisecond)
			cl.Close()
		}
	}
	time.Sleep(60 * time.Millisecond)
	if sc.Pipelined {
		// wait until nothing more comes back
		total := func() int {
			mu.Lock()
			defer mu.Unlock()
			n := 0
			for _, b := range echoed {
				n += len(b)
			}
			return n
		}
		last, quiet := total(), time.Now()
		for time.Since(quiet) < 150*time.Millisecond {
			time.Sleep(5 * time.Millisecond)
			if n := total(); n != last {
				last, quiet = n, time.Now()
			}
		}
	}
	lastRec := func(k int) *echoRecord {
		_, ra := c16Addr(sc.ID, k)
		want := ra.String()
		var last *echoRecord
		for _, r := range echoes.recs {
			if r.Remote == want {
				last = r
			}
		}
		return last
	}
	if gone {
		// the agent is gone: every service still attached must see the end of its stream - give them up to 2 s
		for t0 := time.Now(); time.Since(t0) < 2*time.Second; time.Sleep(10 * time.Millisecond) {
			all := true
			echoes.mu.Lock()
			for k := 1; k <= 9; k++ {
				if r := lastRec(k); r != nil && !r.Done {
					all = false
				}
			}
			echoes.mu.Unlock()
			if all {
				break
			}
		}
	}
	res.Done = map[string]bool{}
	echoes.mu.Lock()
	for k := 1; k <= 9; k++ {
		if r := lastRec(k); r != nil {
			res.Done[fmt.Sprint(k)] = r.Done
		}
	}
	echoes.mu.Unlock()
	// what did the services read? the current generation = the last record for the tuple
	for k := 1; k <= 9; k++ {
		_, ra := c16Addr(sc.ID, k)
		want := ra.String()
		var last *echoRecord
		echoes.mu.Lock()
		for _, r := range echoes.recs {
			if r.Remote == want {
				last = r
			}
		}
		if last != nil {
			res.Delivered[fmt.Sprint(k)] = hex.EncodeToString(last.Data)
		}
		echoes.mu.Unlock()
	}
	mu.Lock()
	defer mu.Unlock()
	res.Stray = stray
	for k, b := range echoed {
		res.Echoed[fmt.Sprint(k)] = hex.EncodeToString(b)
	}
	for k, n := range eofs {
		res.EOFs[fmt.Sprint(k)] = n
	}
	return res
}

// ---- codec round trip

type c16Codec struct {
	T      string `json:"t"`
	LNet   string `json:"lnet"`
	LIP    string `json:"lip"`
	LPort  int    `json:"lport"`
	RNet   string `json:"rnet"`
	RIP    string `json:"rip"`
	RPort  int    `json:"rport"`
	Len    int    `json:"len"`
	Fields int    `json:"fields"`
}

func mkAddr(netw, ip string, port int) net.Addr {
	if netw == "udp" {
		return &net.UDPAddr{IP: net.ParseIP(ip), Port: port}
	}
	return &net.TCPAddr{IP: net.ParseIP(ip), Port: port}
}

func addrEq(a, b net.Addr) bool {
	if a == nil || b == nil {
		return false
	}
	return a.Network() == b.Network() && a.String() == b.String()
}

func c16CodecRun(in, out string) error {
	o, err := newJSONOut(out)
	if err != nil {
		return err
	}
	defer o.Close()
	n := 0
	var bad []map[string]interface{}
	report := func(c c16Codec, what string) {
		if len(bad) < 50 {
			bad = append(bad, map[string]interface{}{"msg": c, "what": what})
		}
	}
	err = readJSONLines(in, func(line []byte) error {
		var c c16Codec
		if err := json.Unmarshal(line, &c); err != nil {
			return err
		}
		n++
		la, ra := mkAddr(c.LNet, c.LIP, c.LPort), mkAddr(c.RNet, c.RIP, c.RPort)
		payload := chunkBytes(1, n, c.Len, false)
		func() {
			defer func() {
				if r := recover(); r != nil {
					report(c, fmt.Sprint("panic: ", r))
				}
			}()
			switch c.T {
			case "hello":
				b, _ := agent.Hello{Laddr: la, Raddr: ra}.MarshalBinary()
				m := agent.Hello{}
				m.UnmarshalBinary(b)
				if !addrEq(m.Laddr, la) || !addrEq(m.Raddr, ra) {
					report(c, fmt.Sprintf("decoded %v %v", m.Laddr, m.Raddr))
				}
			case "eof":
				b, _ := agent.EOF{Laddr: la, Raddr: ra}.MarshalBinary()
				m := agent.EOF{}
				m.UnmarshalBinary(b)
				if !addrEq(m.Laddr, la) || !addrEq(m.Raddr, ra) {
					report(c, fmt.Sprintf("decoded %v %v", m.Laddr, m.Raddr))
				}
			case "tcp":
				b, _ := agent.ReadWriteTCP{Laddr: la, Raddr: ra, Payload: payload}.MarshalBinary()
				m := agent.ReadWriteTCP{}
				m.UnmarshalBinary(b)
				if !addrEq(m.Laddr, la) || !addrEq(m.Raddr, ra) || hex.EncodeToString(m.Payload) != hex.EncodeToString(payload) {
					report(c, fmt.Sprintf("decoded %v %v payload %d bytes, differs at %d", m.Laddr, m.Raddr, len(m.Payload), firstDiff(m.Payload, payload)))
				}
			case "udp":
				b, _ := agent.ReadWriteUDP{Laddr: la, Raddr: ra, Payload: payload}.MarshalBinary()
				m := agent.ReadWriteUDP{}
				m.UnmarshalBinary(b)
				if !addrEq(m.Laddr, la) || !addrEq(m.Raddr, ra) || hex.EncodeToString(m.Payload) != hex.EncodeToString(payload) {
					report(c, fmt.Sprintf("decoded %v %v payload %d bytes, differs at %d", m.Laddr, m.Raddr, len(m.Payload), firstDiff(m.Payload, payload)))
				}
			case "handshake":
				h := agent.Handshake{ProtocolVersion: 1 + c.Fields, Version: string(chunkBytes(2, 1, c.Fields, false)), ShortCommitID: "abc1234", CommitID: "abc1234def", Token: string(chunkBytes(3, 2, c.Len%300, false))}
				b, _ := h.MarshalBinary()
				m := agent.Handshake{}
				m.UnmarshalBinary(b)
				if m != h {
					report(c, fmt.Sprintf("decoded %+v from %d bytes", m, len(b)))
				}
			case "response":
				addrs := []net.Addr{}
				for i := 0; i < c.Fields; i++ {
					addrs = append(addrs, mkAddr([]string{"tcp", "udp"}[i%2], c.LIP, (c.LPort+i)%65536))
				}
				b, _ := agent.HandshakeResponse{Addresses: addrs}.MarshalBinary()
				m := agent.HandshakeResponse{}
				m.UnmarshalBinary(b)
				if len(m.Addresses) != len(addrs) {
					report(c, fmt.Sprintf("decoded %d addresses", len(m.Addresses)))
				} else {
					for i := range addrs {
						if !addrEq(m.Addresses[i], addrs[i]) {
							report(c, fmt.Sprintf("address %d decoded %v", i, m.Addresses[i]))
							break
						}
					}
				}
			case "ping":
				b, _ := agent.Ping{}.MarshalBinary()
				m := agent.Ping{}
				if err := m.UnmarshalBinary(b); err != nil {
					report(c, err.Error())
				}
			}
		}()
		return nil
	})
	o.Put(map[string]interface{}{"messages": n, "bad": bad})
	return err
}

func firstDiff(a, b []byte) int {
	for i := 0; i < len(a) && i < len(b); i++ {
		if a[i] != b[i] {
			return i
		}
	}
	if len(a) != len(b) {
		if len(a) < len(b) {
			return len(a)
		}
		return len(b)
	}
	return -1
}

func c16Main(args []string) error {
	fs := flag.NewFlagSet("c16", flag.ExitOnError)
	in := fs.String("in", "", "scenario ndjson")
	out := fs.String("out", "", "result ndjson")
	codec := fs.Bool("codec", false, "codec round trip mode")
	port := fs.Int("port", 0, "loopback port for the agent listener")
	par := fs.Int("par", 8, "agent sessions in flight")
	fs.Parse(args)
	quietLogs()
	defer cleanupScratch()
	if *codec {
		return c16CodecRun(*in, *out)
	}
	addr := fmt.Sprintf("127.0.0.1:%d", *port)
	cfg := fmt.Sprintf(`
[listener]
type="agent"
listen=%q
[channel.cap]
type="verif-capture"
name="cap"
[[filter]]
channel=["cap"]
[service.echo]
type="verif-echo"
[[port]]
port="tcp/7000"
services=["echo"]
`, addr)
	if _, err := startServerAny(cfg); err != nil {
		return err
	}
	// wait for the listener, read the server's public key from its store
	var pub []byte
	deadline := time.Now().Add(20 * time.Second)
	for {
		c, err := net.DialTimeout("tcp", addr, time.Second)
		if err == nil {
			c.Close()
			break
		}
		if time.Now().After(deadline) {
			return fmt.Errorf("agent listener did not come up on %s: %v", addr, err)
		}
		time.Sleep(20 * time.Millisecond)
	}
	st, err := agent.Storage()
	if err != nil {
		return err
	}
	kp, err := st.KeyPair()
	if err != nil {
		return err
	}
	pub = kp.PublicKey[:]
	rig := &agentRig{addr: addr, pub: pub}
	o, err := newJSONOut(*out)
	if err != nil {
		return err
	}
	defer o.Close()
	var scs []c16Scenario
	if err := readJSONLines(*in, func(line []byte) error {
		var sc c16Scenario
		if err := json.Unmarshal(line, &sc); err != nil {
			return err
		}
		scs = append(scs, sc)
		return nil
	}); err != nil {
		return err
	}
	sem := make(chan struct{}, *par)
	var wg sync.WaitGroup
	for _, sc := range scs {
		sc := sc
		wg.Add(1)
		sem <- struct{}{}
		go func() {
			defer wg.Done()
			defer func() { <-sem }()
			o.Put(c16Run(rig, sc))
		}()
	}
	wg.Wait()
	return nil
}

func init() { register("c16", c16Main) }
