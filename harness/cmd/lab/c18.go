package main

// C18: sensor identity survives restarts and interrupted first starts.
// `lab c18` is ONE start of the real server on a given data directory (server.New with
// WithDataDir + WithToken, the enabled services, the agent key store); it observes the
// identity from outside - the token attached to a delivered event, the SSH host key seen by
// a client, the certificates presented after AUTH TLS / STARTTLS / LDAP StartTLS, the agent
// public key - writes it as JSON and exits. The orchestrator runs several of these on the
// same directory, killing some of them during start-up.

import (
	"bufio"
	"crypto/sha256"
	stdtls "crypto/tls"
	"encoding/hex"
	"flag"
	"fmt"
	"net"
	"os"
	"path/filepath"
	"strings"
	"time"

	"github.com/dgraph-io/badger"
	"github.com/honeytrap/honeytrap/listener/agent"
	"github.com/honeytrap/honeytrap/storage"
	"golang.org/x/crypto/ssh"
)

type c18Identity struct {
	Token     string            `json:"token"`
	TokenFile string            `json:"token_file"`
	Items     map[string]string `json:"items"`
	Notes     []string          `json:"notes,omitempty"`
}

func certFP(c net.Conn) (string, error) {
	tc := stdtls.Client(c, &stdtls.Config{InsecureSkipVerify: true, MinVersion: stdtls.VersionTLS10})
	tc.SetDeadline(time.Now().Add(10 * time.Second))
	if err := tc.Handshake(); err != nil {
		return "", err
	}
	st := tc.ConnectionState()
	if len(st.PeerCertificates) == 0 {
		return "", fmt.Errorf("no certificate presented")
	}
	sum := sha256.Sum256(st.PeerCertificates[0].Raw)
	return hex.EncodeToString(sum[:8]), nil
}

func readLineUntil(r *bufio.Reader, code string) error {
	for {
		line, err := r.ReadString('\n')
		if err != nil {
			return err
		}
		if strings.HasPrefix(line, code+" ") {
			return nil
		}
	}
}

// c18DropKeys opens the store as honeytrap does (storage.MustDB options) and deletes the given keys: every item is stored in a
// transaction of its own, so "the first of two items is there, the second is not" is exactly what a kill between them leaves.
func c18DropKeys(datadir string, keys []string) error {
	opts := badger.DefaultOptions
	opts.Dir = filepath.Join(datadir, "badger.db")
	opts.ValueDir = opts.Dir
	for _, fn := range storage.PlatformOptions {
		fn(&opts)
	}
	db, err := badger.Open(opts)
	if err != nil {
		return err
	}
	defer db.Close()
	return db.Update(func(txn *badger.Txn) error {
		for _, k := range keys {
			if err := txn.Delete([]byte(k)); err != nil {
				return err
			}
		}
		return nil
	})
}

func c18Main(args []string) error {
	fs := flag.NewFlagSet("c18", flag.ExitOnError)
	datadir := fs.String("datadir", "", "data directory (persists across starts)")
	svcs := fs.String("services", "ssh", "comma separated: ssh,ftp,smtp,ldap,agent")
	out := fs.String("out", "", "identity json")
	drop := fs.String("dropkeys", "", "no start: remove these keys (namespace.key, comma separated) from the store of the data directory - the state a kill between two stored items leaves")
	fs.Parse(args)
	quietLogs()
	if *drop != "" {
		return c18DropKeys(*datadir, strings.Split(*drop, ","))
	}
	labDataOverride = *datadir
	defer cleanupScratch()
	enabled := map[string]bool{}
	for _, s := range strings.Split(*svcs, ",") {
		enabled[s] = true
	}
	var b strings.Builder
	b.WriteString("[listener]\ntype=\"verif-mem\"\n[channel.cap]\ntype=\"verif-capture\"\nname=\"cap\"\n[[filter]]\nchannel=[\"cap\"]\n")
	b.WriteString("[service.emit]\ntype=\"verif-emit\"\n[[port]]\nport=\"tcp/9000\"\nservices=[\"emit\"]\n")
	if enabled["ssh"] {
		b.WriteString("[service.ssh]\ntype=\"ssh-simulator\"\n[[port]]\nport=\"tcp/22\"\nservices=[\"ssh\"]\n")
	}
	if enabled["ftp"] {
		fmt.Fprintf(&b, "[service.ftp]\ntype=\"ftp\"\nfs_base=%q\n[[port]]\nport=\"tcp/21\"\nservices=[\"ftp\"]\n", filepath.Join(*datadir, "ftpbase"))
	}
	if enabled["smtp"] {
		b.WriteString("[service.smtp]\ntype=\"smtp\"\n[[port]]\nport=\"tcp/25\"\nservices=[\"smtp\"]\n")
	}
	if enabled["ldap"] {
		b.WriteString("[service.ldap]\ntype=\"ldap\"\n[[port]]\nport=\"tcp/389\"\nservices=[\"ldap\"]\n")
	}
	srv, err := startServer(b.String())
	if err != nil {
		return err
	}
	id := c18Identity{Items: map[string]string{}}
	if tf, err := os.ReadFile(filepath.Join(*datadir, "token")); err == nil {
		id.TokenFile = string(tf)
	}
	note := func(f string, a ...interface{}) { id.Notes = append(id.Notes, fmt.Sprintf(f, a...)) }
	// token: the one attached to an event that went through the filter chain
	if cl, err := srv.mem.DialTCP(tcpAddr("127.0.0.1", 9000), tcpAddr("198.51.100.1", 4000)); err == nil {
		mark := hub.Len()
		cl.Write([]byte("{\"id\":{\"$int\":1}}\n"))
		bufio.NewReader(cl).ReadString('\n')
		cl.Close()
		for _, e := range hub.Since(mark) {
			if _, ok := e.Map["id"]; ok {
				id.Token, _ = e.Map["token"].(string)
			}
		}
	} else {
		note("emit: %v", err)
	}
	if enabled["ssh"] {
		if cl, err := srv.mem.DialTCP(tcpAddr("127.0.0.1", 22), tcpAddr("198.51.100.2", 4000)); err == nil {
			cl.SetDeadline(time.Now().Add(10 * time.Second))
			cfg := &ssh.ClientConfig{User: "x", Auth: []ssh.AuthMethod{ssh.Password("y")}, Timeout: 10 * time.Second,
				HostKeyCallback: func(hostname string, remote net.Addr, key ssh.PublicKey) error {
					sum := sha256.Sum256(key.Marshal())
					id.Items["ssh"] = hex.EncodeToString(sum[:8])
					return nil
				}}
			if c, _, _, err := ssh.NewClientConn(cl, "127.0.0.1:22", cfg); err == nil {
				c.Close()
			}
			cl.Close()
		} else {
			note("ssh: %v", err)
		}
	}
	if enabled["ftp"] {
		if cl, err := srv.mem.DialTCP(tcpAddr("127.0.0.1", 21), tcpAddr("198.51.100.3", 4000)); err == nil {
			cl.SetDeadline(time.Now().Add(10 * time.Second))
			r := bufio.NewReader(cl)
			if err := readLineUntil(r, "220"); err != nil {
				note("ftp greeting: %v", err)
			}
			cl.Write([]byte("AUTH TLS\r\n"))
			if err := readLineUntil(r, "234"); err != nil {
				note("ftp AUTH TLS: %v", err)
			} else if fp, err := certFP(cl); err != nil {
				note("ftp tls: %v", err)
			} else {
				id.Items["ftp"] = fp
			}
			cl.Close()
		}
	}
	if enabled["smtp"] {
		if cl, err := srv.mem.DialTCP(tcpAddr("127.0.0.1", 25), tcpAddr("198.51.100.4", 4000)); err == nil {
			cl.SetDeadline(time.Now().Add(10 * time.Second))
			r := bufio.NewReader(cl)
			readLineUntil(r, "220")
			cl.Write([]byte("EHLO verif\r\n"))
			readLineUntil(r, "250")
			cl.Write([]byte("STARTTLS\r\n"))
			if err := readLineUntil(r, "220"); err != nil {
				note("smtp STARTTLS: %v", err)
			} else if fp, err := certFP(cl); err != nil {
				note("smtp tls: %v", err)
			} else {
				id.Items["smtp"] = fp
			}
			cl.Close()
		}
	}
	if enabled["ldap"] {
		if cl, err := srv.mem.DialTCP(tcpAddr("127.0.0.1", 389), tcpAddr("198.51.100.5", 4000)); err == nil {
			cl.SetDeadline(time.Now().Add(10 * time.Second))
			oid := "1.3.6.1.4.1.1466.20037"
			ext := append([]byte{0x80, byte(len(oid))}, oid...)
			op := append([]byte{0x77, byte(len(ext))}, ext...)
			body := append([]byte{0x02, 0x01, 0x01}, op...)
			cl.Write(append([]byte{0x30, byte(len(body))}, body...))
			buf := make([]byte, 256)
			if n, err := cl.Read(buf); err != nil || n == 0 {
				note("ldap StartTLS: %v", err)
			} else if fp, err := certFP(cl); err != nil {
				note("ldap tls: %v", err)
			} else {
				id.Items["ldap"] = fp
			}
			cl.Close()
		}
	}
	if enabled["agent"] {
		if st, err := agent.Storage(); err != nil {
			note("agent storage: %v", err)
		} else if kp, err := st.KeyPair(); err != nil {
			note("agent key: %v", err)
		} else {
			id.Items["agent"] = hex.EncodeToString(kp.PublicKey[:8])
		}
	}
	o, err := newJSONOut(*out)
	if err != nil {
		return err
	}
	o.Put(id)
	o.Close()
	return nil
}

func init() { register("c18", c18Main) }
