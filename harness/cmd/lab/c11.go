package main

// C11 (level 1): one implementation test per transition (working directory, path) of
// FtpFs.tla on the real services/filesystem.Htfs with a real directory tree, and a
// sentinel tree beside the root that an escaping path would hit.

import (
	"encoding/json"
	"flag"
	"fmt"
	"io/ioutil"
	"os"
	"path/filepath"
	"strings"

	"github.com/honeytrap/honeytrap/services/filesystem"
)

type c11Path struct {
	Abs   bool     `json:"abs"`
	Comps []string `json:"comps"`
}

type c11Trans struct {
	Cwd  []string `json:"cwd"`
	Path c11Path  `json:"path"`
	Loc  []string `json:"loc"`
	OK   bool     `json:"ok"`
	Cwd2 []string `json:"cwd2"`
}

type c11Mismatch struct {
	Kind  string   `json:"kind"` // escape | differs | setup
	Trans c11Trans `json:"trans"`
	Text  string   `json:"text"`
	Got   string   `json:"got"`
	Want  string   `json:"want"`
}

func (p c11Path) Text() string {
	s := strings.Join(p.Comps, "/")
	if p.Abs {
		s = "/" + s
	}
	return s
}

func mkTree(root string, depth int) {
	os.MkdirAll(root, 0755)
	if depth == 0 {
		return
	}
	for _, n := range []string{"a", "b"} {
		mkTree(filepath.Join(root, n), depth-1)
	}
}

// c11Fixture creates base/ftp/rootdir with dirs over {a,b} to depth 3 and, outside the
// root, look-alike directories and a sentinel file.
func c11Fixture() (base, root string, err error) {
	base, err = ioutil.TempDir(scratchDir(), "c11-")
	if err != nil {
		return
	}
	root = filepath.Join(base, "ftp", "rootdir")
	mkTree(root, 3)
	mkTree(filepath.Join(base, "ftp", "a"), 2)
	mkTree(filepath.Join(base, "ftp", "b"), 2)
	mkTree(filepath.Join(base, "a"), 2)
	ioutil.WriteFile(filepath.Join(base, "ftp", "sentinel.txt"), []byte("outside"), 0644)
	return
}

func inside(root, p string) bool {
	c := filepath.Clean(p)
	return c == root || strings.HasPrefix(c, root+string(filepath.Separator))
}

func c11Main(args []string) error {
	fs := flag.NewFlagSet("c11", flag.ExitOnError)
	in := fs.String("in", "", "transition ndjson (from TLC)")
	out := fs.String("out", "", "result json")
	fs.Parse(args)
	quietLogs()
	defer cleanupScratch()
	base, root, err := c11Fixture()
	if err != nil {
		return err
	}
	var mism []c11Mismatch
	n, escapes := 0, 0
	add := func(m c11Mismatch) {
		if m.Kind == "escape" {
			escapes++
		}
		if len(mism) < 100 {
			mism = append(mism, m)
		}
	}
	err = readJSONLines(*in, func(line []byte) error {
		var t c11Trans
		if err := json.Unmarshal(line, &t); err != nil {
			return err
		}
		n++
		h, err := filesystem.New(base, "ftp", "rootdir")
		if err != nil {
			return err
		}
		if len(t.Cwd) > 0 {
			if err := h.ChangeDir("/" + strings.Join(t.Cwd, "/")); err != nil {
				add(c11Mismatch{Kind: "setup", Trans: t, Text: t.Path.Text(), Got: err.Error()})
				return nil
			}
		}
		wantCwd := "/" + strings.Join(t.Cwd, "/")
		if h.Cwd() != wantCwd {
			add(c11Mismatch{Kind: "setup", Trans: t, Text: t.Path.Text(), Got: h.Cwd(), Want: wantCwd})
			return nil
		}
		text := t.Path.Text()
		rp := h.RealPath(text)
		want := filepath.Join(root, filepath.Join(t.Loc...))
		if !inside(root, rp) || strings.Contains(rp, "..") {
			add(c11Mismatch{Kind: "escape", Trans: t, Text: text, Got: rp, Want: want})
		} else if rp != want {
			add(c11Mismatch{Kind: "differs", Trans: t, Text: text, Got: rp, Want: want})
		}
		cerr := h.ChangeDir(text)
		want2 := "/" + strings.Join(t.Cwd2, "/")
		got2 := h.Cwd()
		if !inside(root, filepath.Join(root, got2)) || strings.Contains(got2, "..") || !filepath.IsAbs(got2) {
			add(c11Mismatch{Kind: "escape", Trans: t, Text: text, Got: "cwd " + got2, Want: want2})
		} else if got2 != want2 || (cerr == nil) != t.OK {
			add(c11Mismatch{Kind: "differs", Trans: t, Text: text, Got: fmt.Sprintf("cwd %s err=%v", got2, cerr), Want: fmt.Sprintf("cwd %s ok=%v", want2, t.OK)})
		}
		return nil
	})
	if err != nil {
		return err
	}
	o, err := newJSONOut(*out)
	if err != nil {
		return err
	}
	defer o.Close()
	o.Put(map[string]interface{}{"transitions": n, "escapes": escapes, "mismatches": mism})
	return nil
}

func init() { register("c11", c11Main) }
