package main

// C06: every event reaches exactly the channels whose filters admit it. Each generated
// configuration is rendered as TOML (three verif-capture channels, the generated
// [[filter]] sections, one verif-emit service) and wired by the REAL server.Run; the
// event stream is put on the real bus through a connection to the emit service.

import (
	"bufio"
	"encoding/json"
	"flag"
	"fmt"
	"io/ioutil"
	"path/filepath"
	"strings"
)

type c06Expr struct {
	Kind string   `json:"kind"`
	S    []string `json:"s"`
	T    []string `json:"t"`
}

type c06Filter struct {
	Channels []string  `json:"channels"`
	Cats     []c06Expr `json:"cats"`
	Svcs     []c06Expr `json:"svcs"`
}

type c06Val struct {
	K string   `json:"k"`
	V []string `json:"v"`
}

type c06Event struct {
	ID  int    `json:"id"`
	Cat c06Val `json:"cat"`
	Svc c06Val `json:"svc"`
}

type c06Scenario struct {
	ID      int         `json:"id"`
	Filters []c06Filter `json:"filters"`
	Events  []c06Event  `json:"events"`
}

type c06Result struct {
	ID        int              `json:"id"`
	Delivered map[string][]int `json:"delivered"`
	TokenOK   bool             `json:"token_ok"`
	TokenNote string           `json:"token_note,omitempty"`
	Error     string           `json:"error,omitempty"`
}

func (e c06Expr) regex() string {
	s, t := strings.Join(e.S, ""), strings.Join(e.T, "")
	switch e.Kind {
	case "lit":
		return s
	case "pre":
		return "^" + s
	case "full":
		return "^" + s + "$"
	case "alt":
		return s + "|" + t
	}
	return "(?:unknown-kind)"
}

func c06TOML(fs []c06Filter) string {
	var b strings.Builder
	b.WriteString("[listener]\ntype=\"verif-mem\"\n")
	for _, c := range []string{"a", "b", "c"} {
		fmt.Fprintf(&b, "[channel.%s]\ntype=\"verif-capture\"\nname=%q\n", c, c)
	}
	b.WriteString("[service.emit]\ntype=\"verif-emit\"\n[[port]]\nport=\"tcp/9000\"\nservices=[\"emit\"]\n")
	q := func(xs []string) string {
		out := []string{}
		for _, x := range xs {
			out = append(out, fmt.Sprintf("%q", x))
		}
		return "[" + strings.Join(out, ",") + "]"
	}
	for _, f := range fs {
		b.WriteString("[[filter]]\n")
		fmt.Fprintf(&b, "channel=%s\n", q(f.Channels))
		if len(f.Cats) > 0 {
			rs := []string{}
			for _, e := range f.Cats {
				rs = append(rs, e.regex())
			}
			fmt.Fprintf(&b, "categories=%s\n", q(rs))
		}
		if len(f.Svcs) > 0 {
			rs := []string{}
			for _, e := range f.Svcs {
				rs = append(rs, e.regex())
			}
			fmt.Fprintf(&b, "services=%s\n", q(rs))
		}
	}
	return b.String()
}

func c06Field(m map[string]interface{}, key string, v c06Val) {
	switch v.K {
	case "str":
		m[key] = strings.Join(v.V, "")
	case "int":
		m[key] = map[string]int{"$int": 7}
	}
}

func c06Run(sc c06Scenario, events []c06Event) c06Result {
	res := c06Result{ID: sc.ID, Delivered: map[string][]int{"a": {}, "b": {}, "c": {}}}
	hub.Reset()
	srv, err := startServer(c06TOML(sc.Filters))
	if err != nil {
		res.Error = err.Error()
		return res
	}
	defer srv.Stop()
	cl, err := srv.mem.DialTCP(tcpAddr("10.0.0.1", 9000), tcpAddr("198.51.100.9", 4000))
	if err != nil {
		res.Error = err.Error()
		return res
	}
	defer cl.Close()
	rd := bufio.NewReader(cl)
	for _, ev := range events {
		m := map[string]interface{}{"id": map[string]int{"$int": ev.ID}}
		c06Field(m, "category", ev.Cat)
		c06Field(m, "service", ev.Svc)
		line, _ := json.Marshal(m)
		cl.Write(append(line, '\n'))
		if _, err := rd.ReadString('\n'); err != nil { // the bus is synchronous: ack => delivered
			res.Error = "emit service: " + err.Error()
			return res
		}
	}
	tokFile, _ := ioutil.ReadFile(filepath.Join(scratchDir(), "data", "token"))
	res.TokenOK = true
	for _, ce := range hub.Since(0) {
		id, ok := ce.Map["id"].(int)
		if !ok {
			continue // heartbeat etc.
		}
		res.Delivered[ce.Chan] = append(res.Delivered[ce.Chan], id)
		tok, _ := ce.Map["token"].(string)
		if tok == "" || tok != string(tokFile) {
			res.TokenOK = false
			res.TokenNote = fmt.Sprintf("event %d on channel %s carries token %q, sensor token is %q", id, ce.Chan, tok, string(tokFile))
		}
	}
	return res
}

func c06Main(args []string) error {
	fs := flag.NewFlagSet("c06", flag.ExitOnError)
	in := fs.String("in", "", "scenario ndjson (from TLC)")
	out := fs.String("out", "", "result ndjson")
	evf := fs.String("events", "", "json file with the event stream")
	fs.Parse(args)
	quietLogs()
	defer cleanupScratch()
	var events []c06Event
	b, err := ioutil.ReadFile(*evf)
	if err != nil {
		return err
	}
	if err := json.Unmarshal(b, &events); err != nil {
		return err
	}
	o, err := newJSONOut(*out)
	if err != nil {
		return err
	}
	defer o.Close()
	return readJSONLines(*in, func(line []byte) error {
		var sc c06Scenario
		if err := json.Unmarshal(line, &sc); err != nil {
			return err
		}
		o.Put(c06Run(sc, events))
		return nil
	})
}

func init() { register("c06", c06Main) }
