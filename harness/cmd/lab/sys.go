package main

// Whole-server run for Honeytrap.tla / Honeytrap_Trace.tla: the real server with REAL services
// (http and telnet sharing a port, ftp, redis), the real bus, filters from the scenario, three
// capture channels (a, b, all) and the real file channel (f). Real clients connect one at a
// time; every accepted connection and every event that reached the catch-all channel is
// written as one trace line, with the positions at which the very same event object arrived
// at the capture channels; the file channel's log is read back at the end.

import (
	"bufio"
	"encoding/json"
	"flag"
	"fmt"
	"io/ioutil"
	"os"
	"path/filepath"
	"strings"
	"time"

	"github.com/honeytrap/honeytrap/event"
)

type sysScenario struct {
	ID      int         `json:"id"`
	Filters []c06Filter `json:"filters"`
	// LingerS: keep the server running this many seconds between the connections (a heartbeat is due every 30 s)
	LingerS int `json:"linger_s,omitempty"`
}

type sysConn struct {
	Proto  string
	Port   int
	First  string   // first word of the first segment (what the payload detector sees first)
	Sends  []string // lines sent, lock-step (tcp) / one datagram each (udp)
	Routed string   // the service Honeytrap.tla's routing rule chooses ("none": nobody serves it)
}

var sysPlan = []sysConn{
	{"tcp", 8080, "GET", []string{"GET /index.html HTTP/1.1\r\nHost: sys\r\n\r\n"}, "http"},
	{"tcp", 8080, "alice", []string{"alice\r\n", "secret\r\n", "uname -a\r\n", "id\r\n"}, "telnet"},
	{"tcp", 21, "USER", []string{"USER anonymous\r\n", "PASS anonymous\r\n", "PWD\r\n", "NOOP\r\n"}, "ftp"},
	{"tcp", 6379, "*1", []string{"*1\r\n$4\r\nINFO\r\n", "*2\r\n$3\r\nGET\r\n$1\r\nk\r\n"}, "redis"},
	{"tcp", 7777, "PANIC", []string{"PANIC\n"}, "boom"},
	{"tcp", 8080, "GET", []string{"GET /second HTTP/1.1\r\nHost: sys\r\n\r\n"}, "http"},
	// datagrams: echo is configured for udp/7 only; a tcp connection to port 7 and a datagram to the ftp port are nobody's
	{"udp", 7, "hello", []string{"hello sys"}, "echo"},
	{"tcp", 7, "hello", []string{"hello sys\r\n"}, "none"},
	{"udp", 21, "USER", []string{"USER anonymous\r\n"}, "none"},
	{"udp", 7, "again", []string{"again sys"}, "echo"},
	{"tcp", 9999, "GET", []string{"GET / HTTP/1.1\r\n\r\n"}, "none"},
}

func sysTOML(sc sysScenario, logPath, ftpBase string) string {
	var b strings.Builder
	b.WriteString("[listener]\ntype=\"verif-mem\"\n")
	for _, c := range []string{"a", "b", "all"} {
		fmt.Fprintf(&b, "[channel.%s]\ntype=\"verif-capture\"\nname=%q\n", c, c)
	}
	fmt.Fprintf(&b, "[channel.f]\ntype=\"file\"\nfilename=%q\nmaxsize=1048576\n", logPath)
	b.WriteString("[service.http]\ntype=\"http\"\n[service.telnet]\ntype=\"telnet\"\n[service.redis]\ntype=\"redis\"\n")
	fmt.Fprintf(&b, "[service.ftp]\ntype=\"ftp\"\nfs_base=%q\n", ftpBase)
	b.WriteString("[service.boom]\ntype=\"verif-stub\"\nname=\"boom\"\npanic_on=\"PANIC\"\n[[port]]\nport=\"tcp/7777\"\nservices=[\"boom\"]\n")
	b.WriteString("[[port]]\nport=\"tcp/8080\"\nservices=[\"http\",\"telnet\"]\n[[port]]\nport=\"tcp/21\"\nservices=[\"ftp\"]\n[[port]]\nport=\"tcp/6379\"\nservices=[\"redis\"]\n")
	b.WriteString("[service.echo]\ntype=\"echo\"\n[[port]]\nport=\"udp/7\"\nservices=[\"echo\"]\n")
	q := func(xs []string) string {
		out := []string{}
		for _, x := range xs {
			out = append(out, fmt.Sprintf("%q", x))
		}
		return "[" + strings.Join(out, ",") + "]"
	}
	for _, f := range sc.Filters {
		b.WriteString("[[filter]]\n")
		fmt.Fprintf(&b, "channel=%s\n", q(f.Channels))
		if len(f.Cats) > 0 {
			rs := []string{}
			for _, e := range f.Cats {
				rs = append(rs, e.regex())
			}
			fmt.Fprintf(&b, "categories=%s\n", q(rs))
		}
		if len(f.Svcs) > 0 {
			rs := []string{}
			for _, e := range f.Svcs {
				rs = append(rs, e.regex())
			}
			fmt.Fprintf(&b, "services=%s\n", q(rs))
		}
	}
	return b.String()
}

func chars(s string) []string {
	out := []string{}
	for _, r := range s {
		out = append(out, string(r))
	}
	return out
}

func sysRun(sc sysScenario) (lines []map[string]interface{}, fileLines []map[string]interface{}, errText string) {
	hub.Reset()
	dir := filepath.Join(scratchDir(), fmt.Sprintf("sys-%d", sc.ID))
	os.MkdirAll(filepath.Join(dir, "ftpbase"), 0755)
	logPath := filepath.Join(dir, "events.json")
	srv, err := startServer(sysTOML(sc, logPath, filepath.Join(dir, "ftpbase")))
	if err != nil {
		return nil, nil, err.Error()
	}
	defer srv.Stop()
	srcOf := map[string]int{}
	for i, pc := range sysPlan {
		src := fmt.Sprintf("10.200.%d.%d", sc.ID%250, i+1)
		srcOf[src] = i + 1
		if pc.Proto == "udp" {
			for _, s := range pc.Sends {
				sendUDPWait(srv.mem, udpAddr("127.0.0.1", pc.Port), udpAddr(src, 4000+i), []byte(s), 2*time.Second)
			}
			hub.WaitQuiet(60*time.Millisecond, 2*time.Second)
			continue
		}
		cl, err := srv.mem.DialTCP(tcpAddr("127.0.0.1", pc.Port), tcpAddr(src, 4000+i))
		if err != nil {
			return nil, nil, "dial: " + err.Error()
		}
		r := bufio.NewReader(cl)
		for _, s := range pc.Sends {
			cl.Write([]byte(s))
			cl.SetReadDeadline(time.Now().Add(120 * time.Millisecond))
			buf := make([]byte, 4096)
			for {
				if _, err := r.Read(buf); err != nil {
					break
				}
				cl.SetReadDeadline(time.Now().Add(40 * time.Millisecond))
			}
		}
		cl.Close()
		// one connection at a time: let its events arrive before the next one connects
		hub.WaitQuiet(60*time.Millisecond, 2*time.Second)
		if sc.LingerS > 0 && i == 2 {
			time.Sleep(time.Duration(sc.LingerS) * time.Second)
		}
	}
	hub.WaitQuiet(80*time.Millisecond, 2*time.Second)
	all := hub.Since(0)
	// positions of every event object per capture channel
	pos := map[string]map[event.Event][]int{"a": {}, "b": {}, "all": {}}
	count := map[string]int{}
	for _, e := range all {
		if pos[e.Chan] == nil {
			continue
		}
		count[e.Chan]++
		pos[e.Chan][e.raw] = append(pos[e.Chan][e.raw], count[e.Chan])
	}
	// accept lines first (connections are sequential, events of a connection follow its accept)
	emittedAccept := map[int]bool{}
	acceptLine := func(j int) map[string]interface{} {
		pc := sysPlan[j-1]
		return map[string]interface{}{"k": "accept", "svc": pc.Routed,
			"c": map[string]interface{}{"proto": pc.Proto, "ip": "127.0.0.1", "port": pc.Port, "first": []string{pc.First}, "src": fmt.Sprintf("c%d", j)}}
	}
	for _, e := range all {
		if e.Chan != "all" {
			continue
		}
		if e.Map["category"] == "heartbeat" {
			tok, _ := e.Map["token"].(string)
			p := map[string][]int{}
			for _, ch := range []string{"a", "b", "all"} {
				p[ch] = pos[ch][e.raw]
				if p[ch] == nil {
					p[ch] = []int{}
				}
			}
			seq, _ := e.Map["sequence"].(int)
			lines = append(lines, map[string]interface{}{"k": "heartbeat", "seq": seq, "token": tok, "pos": p, "proj": sysProject(e.Map)})
			continue
		}
		src := fmt.Sprint(e.Map["source-ip"])
		k, ok := srcOf[src]
		if !ok {
			lines = append(lines, map[string]interface{}{"k": "stray", "src": src, "cat": fmt.Sprint(e.Map["category"])})
			continue
		}
		for j := 1; j <= k; j++ {
			if !emittedAccept[j] {
				emittedAccept[j] = true
				lines = append(lines, acceptLine(j))
			}
		}
		svc := map[string]interface{}{"k": "missing"}
		if s, ok := e.Map["service"].(string); ok {
			svc = map[string]interface{}{"k": "str", "v": chars(s)}
		}
		tok, _ := e.Map["token"].(string)
		p := map[string][]int{}
		for _, ch := range []string{"a", "b", "all"} {
			p[ch] = pos[ch][e.raw]
			if p[ch] == nil {
				p[ch] = []int{}
			}
		}
		if _, hasCat := e.Map["category"]; !hasCat && e.Map["type"] == "fatal" {
			lines = append(lines, map[string]interface{}{"k": "fatal", "conn": k, "src": fmt.Sprintf("c%d", k), "token": tok, "pos": p, "proj": sysProject(e.Map)})
			continue
		}
		lines = append(lines, map[string]interface{}{"k": "event", "conn": k, "cat": chars(fmt.Sprint(e.Map["category"])), "svc": svc,
			"src": fmt.Sprintf("c%d", k), "token": tok, "pos": p,
			"proj": sysProject(e.Map)})
	}
	for j := 1; j <= len(sysPlan); j++ {
		if !emittedAccept[j] {
			lines = append(lines, acceptLine(j))
		}
	}
	lines = append(lines, map[string]interface{}{"k": "end"})
	// the file channel: flush interval, then read back
	time.Sleep(1300 * time.Millisecond)
	raw, _ := ioutil.ReadFile(logPath)
	for _, ln := range strings.Split(string(raw), "\n") {
		if strings.TrimSpace(ln) == "" {
			continue
		}
		var m map[string]interface{}
		if err := json.Unmarshal([]byte(ln), &m); err != nil {
			fileLines = append(fileLines, map[string]interface{}{"corrupt": ln})
			continue
		}
		fileLines = append(fileLines, sysProject(m))
	}
	return lines, fileLines, ""
}

// sysProject: what identifies an event across channels (capture and file): category, source, token and the
// protocol field that tells events of one connection apart
func sysProject(m map[string]interface{}) map[string]interface{} {
	p := map[string]interface{}{}
	for _, k := range []string{"category", "type", "source-ip", "token", "sequence", "ftp.command", "telnet.command", "http.url", "redis.command", "telnet.username", "telnet.password"} {
		if v, ok := m[k]; ok {
			p[k] = fmt.Sprint(v)
		}
	}
	return p
}

func sysMain(args []string) error {
	fs := flag.NewFlagSet("sys", flag.ExitOnError)
	in := fs.String("in", "", "scenario ndjson")
	out := fs.String("out", "", "result ndjson")
	fs.Parse(args)
	quietLogs()
	defer cleanupScratch()
	o, err := newJSONOut(*out)
	if err != nil {
		return err
	}
	defer o.Close()
	return readJSONLines(*in, func(line []byte) error {
		var sc sysScenario
		if err := json.Unmarshal(line, &sc); err != nil {
			return err
		}
		lines, fileLines, e := sysRun(sc)
		o.Put(map[string]interface{}{"id": sc.ID, "lines": lines, "file": fileLines, "error": e})
		return nil
	})
}

func init() { register("sys", sysMain) }
