package main

// C15, ssh leg: an ssh backend fixture (golang.org/x/crypto/ssh server that accepts exactly
// the password "ok", records every credential pair, channel request and byte it receives and
// answers a session with a planned number of bytes) behind the real ssh-proxy service with a
// forward director; the client side is a real ssh client presenting a scripted sequence of
// passwords, channel requests and channel data.

import (
	"crypto/ed25519"
	"crypto/rand"
	"encoding/hex"
	"fmt"
	"io"
	"io/ioutil"
	"net"
	"sync"
	"time"

	"golang.org/x/crypto/ssh"
)

type sshSeen struct {
	mu       sync.Mutex
	attempts map[string][]string // user -> passwords presented
	requests map[string][]string // user -> "type:payloadhex"
	stdin    map[string][]byte
	sessions map[string]int
}

var sshBack = &sshSeen{attempts: map[string][]string{}, requests: map[string][]string{}, stdin: map[string][]byte{}, sessions: map[string]int{}}

func (r *c15Rig) sshBackend(l net.Listener) {
	_, priv, _ := ed25519.GenerateKey(rand.Reader)
	signer, _ := ssh.NewSignerFromKey(priv)
	for {
		c, err := l.Accept()
		if err != nil {
			return
		}
		go func() {
			defer c.Close()
			cfg := &ssh.ServerConfig{
				MaxAuthTries: -1,
				PasswordCallback: func(cm ssh.ConnMetadata, pw []byte) (*ssh.Permissions, error) {
					sshBack.mu.Lock()
					sshBack.attempts[cm.User()] = append(sshBack.attempts[cm.User()], string(pw))
					sshBack.mu.Unlock()
					if string(pw) == "ok" {
						return nil, nil
					}
					return nil, fmt.Errorf("denied")
				},
			}
			cfg.AddHostKey(signer)
			sc, chans, reqs, err := ssh.NewServerConn(c, cfg)
			if err != nil {
				return
			}
			defer sc.Close()
			user := sc.User()
			go ssh.DiscardRequests(reqs)
			for nc := range chans {
				if nc.ChannelType() != "session" {
					nc.Reject(ssh.UnknownChannelType, "no")
					continue
				}
				ch, creqs, err := nc.Accept()
				if err != nil {
					continue
				}
				sshBack.mu.Lock()
				sshBack.sessions[user]++
				sshBack.mu.Unlock()
				started := make(chan struct{}, 1)
				go func() {
					for rq := range creqs {
						sshBack.mu.Lock()
						sshBack.requests[user] = append(sshBack.requests[user], rq.Type+":"+hex.EncodeToString(rq.Payload))
						sshBack.mu.Unlock()
						if rq.WantReply {
							rq.Reply(true, nil)
						}
						if rq.Type == "shell" || rq.Type == "exec" {
							select {
							case started <- struct{}{}:
							default:
							}
						}
					}
				}()
				go func() {
					select {
					case <-started:
					case <-time.After(8 * time.Second):
						ch.Close()
						return
					}
					in, _ := ioutil.ReadAll(io.LimitReader(ch, 1<<20))
					sshBack.mu.Lock()
					sshBack.stdin[user] = append(sshBack.stdin[user], in...)
					sshBack.mu.Unlock()
					r.mu.Lock()
					plan := r.replyPlan[user]
					nerr := r.stderrPlan[user]
					r.mu.Unlock()
					total := 0
					for _, x := range plan {
						total += x
					}
					if nerr > 0 {
						// what a command writes to its standard error travels as extended data of the same channel
						ch.Stderr().Write(bodyBytes("E"+user, nerr))
					}
					ch.Write(bodyBytes("S"+user, total))
					ch.SendRequest("exit-status", false, ssh.Marshal(struct{ Status uint32 }{0}))
					ch.Close()
				}()
			}
		}()
	}
}

// runSSH plays one client of an ssh exchange. Units (ex.Reqs[i].Method): auth-bad, auth-ok, env,
// pty-req, shell, exec, data (Body = bytes written to the channel before its write side is closed).
func (r *c15Rig) runSSH(ex c15Exchange, ci int, name string, res *c15Result, note func(string, ...interface{})) {
	var passwords []string
	var chanUnits []c15Req
	for i, u := range ex.Reqs {
		switch u.Method {
		case "auth-bad":
			passwords = append(passwords, fmt.Sprintf("bad%d-%s", i, u.Target))
		case "auth-ok":
			passwords = append(passwords, "ok")
		default:
			chanUnits = append(chanUnits, u)
		}
	}
	for _, p := range passwords {
		res.Sent[ci] = append(res.Sent[ci], c15Seen{Method: "password", Target: name + ":" + p})
	}
	next := 0
	cfg := &ssh.ClientConfig{User: name, HostKeyCallback: ssh.InsecureIgnoreHostKey(), Timeout: 10 * time.Second,
		Auth: []ssh.AuthMethod{ssh.RetryableAuthMethod(ssh.PasswordCallback(func() (string, error) {
			if next >= len(passwords) {
				return "", fmt.Errorf("no more passwords")
			}
			next++
			return passwords[next-1], nil
		}), len(passwords))}}
	conn, err := net.DialTimeout("tcp", r.proxySSH, 3*time.Second)
	if err != nil {
		note("dial proxy: %v", err)
		return
	}
	defer conn.Close()
	conn.SetDeadline(time.Now().Add(30 * time.Second))
	collect := func() {
		time.Sleep(40 * time.Millisecond)
		sshBack.mu.Lock()
		for _, p := range sshBack.attempts[name] {
			res.Backend[ci] = append(res.Backend[ci], c15Seen{Method: "password", Target: name + ":" + p})
		}
		for _, q := range sshBack.requests[name] {
			res.Backend[ci] = append(res.Backend[ci], c15Seen{Method: "request", Target: q})
		}
		if sshBack.sessions[name] > 0 {
			res.Backend[ci] = append(res.Backend[ci], c15Seen{Method: "data", BodySHA: compact(sshBack.stdin[name])})
		}
		sshBack.mu.Unlock()
	}
	cc, chans, reqs, err := ssh.NewClientConn(conn, r.proxySSH, cfg)
	if err != nil {
		res.Client[ci] = append(res.Client[ci], c15Seen{Method: "auth", Target: "rejected"})
		collect()
		return
	}
	client := ssh.NewClient(cc, chans, reqs)
	defer client.Close()
	res.Client[ci] = append(res.Client[ci], c15Seen{Method: "auth", Target: "accepted"})
	if len(chanUnits) == 0 {
		collect()
		return
	}
	ch, creqs, err := client.OpenChannel("session", nil)
	if err != nil {
		note("client %d: open session: %v", ci, err)
		collect()
		return
	}
	exit := make(chan string, 4)
	go func() {
		for rq := range creqs {
			exit <- rq.Type + ":" + hex.EncodeToString(rq.Payload)
			if rq.WantReply {
				rq.Reply(false, nil)
			}
		}
		close(exit)
	}()
	runs := false
	for _, u := range chanUnits {
		var payload []byte
		switch u.Method {
		case "env":
			payload = ssh.Marshal(struct{ Name, Value string }{"VERIF_" + u.Target, "v=" + u.Target})
		case "pty-req":
			payload = ssh.Marshal(struct {
				Term             string
				Cols, Rows, W, H uint32
				Modes            string
			}{"xterm", 80, 24, 640, 480, "\x00"})
		case "exec":
			payload = ssh.Marshal(struct{ Command string }{"uname -a; echo " + u.Target})
		case "shell":
		case "data":
			data := bodyBytes("I"+name, u.Body)
			res.Sent[ci] = append(res.Sent[ci], c15Seen{Method: "data", BodySHA: compact(data)})
			if _, err := ch.Write(data); err != nil {
				note("client %d: channel write: %v", ci, err)
			}
			continue
		}
		res.Sent[ci] = append(res.Sent[ci], c15Seen{Method: "request", Target: u.Method + ":" + hex.EncodeToString(payload)})
		ok, err := ch.SendRequest(u.Method, true, payload)
		if err != nil || !ok {
			note("client %d: request %s: ok=%v err=%v", ci, u.Method, ok, err)
		}
		if u.Method == "shell" || u.Method == "exec" {
			runs = true
		}
	}
	sentData := false
	for _, s := range res.Sent[ci] {
		if s.Method == "data" {
			sentData = true
		}
	}
	if !sentData {
		res.Sent[ci] = append(res.Sent[ci], c15Seen{Method: "data", BodySHA: compact(nil)})
	}
	ch.CloseWrite()
	if runs {
		errDone := make(chan []byte, 1)
		go func() {
			b, _ := ioutil.ReadAll(io.LimitReader(ch.Stderr(), 1<<20))
			errDone <- b
		}()
		out, _ := ioutil.ReadAll(io.LimitReader(ch, 1<<20))
		res.Client[ci] = append(res.Client[ci], c15Seen{Method: "data", BodySHA: compact(out)})
		if ex.StderrN > 0 {
			var eb []byte
			select {
			case eb = <-errDone:
			case <-time.After(2 * time.Second):
			}
			res.Client[ci] = append(res.Client[ci], c15Seen{Method: "stderr", BodySHA: compact(eb)})
			res.Replied[ci] = append(res.Replied[ci], c15Seen{Method: "stderr", BodySHA: compact(bodyBytes("E"+name, ex.StderrN))})
		}
		total := 0
		for _, x := range ex.Replies {
			total += x
		}
		res.Replied[ci] = append(res.Replied[ci], c15Seen{Method: "data", BodySHA: compact(bodyBytes("S"+name, total))})
		select {
		case st, ok := <-exit:
			if ok {
				res.Client[ci] = append(res.Client[ci], c15Seen{Method: "request", Target: st})
			}
		case <-time.After(300 * time.Millisecond):
		}
	}
	ch.Close()
	collect()
}
