//go:build verif
// +build verif

package main

// C14: raw-listener TCP handshake, acks and checksums for all sequence numbers.
// TLC-generated client behaviours are turned into real frames by the harness's own
// encoder (boundary ISNs, chosen ports, in-order segments) and injected synchronously into
// a real Canary (hooks VerifNew / VerifInject); after every client frame the transmit ring
// is drained (VerifDrain) and every emitted frame decoded and checksum-verified by the
// harness's own decoder. The recorded steps are validated by TLC against CanaryTCP_Trace.

import (
	"encoding/binary"
	"encoding/hex"
	"encoding/json"
	"flag"
	"fmt"
	"net"
	"time"

	"github.com/honeytrap/honeytrap/listener/canary"
)

type c14Frame struct {
	C   int    `json:"c"`
	K   string `json:"k"`
	N   int    `json:"n"`
	Psh bool   `json:"psh"`
	// At "gap": the frame is injected while the connection's handler is held between finding its receive buffer empty and
	// starting to wait for the receive loop's notification (hook canary.VerifSocketGap)
	At string `json:"at,omitempty"`
}

func init() {
	canary.VerifSocketGap = func(local, remote net.Addr) {
		gapGates.mu.Lock()
		g := gapGates.m["canary/"+remote.String()]
		delete(gapGates.m, "canary/"+remote.String())
		gapGates.mu.Unlock()
		if g == nil {
			return
		}
		close(g.hit)
		select {
		case <-g.release:
		case <-time.After(5 * time.Second):
		}
	}
}

type c14Conn struct {
	ISN   uint32 `json:"isn"`
	CIP   string `json:"cip"`
	CPort int    `json:"cport"`
	DPort int    `json:"dport"`
	// Stream (hex) replaces the default a..z pattern as the client's byte stream
	Stream string `json:"stream,omitempty"`
}

type c14Scenario struct {
	ID     int        `json:"id"`
	Conns  []c14Conn  `json:"conns"`
	Frames []c14Frame `json:"frames"`
}

type c14Emitted struct {
	To     int      `json:"to"`
	Flags  []string `json:"flags"`
	SeqRel int      `json:"seqRel"`
	AckRel int      `json:"ackRel"`
	IPOK   bool     `json:"ipok"`
	TCPOK  bool     `json:"tcpok"`
	Len    int      `json:"len"`
	Note   string   `json:"note,omitempty"`
}

type c14Line struct {
	K       string       `json:"k"`
	C       int          `json:"c"`
	N       int          `json:"n"`
	Emitted []c14Emitted `json:"emitted"`
	Scn     int          `json:"scn"`
}

type c14Event struct {
	C          int    `json:"c"`
	PayloadHex string `json:"payload_hex"`
	SrcPort    int    `json:"source_port"`
	DstPort    int    `json:"destination_port"`
	SrcIP      string `json:"source_ip"`
	Type       string `json:"type"`
}

type c14Result struct {
	ID     int        `json:"id"`
	Lines  []c14Line  `json:"lines"`
	Events []c14Event `json:"events"`
	Error  string     `json:"error,omitempty"`
}

func ipChecksumOK(h []byte) bool {
	sum := uint32(0)
	for i := 0; i+1 < len(h); i += 2 {
		sum += uint32(binary.BigEndian.Uint16(h[i : i+2]))
	}
	for sum>>16 != 0 {
		sum = (sum & 0xffff) + (sum >> 16)
	}
	return uint16(sum) == 0xffff
}

func tcpChecksum(src, dst []byte, seg []byte) uint16 {
	sum := uint32(0)
	add := func(b []byte) {
		for i := 0; i+1 < len(b); i += 2 {
			sum += uint32(binary.BigEndian.Uint16(b[i : i+2]))
		}
		if len(b)%2 == 1 {
			sum += uint32(b[len(b)-1]) << 8
		}
	}
	add(src)
	add(dst)
	sum += 6
	sum += uint32(len(seg))
	add(seg)
	for sum>>16 != 0 {
		sum = (sum & 0xffff) + (sum >> 16)
	}
	return ^uint16(sum)
}

func (cn c14Conn) bytes(off, n int) []byte {
	if cn.Stream != "" {
		raw, _ := hex.DecodeString(cn.Stream)
		if off+n <= len(raw) {
			return raw[off : off+n]
		}
	}
	return streamBytes(off, n)
}

func streamBytes(off, n int) []byte {
	b := make([]byte, n)
	for i := range b {
		b[i] = byte('a' + (off+i)%26)
	}
	return b
}

// build a client frame
func c14Build(cn c14Conn, seq, ack uint32, flags byte, payload []byte) []byte {
	eth := make([]byte, 14)
	copy(eth[0:6], macMe)
	cip := net.ParseIP(cn.CIP).To4()
	copy(eth[6:12], net.HardwareAddr{0x02, 0, 0, 0, 2, cip[3]})
	eth[12], eth[13] = 0x08, 0x00
	seg := make([]byte, 20+len(payload))
	binary.BigEndian.PutUint16(seg[0:2], uint16(cn.CPort))
	binary.BigEndian.PutUint16(seg[2:4], uint16(cn.DPort))
	binary.BigEndian.PutUint32(seg[4:8], seq)
	binary.BigEndian.PutUint32(seg[8:12], ack)
	seg[12] = 5 << 4
	seg[13] = flags
	binary.BigEndian.PutUint16(seg[14:16], 65535)
	copy(seg[20:], payload)
	binary.BigEndian.PutUint16(seg[16:18], tcpChecksum(cip, ipMe.To4(), seg))
	ip := make([]byte, 20)
	ip[0] = 0x45
	binary.BigEndian.PutUint16(ip[2:4], uint16(20+len(seg)))
	ip[8] = 64
	ip[9] = 6
	copy(ip[12:16], cip)
	copy(ip[16:20], ipMe.To4())
	return append(append(eth, ip...), seg...)
}

type c14State struct {
	cn      c14Conn
	sent    int    // client stream bytes sent
	srvSeq  uint32 // sequence number of the listener's SYN-ACK
	haveSrv bool
	finSent bool
}

func c14Run(sc c14Scenario) c14Result {
	res := c14Result{ID: sc.ID}
	peers := []canary.VerifPeer{}
	for _, cn := range sc.Conns {
		ip := net.ParseIP(cn.CIP).To4()
		peers = append(peers, canary.VerifPeer{IP: net.IPv4(ip[0], ip[1], ip[2], ip[3]), MAC: net.HardwareAddr{0x02, 0, 0, 0, 2, ip[3]}})
	}
	name := fmt.Sprintf("c14-%d", sc.ID)
	c, _, err := canary.VerifNew(&captureChannel{Name: name}, peers, nil)
	if err != nil {
		res.Error = err.Error()
		return res
	}
	states := make([]*c14State, len(sc.Conns))
	for i, cn := range sc.Conns {
		states[i] = &c14State{cn: cn}
	}
	decode := func(frame []byte) c14Emitted {
		e := c14Emitted{}
		if len(frame) < 14+20+20 {
			e.Note = fmt.Sprintf("short frame of %d bytes", len(frame))
			return e
		}
		ip := frame[14:]
		ihl := int(ip[0]&0x0f) * 4
		total := int(binary.BigEndian.Uint16(ip[2:4]))
		if ihl < 20 || total > len(ip) || total < ihl+20 {
			e.Note = "inconsistent IPv4 lengths"
			return e
		}
		e.IPOK = ipChecksumOK(ip[:ihl]) && ip[9] == 6 && ip[0]>>4 == 4
		seg := ip[ihl:total]
		want := binary.BigEndian.Uint16(seg[16:18])
		cp := append([]byte{}, seg...)
		cp[16], cp[17] = 0, 0
		e.TCPOK = tcpChecksum(ip[12:16], ip[16:20], cp) == want
		sport := int(binary.BigEndian.Uint16(seg[0:2]))
		dport := int(binary.BigEndian.Uint16(seg[2:4]))
		seq := binary.BigEndian.Uint32(seg[4:8])
		ack := binary.BigEndian.Uint32(seg[8:12])
		fl := seg[13]
		for _, p := range []struct {
			b byte
			n string
		}{{0x02, "SYN"}, {0x10, "ACK"}, {0x01, "FIN"}, {0x04, "RST"}, {0x08, "PSH"}} {
			if fl&p.b != 0 {
				e.Flags = append(e.Flags, p.n)
			}
		}
		doff := int(seg[12]>>4) * 4
		if doff <= len(seg) {
			e.Len = len(seg) - doff
		}
		// addressed back to which connection? (source = our address and the connection's
		// destination port, destination = the client's address and port, link layer too)
		for i, s := range states {
			cip := net.ParseIP(s.cn.CIP).To4()
			if net.IP(ip[16:20]).Equal(cip) && dport == s.cn.CPort && sport == s.cn.DPort && net.IP(ip[12:16]).Equal(ipMe.To4()) &&
				frame[5] == cip[3] {
				e.To = i + 1
				if fl&0x02 != 0 && !s.haveSrv {
					s.srvSeq = seq
					s.haveSrv = true
				}
				e.SeqRel = int(int32(seq - s.srvSeq))
				e.AckRel = int(int32(ack - s.cn.ISN))
			}
		}
		if e.To == 0 {
			e.Note = fmt.Sprintf("addressed to %v:%d from port %d", net.IP(ip[16:20]), dport, sport)
		}
		if e.Flags == nil {
			e.Flags = []string{}
		}
		return e
	}
	drain := func(wait time.Duration) []c14Emitted {
		out := []c14Emitted{}
		deadline := time.Now().Add(wait)
		quiet := time.Now()
		for {
			frames := c.VerifDrain()
			for _, f := range frames {
				out = append(out, decode(f))
				quiet = time.Now()
			}
			if time.Since(quiet) > 12*time.Millisecond || time.Now().After(deadline) {
				return out
			}
			time.Sleep(500 * time.Microsecond)
		}
	}
	res.Lines = append(res.Lines, c14Line{K: "reset", Scn: sc.ID, Emitted: []c14Emitted{}})
	// a connection with a frame that is to arrive in the reader's gap: the gate is armed before the handler exists
	gates := map[int]*gapGate{}
	for _, fr := range sc.Frames {
		if fr.At == "gap" && gates[fr.C] == nil {
			cn := sc.Conns[fr.C-1]
			gates[fr.C] = armGap("canary/" + (&net.TCPAddr{IP: net.ParseIP(cn.CIP), Port: cn.CPort}).String())
		}
	}
	for _, fr := range sc.Frames {
		s := states[fr.C-1]
		if g := gates[fr.C]; fr.At == "gap" && g != nil {
			select {
			case <-g.hit:
			case <-time.After(600 * time.Millisecond):
				res.Error = "the handler did not come to the gap"
				return res
			}
			delete(gates, fr.C)
			go func() {
				time.Sleep(30 * time.Millisecond)
				close(g.release)
			}()
		}
		seq := s.cn.ISN + 1 + uint32(s.sent)
		if s.finSent {
			seq++ // the FIN took a sequence number
		}
		ack := s.srvSeq + 1
		var frame []byte
		wait := 30 * time.Millisecond
		switch fr.K {
		case "syn":
			frame = c14Build(s.cn, s.cn.ISN, 0, 0x02, nil)
		case "ack":
			frame = c14Build(s.cn, seq, ack, 0x10, nil)
			wait = 60 * time.Millisecond
		case "data":
			fl := byte(0x10)
			if fr.Psh {
				fl |= 0x08
				wait = 150 * time.Millisecond
			}
			frame = c14Build(s.cn, seq, ack, fl, s.cn.bytes(s.sent, fr.N))
			s.sent += fr.N
		case "fin":
			fl := byte(0x11)
			if fr.N > 0 {
				fl |= 0x08
			}
			frame = c14Build(s.cn, seq, ack, fl, s.cn.bytes(s.sent, fr.N))
			s.sent += fr.N
			s.finSent = true
			wait = 150 * time.Millisecond
		case "rst":
			frame = c14Build(s.cn, seq, ack, 0x14, nil)
		}
		c.VerifInject(frame)
		res.Lines = append(res.Lines, c14Line{K: fr.K, C: fr.C, N: fr.N, Emitted: drain(wait)})
	}
	// events of this canary
	time.Sleep(30 * time.Millisecond)
	for _, e := range hub.Since(0) {
		if e.Chan != name {
			continue
		}
		ev := c14Event{}
		ev.Type, _ = e.Map["type"].(string)
		ev.SrcIP, _ = e.Map["source-ip"].(string)
		switch p := e.Map["source-port"].(type) {
		case uint16:
			ev.SrcPort = int(p)
		case int:
			ev.SrcPort = p
		}
		switch p := e.Map["destination-port"].(type) {
		case uint16:
			ev.DstPort = int(p)
		case int:
			ev.DstPort = p
		}
		if ph, ok := e.Map["payload-hex"].(string); ok {
			ev.PayloadHex = ph
		} else {
			ev.PayloadHex = "-"
		}
		for i, s := range states {
			if ev.SrcIP == s.cn.CIP && ev.SrcPort == s.cn.CPort {
				ev.C = i + 1
			}
		}
		res.Events = append(res.Events, ev)
	}
	return res
}

func c14Main(args []string) error {
	fs := flag.NewFlagSet("c14", flag.ExitOnError)
	in := fs.String("in", "", "scenario ndjson")
	out := fs.String("out", "", "result ndjson")
	fs.Parse(args)
	quietLogs()
	o, err := newJSONOut(*out)
	if err != nil {
		return err
	}
	defer o.Close()
	return readJSONLines(*in, func(line []byte) error {
		var sc c14Scenario
		if err := json.Unmarshal(line, &sc); err != nil {
			return err
		}
		o.Put(c14Run(sc))
		return nil
	})
}

func init() { register("c14", c14Main) }
