SPECIFICATION Spec
CONSTANT Svc = "ssh"
CONSTANT MaxCreds = 1
CONSTANT MaxSteps = 2
CONSTANT Sim = FALSE
PROPERTIES P1 P2 P3
CHECK_DEADLOCK FALSE
