SPECIFICATION Spec
CONSTANT Part = "ip"
INVARIANT Inv
CHECK_DEADLOCK FALSE
