----------------------------- MODULE Decoder -----------------------------
(* The bounds-checked binary decoder (services/decoder/decoder.go).

   Abstract state: the buffer (a constant of the behaviour), the cursor `off` and the
   sticky error flag `err` (LastError() # nil).  One action per exported method; every
   action also defines the value the method returns (`ret`).  The rule, as the property
   states it: a read that fits returns the big-endian value at the cursor and advances
   by its size; one that does not fit returns zero, records an error and consumes
   nothing; Copy/Seek/Data with any integer argument never leave 0..Len(buf) and never
   fail abruptly (a negative Copy size is an out-of-bounds request like any other).   *)
EXTENDS Integers, Sequences, TLC

CONSTANTS Buffers,     \* set of byte sequences
          Sizes        \* arguments tried for Copy / Seek / HasBytes

VARIABLES buf, off, err, ret, op
vars == <<buf, off, err, ret, op>>

Fits(n) == off + n >= 0 /\ off + n <= Len(buf)

U8(i)  == buf[off + i]
U16    == U8(1) * 256 + U8(2)
S16(v) == IF v >= 32768 THEN v - 65536 ELSE v
\* TLC integers are 32-bit signed: a 32-bit result is given as its two big-endian 16-bit
\* halves [hi, lo]; the reader composes hi * 2^16 + lo (as uint32, or reinterpreted as int32)
Halves == [hi |-> U8(1) * 256 + U8(2), lo |-> U8(3) * 256 + U8(4)]

Init == /\ buf \in Buffers /\ off = 0 /\ err = FALSE
        /\ ret = [v |-> 0] /\ op = [name |-> "new", n |-> 0]

\* a fixed-size read of `size` bytes yielding value `val` (evaluated only if it fits)
Read(name, size, advance) ==
  /\ op' = [name |-> name, n |-> 0]
  /\ IF Fits(size)
       THEN /\ ret' = CASE name \in {"Byte", "PeekByte"} -> [v |-> U8(1)]
                        [] name \in {"Int16", "PeekInt16"} -> [v |-> S16(U16)]
                        [] name \in {"Int32", "Uint32"} -> Halves
            /\ off' = IF advance THEN off + size ELSE off
            /\ UNCHANGED err
       ELSE /\ ret' = [v |-> 0] /\ err' = TRUE /\ UNCHANGED off
  /\ UNCHANGED buf

Byte      == Read("Byte", 1, TRUE)
Int16     == Read("Int16", 2, TRUE)
Int32     == Read("Int32", 4, TRUE)
Uint32    == Read("Uint32", 4, TRUE)
PeekByte  == Read("PeekByte", 1, FALSE)
PeekInt16 == Read("PeekInt16", 2, FALSE)

Slice(from, n) == [i \in 1..n |-> buf[from + i]]

Copy(n) ==
  /\ op' = [name |-> "Copy", n |-> n]
  /\ IF n >= 0 /\ Fits(n)
       THEN ret' = [b |-> Slice(off, n)] /\ off' = off + n /\ UNCHANGED err
       ELSE ret' = [b |-> <<>>] /\ err' = TRUE /\ UNCHANGED off
  /\ UNCHANGED buf

Seek(n) ==
  /\ op' = [name |-> "Seek", n |-> n]
  /\ ret' = [v |-> 0]
  /\ IF Fits(n) THEN off' = off + n /\ UNCHANGED err
                ELSE err' = TRUE /\ UNCHANGED off
  /\ UNCHANGED buf

\* Data = Int16 length followed by Copy(length): two steps of the code in one call
Data ==
  /\ op' = [name |-> "Data", n |-> 0]
  /\ IF ~Fits(2)
       THEN ret' = [b |-> <<>>] /\ err' = TRUE /\ UNCHANGED off        \* length does not fit: Copy(0)
       ELSE LET l == S16(U16) o2 == off + 2 IN
            IF l >= 0 /\ o2 + l <= Len(buf)
              THEN ret' = [b |-> Slice(o2, l)] /\ off' = o2 + l /\ UNCHANGED err
              ELSE ret' = [b |-> <<>>] /\ off' = o2 /\ err' = TRUE
  /\ UNCHANGED buf

HasBytes(n) ==
  /\ op' = [name |-> "HasBytes", n |-> n]
  /\ ret' = [v |-> IF Fits(n) THEN 1 ELSE 0]
  /\ UNCHANGED <<buf, off, err>>

Next == \/ Byte \/ Int16 \/ Int32 \/ Uint32 \/ PeekByte \/ PeekInt16 \/ Data
        \/ \E n \in Sizes : Copy(n) \/ Seek(n) \/ HasBytes(n)

Spec == Init /\ [][Next]_vars

Available == Len(buf) - off

InBounds == off >= 0 /\ off <= Len(buf)
\* an operation that records an error consumes nothing (Data may have consumed its length)
NoProgressOnError ==
  [][(err' /\ ~err /\ op'.name # "Data") => off' = off]_vars
ErrorSticky == [][err => err']_vars
\* a read that fits advances by exactly its size
SizeOf(name) == CASE name = "Byte" -> 1 [] name = "Int16" -> 2 [] name \in {"Int32", "Uint32"} -> 4 [] OTHER -> 0
AdvanceExact ==
  [][(op'.name \in {"Byte", "Int16", "Int32", "Uint32"} /\ Fits(SizeOf(op'.name)))
        => (off' = off + SizeOf(op'.name) /\ err' = err)]_vars
=============================================================================
