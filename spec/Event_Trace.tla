---------------------------- MODULE Event_Trace ----------------------------
(* Trace validation of event.Payload / SourceAddr / DestinationAddr over flat spaces:
   all 1- and 2-byte strings, seeded long strings (logged in aligned 32-byte chunks),
   every address kind.  Each line must agree with Event!Hex / Len and the address rule. *)
EXTENDS Integers, Sequences, TLC, Json
VARIABLES l, acc
Trace == ndJsonDeserialize("trace.ndjson")
VARIABLE kv
E == INSTANCE Event

Init == l = 1 /\ acc = 0 /\ kv = <<>> /\ TLCSet(1, 1)
Line == Trace[l]
Payload == /\ Line.k = "payload"
           /\ Line.hex = E!Hex(Line.bytes) /\ Line.length = Len(Line.bytes) /\ Line.json_ok
           /\ acc' = 0
Chunk == /\ Line.k = "chunk" /\ Line.hex = E!Hex(Line.bytes) /\ acc' = acc + Len(Line.bytes)
Total == /\ Line.k = "total" /\ Line.n = acc /\ Line.length = acc /\ Line.hexlen = 2 * acc /\ Line.json_ok
         /\ acc' = 0
Addr == /\ Line.k = "addr" /\ acc' = 0
        /\ IF Line.net \in {"tcp", "udp"}
             THEN Line.sip = Line.ip /\ Line.dip = Line.ip /\ Line.sport = Line.port /\ Line.dport = Line.port
             ELSE ~Line.has
Next == l <= Len(Trace) /\ l' = l + 1 /\ UNCHANGED kv /\ (Payload \/ Chunk \/ Total \/ Addr)
Spec == Init /\ [][Next]_<<l, acc, kv>>
HighWater == TLCSet(1, IF TLCGet(1) < l THEN l ELSE TLCGet(1))
Accepted == TLCGet(1) = Len(Trace) + 1 \/ (PrintT(<<"REJECTED_AT", TLCGet(1)>>) /\ FALSE)
=============================================================================
