-------------------------- MODULE MC_LimiterTables --------------------------
(* The transcription of the four rate-limited Handle functions (see Limiter.tla for
   the meaning of E/A/R); shared by generation and trace validation.  The harness has
   the byte template of every kind under the same name (harness/cmd/lab/c10.go).   *)
MCSvcs == {"tftp", "memcached", "snmp", "counterstrike"}
MCIPs == {"10.0.0.1", "10.0.0.2", "10.0.0.3"}
MCSteps ==
  [ tftp |-> [ rrq |-> <<"A","E","R">>, wrq |-> <<"A","E","R">>, data |-> <<"A","R">>,
               ack |-> <<"A">>, short |-> <<"A">>, unknown |-> <<"A">> ],
    snmp |-> [ get |-> <<"E","A","R">>, getnext |-> <<"E","A","R">>, set |-> <<"E","A","R">>,
               v2c |-> <<"E">>, garbage |-> <<>> ],
    counterstrike |-> [ info |-> <<"E","A","R">>, player |-> <<"E","A","R">>,
               rules |-> <<"E","A","R">>, other |-> <<"A","R">>, badhdr |-> <<>> ],
    memcached |-> [ stats |-> <<"E","A","R">>, get |-> <<"E","A","R">>,
               two |-> <<"E","A","R","E","A","R">>, three |-> <<"E","A","R","E","A","R","E","A","R">>,
               set |-> <<"E","A","E","R">>, badset |-> <<"E","A">>, empty |-> <<>> ] ]
=============================================================================
