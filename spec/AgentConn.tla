----------------------------- MODULE AgentConn -----------------------------
(* One virtual connection of the agent tunnel at the grain of its critical sections:
   listener/agent/connection.go (agentConnection.Read, receive, Close) and the session loop
   of agent.go that calls receive for every data message and ends the connection on EOF.

   The session loop (receiver) appends the bytes of a data message to the connection's buffer
   under the lock and then NOTIFIES the reader through the channel `in`.  The service (reader)
   calls Read: under the lock it takes what is buffered; if nothing is, it releases the lock
   ("gap") and then waits for a notification or for the end of the stream.

   chan is the number of notifications the channel holds (capacity Cap); a notification can
   also be handed directly to a reader that is already waiting.  The sender never blocks: a
   notification that can neither be handed over nor be stored is DROPPED.

     Cap = 0  the code as found: an unbuffered channel.  A message that arrives while the reader
              is in the gap finds nobody waiting; its notification is dropped, the reader then
              waits although bytes are buffered (NoStall is violated), and when the stream ends
              the reader is told so and the buffered bytes are never read (NoLoss is violated).
     Cap = 1  the repaired code: one notification is kept; a reader that comes out of waiting
              looks at the buffer again (also when it was woken by the end of the stream).     *)
EXTENDS Integers, Sequences, FiniteSets, TLC

CONSTANTS Cap,        \* capacity of the notification channel
          NChunks,    \* data messages the agent sends
          Recheck     \* TRUE: a reader woken by the end of the stream looks at the buffer once more

VARIABLES buff,       \* chunks buffered, not yet read
          chan,       \* notifications held by the channel (0..Cap)
          rpc,        \* reader: "idle" (in the service, between two Reads) | "gap" | "waiting" | "woken" | "eof"
          sent,       \* number of data messages the receiver has handled
          ended,      \* the agent's end-of-stream has been handled (channel closed)
          read        \* chunks handed to the service, in order
vars == <<buff, chan, rpc, sent, ended, read>>

Init == buff = <<>> /\ chan = 0 /\ rpc = "idle" /\ sent = 0 /\ ended = FALSE /\ read = <<>>

\* ---- reader (the service calling Read) ------------------------------------------------------
\* Read, first critical section: take what is buffered, or leave the lock with nothing
ReadCheck ==
  /\ rpc = "idle"
  /\ IF buff # <<>>
       THEN read' = read \o buff /\ buff' = <<>> /\ UNCHANGED rpc
       ELSE rpc' = "gap" /\ UNCHANGED <<buff, read>>
  /\ UNCHANGED <<chan, sent, ended>>
\* ... then start to wait: a stored notification (or the closed channel) is seen at once
ReadWait ==
  /\ rpc = "gap"
  /\ IF chan > 0 THEN chan' = chan - 1 /\ rpc' = "woken"
     ELSE IF ended THEN chan' = chan /\ rpc' = "eof"
     ELSE chan' = chan /\ rpc' = "waiting"
  /\ UNCHANGED <<buff, sent, ended, read>>
\* woken by a notification: second critical section, take what is buffered (possibly nothing) and return to the service
ReadWoken ==
  /\ rpc = "woken"
  /\ read' = read \o buff /\ buff' = <<>> /\ rpc' = "idle"
  /\ UNCHANGED <<chan, sent, ended>>
\* told that the stream has ended
ReadEof ==
  /\ rpc = "eof"
  /\ IF Recheck /\ buff # <<>>
       THEN read' = read \o buff /\ buff' = <<>> /\ rpc' = "idle"      \* what arrived before the end is still handed out
       ELSE UNCHANGED <<read, buff, rpc>>                                \* Read returns EOF: the service leaves
  /\ UNCHANGED <<chan, sent, ended>>

\* ---- receiver (session loop) ----------------------------------------------------------------
Receive ==
  /\ sent < NChunks /\ ~ended
  /\ sent' = sent + 1
  /\ buff' = Append(buff, sent + 1)
  /\ IF rpc = "waiting" THEN rpc' = "woken" /\ UNCHANGED chan               \* handed over
     ELSE IF chan < Cap THEN chan' = chan + 1 /\ UNCHANGED rpc              \* kept
     ELSE UNCHANGED <<chan, rpc>>                                           \* dropped
  /\ UNCHANGED <<ended, read>>
End ==
  /\ ~ended /\ ended' = TRUE
  /\ rpc' = IF rpc = "waiting" THEN "eof" ELSE rpc
  /\ UNCHANGED <<buff, chan, sent, read>>

Next == ReadCheck \/ ReadWait \/ ReadWoken \/ ReadEof \/ Receive \/ End
Spec == Init /\ [][Next]_vars /\ WF_vars(ReadCheck) /\ WF_vars(ReadWait) /\ WF_vars(ReadWoken) /\ WF_vars(ReadEof)

\* ---- properties -------------------------------------------------------------------------------
\* the reader never sleeps on bytes it could read: waiting with a non-empty buffer means a notification is on its way
NoStall == ~(rpc = "waiting" /\ buff # <<>>)
\* in order, exactly once
InOrder == \A i \in 1..Len(read) : read[i] = i
\* a service that has been told the stream ended has read everything that was received before
NoLoss == (rpc = "eof" /\ ~(Recheck /\ buff # <<>>)) => buff = <<>>
\* every chunk received is eventually read (the reader keeps reading)
Delivered == \A n \in 1..NChunks : (sent >= n) ~> (Len(read) >= n)
=============================================================================
