--------------------------- MODULE MC_Honeytrap ---------------------------
(* Design check of the composition and generation of whole-server configurations: the services are the
   real ones the harness starts (http and telnet sharing a port - http has a payload detector -, ftp and
   redis on ports of their own), the filters are drawn over three channels and expressions that match the
   real categories in different ways.                                                                    *)
EXTENDS Integers, Sequences, FiniteSets, TLC, Json, HoneytrapUniverse
CONSTANTS Sim, NFilters
VARIABLES conns, sent, panicked, beat, delivered, cfg, step, done

Exprs == { [kind |-> "lit", s |-> <<"t">>], [kind |-> "full", s |-> <<"f","t","p">>], [kind |-> "pre", s |-> <<"t","e">>],
           [kind |-> "lit", s |-> <<"t","p">>], [kind |-> "alt", s |-> <<"r","e","d">>, t |-> <<"n","e","t">>], [kind |-> "full", s |-> <<"t">>] }
CatLists == { <<>> } \cup { <<e>> : e \in Exprs } \cup { <<[kind |-> "full", s |-> <<"h","t","t","p">>], [kind |-> "lit", s |-> <<"d","i">>]>> }
SvcLists == { <<>>, << [kind |-> "full", s |-> <<>>] >>, << [kind |-> "lit", s |-> <<"x">>] >> }   \* the field is missing on these events: "" is matched
ChanLists == { <<"a">>, <<"b">>, <<"f">>, <<"a", "f">>, <<"b", "a">>, <<"nosuch", "b">>, <<"f", "f">> }
FilterSet == { [channels |-> c, cats |-> k, svcs |-> s] : c \in ChanLists, k \in CatLists, s \in SvcLists }
Plan == << [proto |-> "tcp", ip |-> "127.0.0.1", port |-> 8080, first |-> <<"GET">>, src |-> "c1"],
           [proto |-> "tcp", ip |-> "127.0.0.1", port |-> 8080, first |-> <<"alice">>, src |-> "c2"],
           [proto |-> "tcp", ip |-> "127.0.0.1", port |-> 21, first |-> <<"USER">>, src |-> "c3"],
           [proto |-> "tcp", ip |-> "127.0.0.1", port |-> 6379, first |-> <<"*1">>, src |-> "c4"],
           [proto |-> "tcp", ip |-> "127.0.0.1", port |-> 7777, first |-> <<"PANIC">>, src |-> "c5"],
           [proto |-> "tcp", ip |-> "127.0.0.1", port |-> 9999, first |-> <<"GET">>, src |-> "c6"],
           [proto |-> "udp", ip |-> "127.0.0.1", port |-> 7, first |-> <<"hello">>, src |-> "c7"],
           [proto |-> "tcp", ip |-> "127.0.0.1", port |-> 7, first |-> <<"hello">>, src |-> "c8"],
           [proto |-> "udp", ip |-> "127.0.0.1", port |-> 21, first |-> <<"USER">>, src |-> "c9"] >>

H == INSTANCE Honeytrap WITH Channels <- Chans, Entries <- SvcTable, FilterCfg <- cfg, CatOf <- Cats, Token <- "tok"

RandCfg(n) == [i \in 1..n |-> RandomElement(FilterSet)]
Init == /\ \E fs \in (IF Sim THEN { RandCfg(NFilters) } ELSE { <<f>> : f \in FilterSet }) : H!Init(fs)
        /\ step = 1 /\ done = FALSE
\* every planned connection is accepted and, if routed, emits two events
Next == \/ /\ step <= Len(Plan) /\ H!Accept(Plan[step]) /\ step' = step + 1 /\ UNCHANGED done
        \/ /\ step > Len(Plan) /\ step <= 3 * Len(Plan)
           /\ LET k == ((step - Len(Plan) - 1) % Len(Plan)) + 1 IN
              IF conns[k].svc = "none" \/ k \in panicked THEN UNCHANGED <<cfg, conns, sent, panicked, beat, delivered>>
              ELSE IF conns[k].svc = "boom" /\ step > 2 * Len(Plan) THEN H!Panic(k)
              ELSE H!Emit(k, [k |-> "missing"])
           /\ step' = step + 1 /\ UNCHANGED done
        \/ /\ ((step = Len(Plan) + 1 /\ beat = 0) \/ (step = 2 * Len(Plan) + 1 /\ beat = 1)) /\ H!Heartbeat /\ UNCHANGED <<step, done>>
        \/ /\ step > 3 * Len(Plan) /\ ~done /\ done' = TRUE
           /\ PrintT(<<"SCN", ToJson([filters |-> cfg, routed |-> [k \in 1..Len(conns) |-> conns[k].svc]])>>)
           /\ UNCHANGED <<conns, sent, panicked, beat, delivered, cfg, step>>
Spec == Init /\ [][Next]_<<conns, sent, panicked, beat, delivered, cfg, step, done>>
Inv == H!ExactlyAdmitted /\ H!OrderPreserved /\ H!Attributed /\ H!SilentIfUnrouted /\ H!OneFatalPerPanic /\ H!HeartbeatsNumbered
=============================================================================
