------------------------------ MODULE Ports ------------------------------
(* Which addresses the server listens on (server/honeytrap.go: ToAddr, the [[port]] loop
   of Run, compareAddr) and which services a connection to them can reach.

   A port string is described structurally:
     [slashes, proto, host, hasPort, num, text]
   slashes  number of "/" in the string
   proto    text before the slash
   host     "" (none), an IPv4 literal, or a bracketed IPv6 literal (without brackets)
   hasPort  the part after the slash has the form host:port or :port or port
   num      the port's value if its text is a plain decimal number, else -1
            ("+80", "-1", "", "http", "80x" are not plain numbers)
   text     the literal string (used by the harness only)                           *)
EXTENDS Integers, Sequences, FiniteSets, TLC

CONSTANTS Defined        \* names of the services that exist

\* ---- parsing (ToAddr) ---------------------------------------------------------
WellFormed(ps) == /\ ps.slashes = 1
                  /\ ps.proto \in {"tcp", "udp"}
                  /\ ps.hasPort
                  /\ ps.num >= 0 /\ ps.num <= 65535
Addr(ps) == [proto |-> ps.proto, ip |-> ps.host, port |-> ps.num]

Compatible(a, b) == /\ a.proto = b.proto /\ a.port = b.port
                    /\ (a.ip = "" \/ b.ip = "" \/ a.ip = b.ip)

\* ---- the [[port]] loop ----------------------------------------------------------
\* entry == [port : <<>> (key absent) or <<port string>>, hasPorts : BOOLEAN (key "ports" given),
\*           ports : Seq(port string), svcs : Seq(name)]
PortStrings(e) == (IF e.hasPorts THEN e.ports ELSE <<>>) \o e.port
NoKeys(e) == e.port = <<>> /\ ~e.hasPorts
Resolve(names) == SelectSeq(names, LAMBDA n : n \in Defined)     \* unknown names are skipped

\* acc: sequence of [addr, svcs] accepted so far = the port table, in listening order
RECURSIVE AddStrings(_, _, _)
AddStrings(strs, svcs, acc) ==
  IF strs = <<>> THEN acc
  ELSE LET ps == Head(strs) IN
       IF /\ WellFormed(ps)
          /\ Resolve(svcs) # <<>>
          /\ ~\E k \in 1..Len(acc) : Compatible(acc[k].addr, Addr(ps))
         THEN AddStrings(Tail(strs), svcs, Append(acc, [addr |-> Addr(ps), svcs |-> Resolve(svcs)]))
         ELSE AddStrings(Tail(strs), svcs, acc)

RECURSIVE Build(_, _)
Build(entries, acc) ==
  IF entries = <<>> THEN acc
  ELSE LET e == Head(entries) IN
       IF NoKeys(e)
         THEN Build(Tail(entries), acc)                   \* neither key: entry ignored
         ELSE Build(Tail(entries), AddStrings(PortStrings(e), e.svcs, acc))
Table(entries) == Build(entries, <<>>)

Listened(entries) == [k \in 1..Len(Table(entries)) |-> Table(entries)[k].addr]

\* which service a connection to `target` (a concrete address) reaches: all services here are
\* detector-less, so it is the first one of the matching entry (Dispatch.tla has the full rule)
Reach(entries, target) ==
  LET t == Table(entries)
      m == { k \in 1..Len(t) : Compatible(t[k].addr, target) } IN
  IF m = {} THEN "none" ELSE t[CHOOSE k \in m : TRUE].svcs[1]

\* ---- properties (over a configuration) ----------------------------------------------
\* exactly the well-formed strings naming a defined service, first wins
ListenedExactly(entries) ==
  LET t == Table(entries) IN
  /\ \A k \in 1..Len(t) : t[k].svcs # <<>> /\ \A j \in 1..Len(t[k].svcs) : t[k].svcs[j] \in Defined
  /\ \A i, j \in 1..Len(t) : i # j => ~Compatible(t[i].addr, t[j].addr)
  /\ \A n \in 1..Len(entries) :
       ~NoKeys(entries[n]) =>
       \A q \in 1..Len(PortStrings(entries[n])) :
         LET ps == PortStrings(entries[n])[q] IN
         (WellFormed(ps) /\ Resolve(entries[n].svcs) # <<>>) =>
            \E k \in 1..Len(t) : Compatible(t[k].addr, Addr(ps))
\* at most one table entry matches any concrete target (so Reach is well defined)
ReachUnique(entries, targets) ==
  \A tg \in targets : Cardinality({ k \in 1..Len(Table(entries)) : Compatible(Table(entries)[k].addr, tg) }) <= 1
=============================================================================
