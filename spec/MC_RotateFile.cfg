SPECIFICATION GSpec
CONSTANT Devs = {}
CONSTANT GenLen = 2
INVARIANT GInv
CHECK_DEADLOCK FALSE
