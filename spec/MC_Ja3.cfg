SPECIFICATION Spec
CONSTANT Sim = FALSE
CONSTANT MaxC = 3
CONSTANT MaxE = 3
INVARIANT Inv
CHECK_DEADLOCK FALSE
