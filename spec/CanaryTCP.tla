----------------------------- MODULE CanaryTCP -----------------------------
(* The raw listener's TCP engine: listener/canary/canary_linux.go handleTCP / send,
   state.go, socket.go.  One record per 4-tuple.

   Sequence numbers are kept RELATIVE: the client's to its initial sequence number (isn),
   the listener's to the sequence number of its SYN-ACK; arithmetic modulo 2^32 is done by
   whoever binds the relative numbers to a concrete isn (the harness, with boundary isns
   0, 1, 2^31-1, 2^31, 2^32-2, 2^32-1).  What the listener emits in reaction to a client
   frame is not fixed frame by frame (handler goroutines write and close on their own
   schedule); it is CONSTRAINED.  With rcvd/finSeen taken AFTER the client frame:
     every emitted frame is addressed to a known connection d, has correct IPv4 and TCP
       checksums, and - unless it is d's SYN|ACK - carries ACK with
       ackRel = 1 + rcvd[d] + (1 if d's FIN was received)        (acks exactly what arrived)
     the listener's sequence numbers towards d never go backwards
     syn   of c: exactly one frame to c: SYN|ACK, seqRel 0, ackRel 1
     data  of c: at least one frame to c
     fin   of c: at least one frame to c (which, by the rule above, acknowledges the FIN)   *)
EXTENDS Integers, Sequences, FiniteSets, TLC

CONSTANTS Conns

VARIABLES st,        \* st[c] \in {"closed", "synrcvd", "estab", "closing", "gone"}; "gone": the client completed
                     \* its close (ACK after its FIN) or aborted it (RST): the listener may forget the connection
          rcvd,      \* bytes received in order from c
          finSeen,   \* the client's FIN has been received
          lastSeq    \* highest seqRel emitted to c
vars == <<st, rcvd, finSeen, lastSeq>>

Init == /\ st = [c \in Conns |-> "closed"] /\ rcvd = [c \in Conns |-> 0]
        /\ finSeen = [c \in Conns |-> FALSE] /\ lastSeq = [c \in Conns |-> 0]

Flags(e) == { e.flags[i] : i \in 1..Len(e.flags) }
To(E, c) == SelectSeq(E, LAMBDA e : e.to = c)

\* the general rule, against the state after the client frame
FrameOK(e, r, f, ls) ==
  /\ e.to \in Conns /\ e.ipok /\ e.tcpok
  /\ e.seqRel >= ls[e.to]
  /\ \/ (Flags(e) = {"SYN", "ACK"} /\ e.seqRel = 0 /\ e.ackRel = 1)
     \/ ("ACK" \in Flags(e) /\ "SYN" \notin Flags(e) /\ e.ackRel = 1 + r[e.to] + (IF f[e.to] THEN 1 ELSE 0))
AllOK(E, r, f, ls) == /\ \A i \in 1..Len(E) : FrameOK(E[i], r, f, ls)
                      /\ \A i, j \in 1..Len(E) : (i < j /\ E[i].to = E[j].to) => E[i].seqRel <= E[j].seqRel
NewLast(E) == [c \in Conns |-> IF To(E, c) = <<>> THEN lastSeq[c] ELSE To(E, c)[Len(To(E, c))].seqRel]

Syn(c, E) ==
  /\ st[c] = "closed"
  /\ AllOK(E, rcvd, finSeen, lastSeq)
  /\ Len(To(E, c)) = 1 /\ Flags(To(E, c)[1]) = {"SYN", "ACK"}
  /\ st' = [st EXCEPT ![c] = "synrcvd"]
  /\ lastSeq' = NewLast(E)
  /\ UNCHANGED <<rcvd, finSeen>>

Ack(c, E) ==
  /\ st[c] \in {"synrcvd", "estab", "closing"}
  /\ AllOK(E, rcvd, finSeen, lastSeq)
  /\ st' = [st EXCEPT ![c] = IF @ = "synrcvd" THEN "estab" ELSE IF @ = "closing" THEN "gone" ELSE @]
  /\ lastSeq' = NewLast(E)
  /\ UNCHANGED <<rcvd, finSeen>>

\* the client aborts a connection it already closed: nothing has to be emitted, the record may go - and the
\* other connections must go on being served (AllOK is evaluated for whatever is emitted to them)
Rst(c, E) ==
  /\ st[c] = "closing"
  /\ AllOK(E, rcvd, finSeen, lastSeq)
  /\ st' = [st EXCEPT ![c] = "gone"]
  /\ lastSeq' = NewLast(E)
  /\ UNCHANGED <<rcvd, finSeen>>

\* data follows the handshake-completing ACK (a client that piggybacks data on that ACK is outside the property)
Data(c, n, E) ==
  /\ st[c] \in {"estab", "closing"} /\ n >= 1 /\ ~finSeen[c]
  /\ rcvd' = [rcvd EXCEPT ![c] = @ + n]
  /\ AllOK(E, rcvd', finSeen, lastSeq)
  /\ Len(To(E, c)) >= 1
  /\ lastSeq' = NewLast(E)
  /\ UNCHANGED <<st, finSeen>>

Fin(c, n, E) ==
  /\ st[c] \in {"estab", "closing"} /\ ~finSeen[c]
  /\ rcvd' = [rcvd EXCEPT ![c] = @ + n]
  /\ finSeen' = [finSeen EXCEPT ![c] = TRUE]
  \* a segment carrying data and FIN may be acknowledged in two steps: the data first, then the FIN too
  /\ \A i \in 1..Len(E) : FrameOK(E[i], rcvd', finSeen', lastSeq) \/ (E[i].to = c /\ FrameOK(E[i], rcvd', finSeen, lastSeq))
  /\ \A i, j \in 1..Len(E) : (i < j /\ E[i].to = E[j].to) => E[i].seqRel <= E[j].seqRel
  /\ \E i \in 1..Len(E) : E[i].to = c /\ FrameOK(E[i], rcvd', finSeen', lastSeq)      \* the FIN is answered
  /\ st' = [st EXCEPT ![c] = "closing"]
  /\ lastSeq' = NewLast(E)

TypeOK == \A c \in Conns : rcvd[c] >= 0 /\ (finSeen[c] => st[c] \in {"closing", "gone"})
=============================================================================
