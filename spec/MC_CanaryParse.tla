-------------------------- MODULE MC_CanaryParse --------------------------
(* C02: the frame-field lattice; every record is printed once and built into bytes by the
   harness.  A second configuration walks short histories over the connection table.   *)
EXTENDS Integers, Sequences, FiniteSets, TLC, Json
CONSTANTS Part
VARIABLES alive, occupied, handled, dropped, step

C == INSTANCE CanaryParse WITH Cap <- 3

Base == [eth |-> "ipv4", ihl |-> 5, iplen |-> 60, total |-> 60, proto |-> 6, doff |-> 5, opts |-> <<>>,
         ulen |-> 40, tome |-> TRUE, peer |-> "arp", flags |-> {"SYN"}]
With(f, k, v) == [f EXCEPT ![k] = v]

\* IP level: header length nibble x total length around every bound x actual length x protocol
IPFrames == { [Base EXCEPT !.ihl = h, !.iplen = n, !.total = t, !.proto = p, !.ulen = IF t >= 20 THEN t - 20 ELSE 0] :
              h \in 0..15, n \in {0, 1, 19, 20, 21, 24, 40, 60}, p \in {1, 2, 6, 17, 99},
              t \in {0, 1, 19, 20, 21, 39, 40, 41, 59, 60, 61, 65535} }
\* TCP level: segment length x data offset x flags x peer reachability
TCPFrames == { [Base EXCEPT !.iplen = 20 + s, !.total = 20 + s, !.doff = d, !.flags = fl, !.peer = pr, !.tome = me] :
               s \in {0, 1, 12, 13, 19, 20, 21, 24, 28, 40}, d \in 0..15,
               fl \in { {"SYN"}, {"ACK"}, {"SYN", "ACK"}, {"FIN", "ACK"}, {"RST"}, {}, {"PSH", "ACK"} },
               pr \in {"arp", "route", "gwless", "onlink", "none"}, me \in BOOLEAN }
\* TCP options: every layout of up to 3 option bytes over the boundary alphabet, in a 24-byte header
OptAlphabet == {0, 1, 2, 3, 4, 8, 255}
Opt3 == { <<a>> : a \in OptAlphabet } \cup { <<a, b>> : a \in OptAlphabet, b \in OptAlphabet }
        \cup { <<a, b, c>> : a \in OptAlphabet, b \in OptAlphabet, c \in OptAlphabet }
OptFrames == { [Base EXCEPT !.iplen = 20 + 20 + Len(o), !.total = 20 + 20 + Len(o), !.doff = 5 + (Len(o) + 3) \div 4, !.opts = o,
                            !.flags = {"ACK"}] : o \in Opt3 }
           \cup { [Base EXCEPT !.iplen = 44, !.total = 44, !.doff = 6, !.opts = o, !.flags = {"SYN"}] :
                  o \in { <<a, b, c, d>> : a \in {0, 1, 2, 8}, b \in {0, 2, 4, 255}, c \in {0, 1, 3}, d \in {0, 2, 255} } }
\* UDP / ICMP: actual length x length field
UDPFrames == { [Base EXCEPT !.proto = 17, !.iplen = 20 + n, !.total = 20 + n, !.ulen = u, !.tome = me] :
               n \in {0, 1, 7, 8, 9, 20}, u \in {0, 7, 8, 9, 20, 21, 65535}, me \in BOOLEAN }
ICMPFrames == { [Base EXCEPT !.proto = 1, !.iplen = 20 + n, !.total = 20 + n, !.tome = me] : n \in {0, 1, 7, 8, 9, 64}, me \in BOOLEAN }
OtherFrames == { [Base EXCEPT !.eth = e, !.iplen = n, !.total = n] : e \in {"arp", "other"}, n \in {0, 1, 27, 28, 60} }

Frames == CASE Part = "ip" -> IPFrames [] Part = "tcp" -> TCPFrames [] Part = "opt" -> OptFrames
            [] Part = "udp" -> UDPFrames \cup ICMPFrames \cup OtherFrames

RECURSIVE SetToSeqOf(_)
SetToSeqOf(S) == IF S = {} THEN <<>> ELSE LET x == CHOOSE x \in S : TRUE IN <<x>> \o SetToSeqOf(S \ {x})
Init == C!Init /\ step = 0
Next == /\ step = 0 /\ step' = 1
        /\ \E f \in Frames : /\ C!Deliver(f)
                             /\ PrintT(<<"SCN", ToJson([f |-> [f EXCEPT !.flags = SetToSeqOf(@)], class |-> C!Classify(f)])>>)
Spec == Init /\ [][Next]_<<alive, occupied, handled, dropped, step>>
Inv == C!Alive /\ C!WithinCapacity
=============================================================================
