SPECIFICATION Spec
CONSTANT K = 2
CONSTANT N = 4
CONSTANT Devs = {}
INVARIANT Inv
CHECK_DEADLOCK FALSE
