---------------------------- MODULE MC_UniqueSet ----------------------------
EXTENDS Integers, Sequences, FiniteSets, TLC, Json
CONSTANTS Devs
VARIABLES items, out
U == INSTANCE UniqueSet WITH Keys <- {1, 2, 3}, Deviations <- Devs
SetAsSeq(S) == LET RECURSIVE F(_) F(T) == IF T = {} THEN <<>> ELSE LET x == CHOOSE x \in T : \A y \in T : x <= y IN <<x>> \o F(T \ {x}) IN F(S)
Init == U!Init
Next == /\ U!Next
        /\ PrintT(<<"SCN", ToJson([items |-> items, op |-> out'.op, visited |-> out'.visited, items2 |-> items',
                                   arg |-> IF out'.op = "each" THEN SetAsSeq({ k \in {1, 2, 3} : k \in { items[i] : i \in 1..Len(items) } /\ ~\E j \in 1..Len(items') : items'[j] = k })
                                           ELSE IF out'.op = "add" THEN out'.visited
                                           ELSE SetAsSeq({ k \in {1, 2, 3} : (\E i \in 1..Len(items) : items[i] = k) /\ ~\E j \in 1..Len(items') : items'[j] = k })])>>)
Spec == Init /\ [][Next]_<<items, out>>
View == items
Inv == U!NoDuplicates
Prop == U!EachExact
=============================================================================
