--------------------------- MODULE MC_FtpSession ---------------------------
(* C11 level 2: design check of FtpSession (Sim = FALSE: every command x every short path,
   exhaustive to MaxLen commands, no history) and generation of command sequences
   (Sim = TRUE under -simulate: one random command with a random path of up to 4 components
   per step; the history carries what the specification prescribes after every step).  *)
EXTENDS Integers, Sequences, FiniteSets, TLC, Json
CONSTANTS Sim, MaxLen, Devs
VARIABLES dirs, files, cwd, renameFrom, appendNext, touched, last, hist, done

IDirs == { <<>>, <<"a">>, <<"b">>, <<"a", "a">>, <<"a", "b">>, <<"b", "a">> }
IFiles == (<<"f">> :> <<"F0">>) @@ (<<"a", "f">> :> <<"F1">>)
S == INSTANCE FtpSession WITH InitDirs <- IDirs, InitFiles <- IFiles, Deviations <- Devs

Alphabet == IF Sim THEN {"a", "b", "f", "n", "..", ".", ""} ELSE {"a", "f", "n", ".."}
PathCmds == {"CWD", "MKD", "RMD", "DELE", "RNFR", "RNTO", "STOR", "RETR", "LIST", "NLST", "SIZE", "MDTM"}
BareCmds == {"CDUP", "PWD", "APPE"}

Do(c, p, k) ==
  CASE c = "CWD" -> S!Cwd(p) [] c = "CDUP" -> S!Cdup [] c = "PWD" -> S!Pwd
    [] c = "MKD" -> S!Mkd(p) [] c = "RMD" -> S!Rmd(p) [] c = "DELE" -> S!Dele(p)
    [] c = "RNFR" -> S!Rnfr(p) [] c = "RNTO" -> S!Rnto(p) [] c = "APPE" -> S!Appe
    [] c = "STOR" -> S!Stor(p, k) [] c = "RETR" -> S!Retr(p)
    [] c \in {"LIST", "NLST"} -> S!List(c, p) [] c \in {"SIZE", "MDTM"} -> S!Stat(c, p)

\* a relative path whose first component is empty is written "/..." - that is an absolute path
OKPath(p) == p.comps # <<>> /\ (p.abs \/ p.comps[1] # "")
ShortPaths == { p \in { [abs |-> ab, comps |-> s] : ab \in BOOLEAN,
                        s \in { <<x>> : x \in Alphabet } \cup { <<x, y>> : x \in Alphabet, y \in Alphabet } } : OKPath(p) }

\* random path of 1..4 components (state-level argument: RandomElement of a constant is cached)
RandComp(i) == RandomElement(Alphabet)
RandPath(n) == CHOOSE q \in { IF OKPath(p) THEN p ELSE [p EXCEPT !.abs = TRUE] :
                                 p \in { [abs |-> RandomElement(BOOLEAN),
                                          comps |-> [i \in 1..RandomElement(1..4) |-> RandComp(i + n)]] } } : TRUE

Snapshot == [cmd |-> last'.cmd, ok |-> last'.ok, loc |-> last'.loc, names |-> last'.names, content |-> last'.content,
             cwd |-> cwd', dirs |-> dirs', files |-> [u \in DOMAIN files' |-> files'[u]]]

Init == S!Init /\ hist = <<>> /\ done = FALSE

StepSim == /\ Sim /\ ~done /\ Len(hist) < MaxLen
           \* (bound by \E over a singleton: a LET would draw again at every use)
           /\ \E c \in {RandomElement(PathCmds \cup BareCmds)}, p \in {RandPath(Len(hist))} :
              LET k == "C" \o ToString(Len(hist) + 1)
              IN /\ Do(c, p, k)
                 /\ hist' = Append(hist, [c |-> c, p |-> IF c \in BareCmds THEN S!NoPath ELSE p, chunk |-> k,
                                          files |-> [u \in DOMAIN files' |-> files'[u]], exp |-> Snapshot])
           /\ UNCHANGED done
StepAll == /\ ~Sim /\ TLCGet("level") <= MaxLen
           /\ \/ \E c \in PathCmds, p \in ShortPaths : Do(c, p, "C1")
              \/ \E c \in BareCmds : Do(c, S!NoPath, "C1")
           /\ UNCHANGED <<hist, done>>
Emit == /\ Sim /\ ~done /\ Len(hist) = MaxLen
        /\ PrintT(<<"SCN", ToJson([steps |-> hist])>>)
        /\ done' = TRUE /\ UNCHANGED <<dirs, files, cwd, renameFrom, appendNext, touched, last, hist>>
Next == StepSim \/ StepAll \/ Emit
vars == <<dirs, files, cwd, renameFrom, appendNext, touched, last, hist, done>>
Spec == Init /\ [][Next]_vars
View == <<dirs, files, cwd, renameFrom, appendNext, touched>>
Inv == S!Contained /\ S!CwdInside /\ S!TreeClosed /\ S!NoClash /\ S!TreeInside
=============================================================================
