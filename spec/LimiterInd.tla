---------------------------- MODULE LimiterInd ----------------------------
(* C10, unbounded step: the token-bucket argument of Limiter.tla as an inductive invariant,
   discharged by Apalache for ARBITRARY time (the clock is an unbounded integer, Advance takes
   any positive duration) and arbitrarily long histories - what TLC's bounded clock (MaxT)
   cannot give.  One service; three source addresses (per-address independence is structural:
   every action touches one index).  Same units as Limiter.tla: a token is Q sub-units, one
   sub-unit is gained per time unit, a response costs Q.
     Init => IndInv,   IndInv /\ Next => IndInv',   IndInv => AtMostBurstPerWindow          *)
EXTENDS Integers, Sequences, Apalache

B == 4          \* Burst
Q == 3          \* sub-units per token / per interval
IPs == 1..3

VARIABLES
  \* @type: Int -> Int;
  tokens,
  \* @type: Int;
  now,
  \* @type: Int -> Seq(Int);
  replies       \* replies[i]: send times of the responses to i less than an interval ago, oldest first

Init == /\ tokens = [i \in IPs |-> B * Q]
        /\ now = 0
        /\ replies = [i \in IPs |-> <<>>]

\* a datagram from i passes the Allow gate n times (as often as its straight-line program asks and tokens allow)
Request(i) ==
  \E n \in 0..3 :
    /\ n * Q <= tokens[i]
    /\ tokens' = [tokens EXCEPT ![i] = @ - n * Q]
    /\ replies' = [replies EXCEPT ![i] = IF n = 0 THEN @
                                         ELSE IF n = 1 THEN Append(@, now)
                                         ELSE IF n = 2 THEN Append(Append(@, now), now)
                                         ELSE Append(Append(Append(@, now), now), now)]
    /\ UNCHANGED now

Min(a, b) == IF a < b THEN a ELSE b

\* any positive amount of time passes; responses older than an interval leave the history (they are a prefix)
Advance ==
  \E d \in Nat :
    /\ d >= 1
    /\ now' = now + d
    /\ tokens' = [i \in IPs |-> Min(B * Q, tokens[i] + d)]
    /\ \E cut \in [IPs -> 0..8] :
         /\ \A i \in IPs :
              /\ cut[i] <= Len(replies[i])
              /\ \A m \in 1..8 : m <= Len(replies[i]) => ((m <= cut[i]) <=> (now' - replies[i][m] >= Q))
         /\ replies' = [i \in IPs |-> SubSeq(replies[i], cut[i] + 1, Len(replies[i]))]

Next == (\E i \in IPs : Request(i)) \/ Advance

\* ---- the inductive invariant -------------------------------------------------------
TypeOK == /\ now >= 0
          /\ \A i \in IPs : tokens[i] >= 0 /\ tokens[i] <= B * Q /\ Len(replies[i]) <= 8

IndInv ==
  /\ TypeOK
  /\ \A i \in IPs :
       \A j \in 1..8 : j <= Len(replies[i]) =>
         /\ replies[i][j] <= now /\ now - replies[i][j] < Q                 \* recent, not from the future
         /\ (j > 1 => replies[i][j - 1] <= replies[i][j])                   \* oldest first
         \* the responses since response j, plus what is left in the bucket, fit capacity + refill since then
         /\ tokens[i] + Q * (Len(replies[i]) - j + 1) <= B * Q + (now - replies[i][j])

\* an arbitrary state satisfying the invariant (Gen: data structures of bounded size, unconstrained contents)
IndInit == /\ tokens = Gen(3) /\ now = Gen(1) /\ replies = Gen(9)
           /\ DOMAIN tokens = IPs /\ DOMAIN replies = IPs
           /\ IndInv

\* the property: within any window shorter than the interval one address gets at most Burst responses
AtMostBurstPerWindow == \A i \in IPs : Len(replies[i]) <= B
\* sanity (must be REFUTED: four responses within one window are possible)
TooStrong == \A i \in IPs : Len(replies[i]) <= B - 1
=============================================================================
