-------------------------------- MODULE Ipp --------------------------------
(* The IPP front end: services/ipp/message.go (decode, ippHandler, response builders),
   group.go, values.go, ipp.go (event).

   request == [major, minor, op, id, groups : Seq([tag, attrs : Seq([vt, name, vals : Seq])]), doc]
   where vt is a value tag (integer, boolean, enum, rangeOfInteger, keyword, uri, charset,
   naturalLanguage, mimeMediaType, textWithoutLanguage, nameWithoutLanguage), every attribute has
   1..3 values ("1setOf"), and doc is the length of the document data that follows the
   end-of-attributes tag.  What the service must make of it:
     the reply echoes version and request id with status successful-ok, and the attributes-charset
       and attributes-natural-language of the operation attributes group;
     for Print-Job the event carries printer-uri, requesting-user-name, job-name and the document,
       unchanged - whatever other attributes of whatever supported type surround them.       *)
EXTENDS Integers, Sequences, FiniteSets, TLC

OpGroup(req) == LET idx == { i \in 1..Len(req.groups) : req.groups[i].tag = 1 } IN
                IF idx = {} THEN [tag |-> 1, attrs |-> <<>>] ELSE req.groups[CHOOSE i \in idx : \A j \in idx : i <= j]
First(g, name) == LET idx == { i \in 1..Len(g.attrs) : g.attrs[i].name = name } IN
                  IF idx = {} THEN "" ELSE g.attrs[CHOOSE i \in idx : \A j \in idx : i <= j].vals[1]
\* (the last attribute of a name wins in the implementation's loop; requests never repeat these names)

Response(req) == [major |-> req.major, minor |-> req.minor, status |-> 0, id |-> req.id,
                  charset |-> First(OpGroup(req), "attributes-charset"),
                  language |-> First(OpGroup(req), "attributes-natural-language")]
IsPrintJob(req) == req.op = 2
EventFields(req) == IF IsPrintJob(req)
                      THEN [uri |-> First(OpGroup(req), "printer-uri"), user |-> First(OpGroup(req), "requesting-user-name"),
                            jobname |-> First(OpGroup(req), "job-name"), doc |-> req.doc]
                      ELSE [uri |-> "", user |-> "", jobname |-> "", doc |-> req.doc]
=============================================================================
