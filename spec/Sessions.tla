----------------------------- MODULE Sessions -----------------------------
(* Connections served concurrently by ONE shared service object (server/honeytrap.go
   handle -> Service.Handle; services/{ldap,ftp,smtp,telnet,redis,memcached,http,tftp}).

   Each connection c runs a script: a sequence of requests (the first is "open": the
   greeting, if any).  The protocol is a pair of operators
       PInit            initial per-connection state
       PStep(st, req)   [st |-> next state, out |-> what the client receives and which
                         events are recorded for it]
   In the intended design a step of c reads and writes st[c] only - there is NO shared
   variable.  The "free" protocol used for the generic check takes the connection's own
   request history as its state, so that `out` may depend on everything c itself did and
   on nothing else: that is exactly the property (C03).  Interpreted protocols
   (Proto_ftp ...) refine it.  Deviations add the shared variables found in the code:
     "shared_state"   one state for all connections of the service (ftp cwd, ldap login)
     "stale_address"  events carry the address of the connection that ran before        *)
EXTENDS Integers, Sequences, FiniteSets, TLC

CONSTANTS Conns,            \* connection ids
          Script,           \* Script[c] : Seq(request)
          PInit, PStep(_, _),
          Deviations

VARIABLES pc,       \* pc[c] = number of requests of c already served
          st,       \* st[c] = protocol state of c
          shared,   \* only used by deviations
          outs,     \* outs[c] = sequence of outputs c has observed
          order     \* the schedule so far: sequence of connection ids
vars == <<pc, st, shared, outs, order>>

Init == /\ pc = [c \in Conns |-> 0]
        /\ st = [c \in Conns |-> PInit]
        /\ shared = [state |-> PInit, lastAddr |-> <<>>]
        /\ outs = [c \in Conns |-> <<>>]
        /\ order = <<>>

Step(c) ==
  /\ pc[c] < Len(Script[c])
  /\ LET req == Script[c][pc[c] + 1]
         cur == IF "shared_state" \in Deviations THEN shared.state ELSE st[c]
         r   == PStep(cur, req)
         who == IF "stale_address" \in Deviations /\ shared.lastAddr # <<>> THEN shared.lastAddr[1] ELSE c
     IN /\ st' = [st EXCEPT ![c] = r.st]
        /\ shared' = [state |-> r.st, lastAddr |-> <<c>>]
        /\ outs' = [outs EXCEPT ![c] = Append(@, [out |-> r.out, addr |-> who])]
  /\ pc' = [pc EXCEPT ![c] = @ + 1]
  /\ order' = Append(order, c)

Next == \E c \in Conns : Step(c)
Spec == Init /\ [][Next]_vars

\* ---- the property --------------------------------------------------------------------
\* what c observes when it runs alone on a fresh service
RECURSIVE SoloFrom(_, _, _)
SoloFrom(c, s, k) ==
  IF k > Len(Script[c]) THEN <<>>
  ELSE LET r == PStep(s, Script[c][k]) IN <<[out |-> r.out, addr |-> c]>> \o SoloFrom(c, r.st, k + 1)
Solo(c) == SoloFrom(c, PInit, 1)

NonInterference == \A c \in Conns : outs[c] = SubSeq(Solo(c), 1, pc[c])
=============================================================================
