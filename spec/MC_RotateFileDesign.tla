------------------------ MODULE MC_RotateFileDesign ------------------------
(* C07 design check: RotateFile on small constants; strict (Devs = {}) must satisfy every
   property, each deviation must violate the property it is named after.             *)
EXTENDS Integers, Sequences, FiniteSets, TLC
CONSTANTS Devs, DLines
VARIABLES pending, active, rotated, taken, removed, damaged, clock, nextId, serial
INSTANCE RotateFile WITH MaxSize <- 1024, Lens <- {20, 512, 513, 1024, 1025}, MaxLines <- DLines, Deviations <- Devs
=============================================================================
