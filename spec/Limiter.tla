----------------------------- MODULE Limiter -----------------------------
(* Rate limiting of the UDP services (services/limiter.go and its call sites in
   tftp.go, memcached.go, snmp/snmp.go, counterstrike.go).

   Every service object owns one Limiter; a Limiter keeps one token bucket per source
   IP ADDRESS (not per ip:port).  A bucket holds at most Burst tokens and gains one
   token per Interval.  Time and tokens are counted in 1/Q of an Interval / of a token
   so that "a window shorter than the interval" is expressible.

   A datagram is handled by a fixed straight-line program, given per service and
   request kind by Steps[s][k], a sequence over
       "E"  emit an event            (no token needed)
       "A"  the Allow() gate         (takes one token, or abandons the datagram)
       "R"  send one response datagram
   which is exactly the shape of the four Handle functions (e.g. snmp get-request is
   <<"E","A","R">>, a tftp read request <<"A","E","R">>, a memcached datagram holding
   two commands <<"E","A","R","E","A","R">>).                                          *)
EXTENDS Integers, Sequences, FiniteSets, TLC

CONSTANTS Svcs,        \* rate limited services
          IPs,         \* source addresses
          Ports,       \* source ports (must be irrelevant)
          Burst,       \* bucket size (4 in the code)
          Q,           \* sub-units per Interval / per token
          Steps,       \* Steps[s] : [kind -> Seq({"E","A","R"})]
          MaxT,        \* bound on the clock for TLC
          Deviations   \* model regressions: "racy_first_use" - a request that finds a FULL bucket (possibly the
                       \* source's very first: the server handles every datagram in its own goroutine) pays from a
                       \* private bucket of its own instead of the source's one (check-then-act on the bucket table)

VARIABLES tokens,      \* tokens[s][i] in 0..Burst*Q   (sub-units)
          now,         \* clock in sub-units of Interval
          replies,     \* recent history: replies[s][i] = send times of the response datagrams
                       \* sent to i by s less than an Interval ago (older ones cannot share
                       \* a window with future ones)
          last         \* [s, i, ev, rep]: outcome of the latest request (observable)

vars == <<tokens, now, replies, last>>

KindsOf(s) == DOMAIN Steps[s]

\* Run the straight-line program `prog` with `tok` sub-unit tokens.
\* Result: [tok, ev, rep].
RECURSIVE Exec(_, _, _, _)
Exec(prog, tok, ev, rep) ==
  IF prog = <<>> THEN [tok |-> tok, ev |-> ev, rep |-> rep]
  ELSE LET h == Head(prog) t == Tail(prog) IN
       CASE h = "E" -> Exec(t, tok, ev + 1, rep)
         [] h = "R" -> Exec(t, tok, ev, rep + 1)
         [] h = "A" -> IF tok >= Q THEN Exec(t, tok - Q, ev, rep)
                                   ELSE [tok |-> tok, ev |-> ev, rep |-> rep]

Init == /\ tokens = [s \in Svcs |-> [i \in IPs |-> Burst * Q]]
        /\ now = 0
        /\ replies = [s \in Svcs |-> [i \in IPs |-> <<>>]]
        /\ last = [s |-> "", i |-> "", ev |-> 0, rep |-> 0]

RECURSIVE Rep(_, _)
Rep(x, n) == IF n = 0 THEN <<>> ELSE <<x>> \o Rep(x, n - 1)

Request(s, i, p, k) ==
  LET r == Exec(Steps[s][k], tokens[s][i], 0, 0) IN
  /\ tokens' = IF "racy_first_use" \in Deviations /\ tokens[s][i] = Burst * Q THEN tokens ELSE [tokens EXCEPT ![s][i] = r.tok]
  /\ replies' = [replies EXCEPT ![s][i] = @ \o Rep(now, r.rep)]
  /\ last' = [s |-> s, i |-> i, ev |-> r.ev, rep |-> r.rep]
  /\ UNCHANGED now

Min(a, b) == IF a < b THEN a ELSE b

Advance(d) ==
  /\ now + d <= MaxT
  /\ now' = now + d
  /\ tokens' = [s \in Svcs |-> [i \in IPs |-> Min(Burst * Q, tokens[s][i] + d)]]
  /\ replies' = [s \in Svcs |-> [i \in IPs |-> SelectSeq(replies[s][i], LAMBDA t : now' - t < Q)]]
  /\ UNCHANGED last

Next == \/ \E s \in Svcs, i \in IPs, p \in Ports : \E k \in KindsOf(s) : Request(s, i, p, k)
        \/ \E d \in 1..Q : Advance(d)

Spec == Init /\ [][Next]_vars

-----------------------------------------------------------------------------
TypeOK == /\ \A s \in Svcs, i \in IPs : tokens[s][i] \in 0..(Burst * Q)
          /\ now \in 0..MaxT

\* C10: in any window shorter than the interval, one source gets at most Burst replies
\* from one service.
AtMostBurstPerWindow ==
  \A s \in Svcs, i \in IPs :
    LET r == replies[s][i] IN
    \A a \in 1..Len(r) : Cardinality({ b \in a..Len(r) : r[b] - r[a] < Q }) <= Burst

\* C10: a request changes nobody else's allowance.
SourcesIndependent ==
  [][\A s \in Svcs, i \in IPs :
        tokens'[s][i] < tokens[s][i] => (last'.s = s /\ last'.i = i)]_vars

\* a reply is only ever sent against a token
RepliesPaidFor ==
  [][\A s \in Svcs, i \in IPs :
       (now' = now /\ Len(replies'[s][i]) > Len(replies[s][i])) =>
          Len(replies'[s][i]) - Len(replies[s][i]) <= (tokens[s][i] - tokens'[s][i]) \div Q]_vars
=============================================================================
