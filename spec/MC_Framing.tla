----------------------------- MODULE MC_Framing -----------------------------
(* C04: all segmentations of abstract request streams (design check) and the cut sets the
   harness applies to real protocol streams (generation).                              *)
EXTENDS Integers, Sequences, FiniteSets, TLC, Json
CONSTANTS Devs, ShapeId
VARIABLES wire, buf, events, cuts

Shapes == << << [h |-> 2, b |-> 0], [h |-> 2, b |-> 0], [h |-> 2, b |-> 0] >>,      \* three plain requests
             << [h |-> 2, b |-> 0], [h |-> 2, b |-> 2], [h |-> 2, b |-> 0] >>,      \* a body-bearing one in the middle
             << [h |-> 2, b |-> 2], [h |-> 2, b |-> 2] >> >>                         \* two body-bearing ones
F == INSTANCE Framing WITH Shape <- Shapes[ShapeId], Deviations <- Devs

Emit == /\ F!Quiescent
        /\ PrintT(<<"SCN", ToJson([shape |-> Shapes[ShapeId], cuts |-> cuts])>>)
        /\ UNCHANGED <<wire, buf, events, cuts>>
Next == F!Next \/ Emit
Spec == F!Init /\ [][Next]_<<wire, buf, events, cuts>>
Inv == F!SegmentationIndependence /\ F!PrefixAlways
=============================================================================
