----------------------------- MODULE AgentMux -----------------------------
(* The agent tunnel: listener/agent/agent.go (session loop of serv), connection.go
   (agentConnection), connections.go, conn2.go / messages.go (TLV framing and codec).

   An agent session multiplexes virtual connections identified by their (local, remote)
   address pair.  Agent -> server messages:  Hello(k) announces k, Data(k, chunk) carries
   bytes of k, Eof(k) ends k, Disconnect ends the session.  The service attached to k reads
   what was delivered and may write; here the service is an echo: every byte it reads it
   writes back, and when its connection ends it closes.  Chunks are [k, n] with n a unique
   serial number per connection, so that order and multiplicity are visible.
   Deviations (the code as found):
     "stale_entry_shadows"  a connection closed by the service stays in the table; a new
                            Hello for the same address pair is shadowed by it: its data is dropped *)
EXTENDS Integers, Sequences, FiniteSets, TLC

CONSTANTS Keys, Deviations

VARIABLES table,      \* sequence of [k, gen, open] entries in announcement order (lookup = first match)
          gen,        \* gen[k] = how often k has been announced
          delivered,  \* delivered[k] = chunks the service of the CURRENT generation of k has read
          echoed,     \* echoed[k] = chunks written back to the agent tagged with k (all generations)
          ended       \* set of <<k, generation>> whose service saw end of stream
vars == <<table, gen, delivered, echoed, ended>>

Init == /\ table = <<>> /\ gen = [k \in Keys |-> 0]
        /\ delivered = [k \in Keys |-> <<>>] /\ echoed = [k \in Keys |-> <<>>] /\ ended = {}

Lookup(k) == LET idx == { i \in 1..Len(table) : table[i].k = k } IN
             IF idx = {} THEN 0 ELSE CHOOSE i \in idx : \A j \in idx : i <= j

Hello(k) ==
  /\ gen' = [gen EXCEPT ![k] = @ + 1]
  /\ table' = IF "stale_entry_shadows" \in Deviations
                THEN Append(table, [k |-> k, gen |-> gen[k] + 1, open |-> TRUE])
                ELSE Append(SelectSeq(table, LAMBDA e : e.k # k), [k |-> k, gen |-> gen[k] + 1, open |-> TRUE])
  /\ delivered' = [delivered EXCEPT ![k] = <<>>]
  /\ UNCHANGED <<echoed, ended>>

Data(k, chunk) ==
  /\ LET i == Lookup(k) IN
     IF i # 0 /\ table[i].open /\ table[i].gen = gen[k]
       THEN /\ delivered' = [delivered EXCEPT ![k] = Append(@, chunk)]
            /\ echoed' = [echoed EXCEPT ![k] = Append(@, chunk)]       \* the echo service answers
       ELSE UNCHANGED <<delivered, echoed>>                             \* unknown or closed: dropped
  /\ UNCHANGED <<table, gen, ended>>

Eof(k) ==
  /\ LET i == Lookup(k) IN
     IF i # 0
       THEN /\ table' = SelectSeq(table, LAMBDA e : ~(e.k = k /\ e.gen = table[i].gen))
            /\ ended' = ended \cup {<<k, table[i].gen>>}
       ELSE UNCHANGED <<table, ended>>
  /\ UNCHANGED <<gen, delivered, echoed>>

\* the service closes its side (the echo service does so after it saw the end of its stream; a real
\* service may do it any time): the entry stays until the agent's EOF arrives
SvcClose(k) ==
  /\ LET i == Lookup(k) IN
     /\ i # 0 /\ table[i].open
     /\ table' = [table EXCEPT ![i].open = FALSE]
  /\ UNCHANGED <<gen, delivered, echoed, ended>>

Disconnect ==
  /\ ended' = ended \cup { <<table[i].k, table[i].gen>> : i \in { j \in 1..Len(table) : "teardown_skips" \notin Deviations \/ j % 2 = 1 } }
  /\ table' = <<>>
  /\ UNCHANGED <<gen, delivered, echoed>>

\* ---- properties -------------------------------------------------------------------
\* (checked against the history of what the agent sent, kept by the MC module)
=============================================================================
