SPECIFICATION Spec
CONSTANT Devs = {}
CONSTANT ShapeId = 2
INVARIANT Inv
CHECK_DEADLOCK FALSE
