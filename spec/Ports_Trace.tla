---------------------------- MODULE Ports_Trace ----------------------------
(* Trace validation of the exported parser (server.ToAddr) over the flat space of all
   port numbers: each recorded call must agree with Ports!WellFormed / Ports!Addr.   *)
EXTENDS Integers, Sequences, TLC, Json
VARIABLE l
Trace == ndJsonDeserialize("trace.ndjson")
P == INSTANCE Ports WITH Defined <- {}

PSOf(e) == [text |-> e.text, slashes |-> 1, proto |-> e.mproto, host |-> e.mhost, hasPort |-> TRUE, num |-> e.mnum]

Init == l = 1 /\ TLCSet(1, 1)
Step == /\ l <= Len(Trace) /\ l' = l + 1
        /\ LET e == Trace[l] ps == PSOf(e) IN
           /\ e.ok = P!WellFormed(ps)
           /\ e.ok => (e.proto = P!Addr(ps).proto /\ e.ip = P!Addr(ps).ip /\ e.port = P!Addr(ps).port
                       /\ e.proto2 = e.proto /\ e.port2 = e.port)
Spec == Init /\ [][Step]_l
HighWater == TLCSet(1, IF TLCGet(1) < l THEN l ELSE TLCGet(1))
Accepted == TLCGet(1) = Len(Trace) + 1 \/ (PrintT(<<"REJECTED_AT", TLCGet(1)>>) /\ FALSE)
=============================================================================
