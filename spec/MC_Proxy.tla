------------------------------ MODULE MC_Proxy ------------------------------
(* C15: exchanges for the proxies.  The generator draws an exchange (kind, request units,
   reply sizes, cut points, pipelined or lock-step); Proxy.tla is checked on it.            *)
EXTENDS Integers, Sequences, FiniteSets, TLC, Json
CONSTANTS Devs, NEx
VARIABLES Requests, Replies, halfclose, sent, atBackend, answered, atClient, dialled, shut, ErrOut, errWritten, errAtClient, ex, printed

Methods == {"GET", "POST", "PUT", "DELETE", "OPTIONS", "HEAD"}    \* (the reply to a HEAD announces a length and has no body)
Targets == {"/", "/a/b?x=1&y=2", "/%7Euser", "*"}
HeaderSets == { <<>>, << <<"X-A", "1">> >>, << <<"X-A", "1">>, <<"X-A", "2">> >>, << <<"User-Agent", "verif/1">>, <<"Accept", "*/*">> >>,
                << <<"Cookie", "a=b; c=d">>, <<"X-Long", "v">> >> }
Bodies == {0, 1, 5, 1000, 65536}
RECURSIVE RandReqs(_, _)
RandReqs(n, salt) == IF n = 0 THEN <<>> ELSE
  LET m == RandomElement(Methods) hs == RandomElement(HeaderSets)
      b == IF m \in {"POST", "PUT"} THEN RandomElement(Bodies) ELSE 0 IN
  << [kind |-> "http", method |-> m, target |-> IF m = "OPTIONS" THEN RandomElement({"*", "/"}) ELSE RandomElement(Targets \ {"*"}),
      headers |-> hs, hasUA |-> \E i \in 1..Len(hs) : hs[i][1] = "User-Agent", body |-> b,
      chunked |-> (b > 0 /\ RandomElement(BOOLEAN)), extraHeader |-> FALSE] >> \o RandReqs(n - 1, salt)
\* ssh: 0..2 rejected passwords, then (mostly) the accepted one, then channel requests and channel data
Unit(m, t, b) == [kind |-> "ssh", method |-> m, target |-> t, headers |-> <<>>, hasUA |-> TRUE, body |-> b, chunked |-> FALSE, extraHeader |-> FALSE]
SshUnits(salt) ==
  LET ok == RandomElement({TRUE, TRUE, TRUE, FALSE})
      nbad == IF ok THEN RandomElement(0..2) ELSE RandomElement(1..2)
      bad == [i \in 1..nbad |-> Unit("auth-bad", RandomElement({"root", "123456", "pa ss"}), 0)]
      pre == RandomElement({ <<>>, <<Unit("env", "A", 0)>>, <<Unit("pty-req", "", 0)>>, <<Unit("env", "B", 0), Unit("pty-req", "", 0)>> })
      run == RandomElement({ <<Unit("shell", "", 0)>>, <<Unit("exec", "id", 0)>> })
      data == <<Unit("data", "", RandomElement({0, 1, 1000, 65536}))>>
  IN IF ok THEN bad \o <<Unit("auth-ok", "", 0)>> \o pre \o run \o data ELSE bad
RandomExchange(salt) ==
  LET kind == RandomElement({"http", "http", "http", "copy", "copy", "dns", "ssh", "ssh"})
      n == RandomElement(1..3) IN
  IF kind = "ssh"
    THEN LET u == SshUnits(salt) IN
         [kind |-> "ssh", reqs |-> u, replies |-> [i \in 1..Len(u) |-> IF i = Len(u) /\ u[i].method = "data" THEN RandomElement({0, 1, 700, 65536}) ELSE 0],
          pipelined |-> FALSE, cut |-> 0, replycut |-> 0, clients |-> RandomElement(1..3), halfclose |-> FALSE, portless |-> 0,
          \* what the command writes to its standard error (sizes of the pieces)
          stderr |-> IF u[Len(u)].method = "data" THEN RandomElement({ <<>>, <<>>, <<1>>, <<700>>, <<40000>>, <<5, 5000>> }) ELSE <<>>]
  ELSE IF kind = "http"
    THEN [kind |-> "http", reqs |-> RandReqs(n, salt), replies |-> [i \in 1..n |-> RandomElement({0, 1, 700, 65536})],
          pipelined |-> RandomElement(BOOLEAN), cut |-> RandomElement(0..200), replycut |-> RandomElement(0..100), clients |-> RandomElement(1..3),
          halfclose |-> FALSE, portless |-> 0, stderr |-> <<>>]
    \* portless: the director names a host without a port, so the backend is that host at the port the client connected to;
    \* two proxies (1, 2) share such a director - every connection must reach the backend of ITS port
    ELSE [kind |-> kind, halfclose |-> (kind = "copy" /\ RandomElement(BOOLEAN)),
          portless |-> (IF kind = "copy" THEN RandomElement({0, 0, 1, 2}) ELSE 0), reqs |-> [i \in 1..n |-> [kind |-> kind, body |-> RandomElement({1, 12, 512, 1400} \cup (IF kind = "copy" THEN {65536} ELSE {})), hasUA |-> TRUE, extraHeader |-> FALSE]],
          replies |-> [i \in 1..n |-> RandomElement({1, 30, 900})], pipelined |-> FALSE, cut |-> RandomElement(0..50), replycut |-> 0, clients |-> RandomElement(1..3), stderr |-> <<>>]

P == INSTANCE Proxy WITH Backend <- "backend", Others <- {"decoy"}, Deviations <- Devs
\* NEx independently drawn exchanges are the initial states; -simulate starts every behaviour from one of them
Init == ex \in { RandomExchange(i) : i \in 1..NEx } /\ printed = FALSE /\ P!Init(ex.reqs, ex.replies, ex.halfclose, ex.stderr)
Show == /\ ~printed /\ printed' = TRUE /\ PrintT(<<"SCN", ToJson(ex)>>) /\ UNCHANGED <<Requests, Replies, halfclose, sent, atBackend, answered, atClient, dialled, shut, ErrOut, errWritten, errAtClient, ex>>
Next == Show \/ (P!Next /\ UNCHANGED <<ex, printed>>)
allvars == <<Requests, Replies, halfclose, sent, atBackend, answered, atClient, dialled, shut, ErrOut, errWritten, errAtClient, ex, printed>>
Spec == Init /\ [][Next]_allvars
\* liveness: under weak fairness of every step of the relay everything arrives - also after a half-close
LiveSpec == Init /\ [][Next]_allvars /\ WF_allvars(P!Next /\ UNCHANGED <<ex, printed>>)
Arrives == <>(Len(atBackend) = Len(Requests) /\ Len(atClient) = Len(Requests) /\ Len(errAtClient) = Len(ErrOut))
Inv == P!BackendSawExactlyClientSent /\ P!ClientSawExactlyBackendSent /\ P!ClientSawExactlyBackendErr /\ P!OnlyBackendDialled
=============================================================================
