------------------------------ MODULE MC_Proxy ------------------------------
(* C15: exchanges for the proxies.  The generator draws an exchange (kind, request units,
   reply sizes, cut points, pipelined or lock-step); Proxy.tla is checked on it.            *)
EXTENDS Integers, Sequences, FiniteSets, TLC, Json
CONSTANTS Devs, NEx
VARIABLES Requests, Replies, sent, atBackend, answered, atClient, dialled, ex, printed

Methods == {"GET", "POST", "PUT", "DELETE", "OPTIONS"}
Targets == {"/", "/a/b?x=1&y=2", "/%7Euser", "*"}
HeaderSets == { <<>>, << <<"X-A", "1">> >>, << <<"X-A", "1">>, <<"X-A", "2">> >>, << <<"User-Agent", "verif/1">>, <<"Accept", "*/*">> >>,
                << <<"Cookie", "a=b; c=d">>, <<"X-Long", "v">> >> }
Bodies == {0, 1, 5, 1000, 65536}
RECURSIVE RandReqs(_, _)
RandReqs(n, salt) == IF n = 0 THEN <<>> ELSE
  LET m == RandomElement(Methods) hs == RandomElement(HeaderSets)
      b == IF m \in {"POST", "PUT"} THEN RandomElement(Bodies) ELSE 0 IN
  << [kind |-> "http", method |-> m, target |-> IF m = "OPTIONS" THEN RandomElement({"*", "/"}) ELSE RandomElement(Targets \ {"*"}),
      headers |-> hs, hasUA |-> \E i \in 1..Len(hs) : hs[i][1] = "User-Agent", body |-> b,
      chunked |-> (b > 0 /\ RandomElement(BOOLEAN)), extraHeader |-> FALSE] >> \o RandReqs(n - 1, salt)
RandomExchange(salt) ==
  LET kind == RandomElement({"http", "http", "http", "copy", "dns"})
      n == RandomElement(1..3) IN
  IF kind = "http"
    THEN [kind |-> "http", reqs |-> RandReqs(n, salt), replies |-> [i \in 1..n |-> RandomElement({0, 1, 700, 65536})],
          pipelined |-> RandomElement(BOOLEAN), cut |-> RandomElement(0..200), replycut |-> RandomElement(0..100), clients |-> RandomElement(1..3)]
    ELSE [kind |-> kind, reqs |-> [i \in 1..n |-> [kind |-> kind, body |-> RandomElement({1, 12, 512, 1400} \cup (IF kind = "copy" THEN {65536} ELSE {})), hasUA |-> TRUE, extraHeader |-> FALSE]],
          replies |-> [i \in 1..n |-> RandomElement({1, 30, 900})], pipelined |-> FALSE, cut |-> RandomElement(0..50), replycut |-> 0, clients |-> RandomElement(1..3)]

P == INSTANCE Proxy WITH Backend <- "backend", Others <- {"decoy"}, Deviations <- Devs
\* NEx independently drawn exchanges are the initial states; -simulate starts every behaviour from one of them
Init == ex \in { RandomExchange(i) : i \in 1..NEx } /\ printed = FALSE /\ P!Init(ex.reqs, ex.replies)
Show == /\ ~printed /\ printed' = TRUE /\ PrintT(<<"SCN", ToJson(ex)>>) /\ UNCHANGED <<Requests, Replies, sent, atBackend, answered, atClient, dialled, ex>>
Next == Show \/ (P!Next /\ UNCHANGED <<ex, printed>>)
Spec == Init /\ [][Next]_<<Requests, Replies, sent, atBackend, answered, atClient, dialled, ex, printed>>
Inv == P!BackendSawExactlyClientSent /\ P!ClientSawExactlyBackendSent /\ P!OnlyBackendDialled
=============================================================================
