SPECIFICATION Spec
CONSTANT Sim = FALSE
CONSTANT MaxLen = 2
CONSTANT Devs = {}
INVARIANT Inv
VIEW View
CHECK_DEADLOCK FALSE
