----------------------------- MODULE AgentCodec -----------------------------
(* The agent protocol's message codec (listener/agent/messages.go, encoder.go, decoder.go):
   a message is a record; Enc lays its fields out as a sequence of length-prefixed items,
   Dec reads them back.  Every message decodes to what was encoded (C16).               *)
EXTENDS Integers, Sequences, TLC

\* an address is [net, ip, port]; a payload is represented by its length (content is compared by the harness)
EncAddr(a) == << IF a.net = "tcp" THEN 6 ELSE 17, a.ip, a.port >>
DecAddr(s) == [net |-> IF s[1] = 6 THEN "tcp" ELSE "udp", ip |-> s[2], port |-> s[3]]

Enc(m) == CASE m.t \in {"hello", "eof"} -> EncAddr(m.l) \o EncAddr(m.r)
            [] m.t \in {"tcp", "udp"}   -> EncAddr(m.l) \o EncAddr(m.r) \o <<m.len>>
            [] OTHER -> EncAddr(m.l) \o <<m.len, m.fields>>
Dec(t, s) == CASE t \in {"hello", "eof"} -> [t |-> t, l |-> DecAddr(SubSeq(s, 1, 3)), r |-> DecAddr(SubSeq(s, 4, 6)), len |-> 0, fields |-> 0]
               [] t \in {"tcp", "udp"}   -> [t |-> t, l |-> DecAddr(SubSeq(s, 1, 3)), r |-> DecAddr(SubSeq(s, 4, 6)), len |-> s[7], fields |-> 0]
               [] OTHER -> [t |-> t, l |-> DecAddr(SubSeq(s, 1, 3)), r |-> [net |-> "tcp", ip |-> "", port |-> 0], len |-> s[4], fields |-> s[5]]
RoundTrip(m) == Dec(m.t, Enc(m)) = m
=============================================================================
