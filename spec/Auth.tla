------------------------------- MODULE Auth -------------------------------
(* Authentication of the ssh simulator (services/ssh/ssh-simulator.go PasswordCallback),
   LDAP (services/ldap/bind.go, ldap.go bindFunc, catchall.go) and FTP
   (services/ftp/auth.go, cmd.go USER/PASS, conn.go RequireAuth gate).

   creds     set of <<user, password>> pairs the service is configured with
   wildcard  the configuration contains the entry that accepts everything (ssh: "*")
   Anon      the service accepts the anonymous bind <<"", "">> WITHOUT treating the
             connection as logged in (LDAP); FALSE for the other services
   One connection: an attempt succeeds iff its pair is configured (or the wildcard is);
   nothing about earlier attempts matters; gated operations are refused until some
   attempt with a non-anonymous name succeeded on this connection.                    *)
EXTENDS Integers, Sequences, FiniteSets, TLC

CONSTANTS Users, Passwords, Anon

VARIABLES creds, wildcard, loggedIn, events, last
vars == <<creds, wildcard, loggedIn, events, last>>

Init(cs, w) == /\ creds = cs /\ wildcard = w /\ loggedIn = FALSE /\ events = <<>>
               /\ last = [a |-> "none", ok |-> FALSE]

Accepts(u, p) == wildcard \/ <<u, p>> \in creds \/ (Anon /\ u = "" /\ p = "")

Attempt(u, p) ==
  /\ last' = [a |-> "attempt", ok |-> Accepts(u, p)]
  /\ events' = Append(events, [user |-> u, password |-> p])     \* every attempt is recorded as presented
  /\ loggedIn' = IF Anon /\ u = "" /\ p = "" THEN FALSE      \* an anonymous bind returns to the anonymous state
                 ELSE (loggedIn \/ (Accepts(u, p) /\ ~(Anon /\ u = "")))
  /\ UNCHANGED <<creds, wildcard>>

\* an operation that requires authentication
Gated == /\ last' = [a |-> "gated", ok |-> loggedIn]
         /\ UNCHANGED <<creds, wildcard, loggedIn, events>>

\* a new connection to the same service: nothing is remembered
Reconnect == /\ loggedIn' = FALSE /\ last' = [a |-> "reconnect", ok |-> FALSE]
             /\ UNCHANGED <<creds, wildcard, events>>

Next == (\E u \in Users, p \in Passwords : Attempt(u, p)) \/ Gated \/ Reconnect

\* ---- properties -------------------------------------------------------------------
SuccessIffConfigured ==
  [][\A u \in Users, p \in Passwords :
       (last'.a = "attempt" /\ events' = Append(events, [user |-> u, password |-> p]))
          => (last'.ok <=> (wildcard \/ <<u, p>> \in creds \/ (Anon /\ u = "" /\ p = "")))]_vars
GateHolds == [][(last'.a = "gated" /\ last'.ok) =>
                 \E i \in 1..Len(events) : Accepts(events[i].user, events[i].password)]_vars
EveryAttemptLogged == [][last'.a = "attempt" => Len(events') = Len(events) + 1]_vars
=============================================================================
