SPECIFICATION Spec
CONSTANT Dev = "detectorless_after_peek_gets_raw_conn"
INVARIANT Inv
CHECK_DEADLOCK FALSE
