----------------------------- MODULE MC_Event -----------------------------
(* C05: every transition (store, option) of Event over a small alphabet is printed once
   and becomes one implementation test on the real event package.                    *)
EXTENDS Integers, Sequences, FiniteSets, TLC, Json
CONSTANT MaxKeys
VARIABLE kv
E == INSTANCE Event

Vals == { E!S("1"), E!S("2") }
Maps == { [x |-> E!S("m")], [x |-> E!S("m"), y |-> E!S("m")], [y |-> E!S("n")] }
     \cup { ("payload-length" :> E!S("m")) } \cup { ("source-ip" :> E!S("m")) @@ ("x" :> E!S("m2")) }
Addrs == { [net |-> n, ip |-> i, port |-> p] : n \in {"tcp", "udp", "other"}, i \in {"10.0.0.1", "::1"}, p \in {0, 65535} }
Bytes == { <<>>, <<0>>, <<255, 10>>, <<34, 92, 128>>, <<195, 40, 127, 97>> }

Opts == { [o |-> "custom", k |-> k, v |-> v] : k \in {"x", "payload-hex", "source-ip"}, v \in Vals }
   \cup { [o |-> "payload", b |-> b] : b \in Bytes }
   \cup { [o |-> "source", a |-> a] : a \in Addrs } \cup { [o |-> "destination", a |-> a] : a \in Addrs }
   \cup { [o |-> "merge", m |-> m] : m \in Maps } \cup { [o |-> "copy", m |-> m] : m \in Maps }

Apply(op) == CASE op.o = "custom" -> E!Custom(op.k, op.v)
               [] op.o = "payload" -> E!Payload(op.b)
               [] op.o = "source" -> E!SourceAddr(op.a)
               [] op.o = "destination" -> E!DestinationAddr(op.a)
               [] op.o = "merge" -> E!MergeFrom(op.m)
               [] op.o = "copy" -> E!CopyFrom(op.m)

Init == E!Init
Step == \E op \in Opts :
          /\ Apply(op)
          /\ Cardinality(DOMAIN kv') <= MaxKeys
          /\ PrintT(<<"SCN", ToJson([kv |-> kv, op |-> op, kv2 |-> kv'])>>)
Spec == Init /\ [][Step]_kv

Props == [][ /\ \A m \in Maps : E!MergeKeeps(m) /\ E!CopyOverwrites(m)
             /\ \A b \in Bytes : E!PayloadFidelity(b) ]_kv
=============================================================================
