SPECIFICATION Spec
CONSTANT Devs = {}
VIEW View
INVARIANT Inv
PROPERTY Prop
CHECK_DEADLOCK FALSE
