SPECIFICATION LiveSpec
CONSTANT Devs = {}
PROPERTY Arrives
CHECK_DEADLOCK FALSE
CONSTANT NEx = 40
