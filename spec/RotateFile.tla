---------------------------- MODULE RotateFile ----------------------------
(* The file channel: pushers/file/file.go (FileBackend: Send -> unbuffered request
   channel -> writer goroutine -> JSON lines collected in a buffer that is flushed when it
   exceeds 500 KiB or after 1 s without a new event) and pushers/file/rotatefile.go
   (Write: place the lines of a batch, rotating when the active file would exceed MaxSize).

   A line is [id, len] (len includes the newline).  Files are sequences of lines.
   The batching of the buffer is abstracted to "any prefix of the pending lines may be
   flushed at any time".  The intended placement rule: a line goes to the active file if it
   fits or the file is empty; otherwise the active file is rotated to a FRESH name first.
   Deviations (named behaviours of the code as found, used as model regressions):
     "split_drops_first_byte"   a line that does not fit the remainder loses its first byte
     "rename_same_second"       the rotated name has second resolution: a second rotation in
                                the same clock second overwrites the first rotated file
   Model regression only (never the code as found):
     "names_from_instance_memory" the rotated name is built from a counter the writer keeps in
                                memory instead of from what exists on disk: after Reopen (the
                                channel is closed and opened again on the same path, e.g. a
                                restart) the counter starts again and an earlier rotated file
                                of the same clock second is overwritten                      *)
EXTENDS Integers, Sequences, FiniteSets, TLC

CONSTANTS MaxSize, Lens, MaxLines, Deviations

VARIABLES pending,   \* lines accepted by Send, not yet written
          active,    \* lines of the active file
          rotated,   \* sequence of [name, lines]: rotated files, oldest first
          taken,     \* lines in files an operator renamed away (still exist, outside our naming)
          removed,   \* ids of lines in files an operator deleted
          damaged,   \* ids of lines written corrupted (only with deviations)
          clock, nextId, serial
vars == <<pending, active, rotated, taken, removed, damaged, clock, nextId, serial>>

Size(lines) == LET RECURSIVE S(_) S(l) == IF l = <<>> THEN 0 ELSE Head(l).len + S(Tail(l)) IN S(lines)

Init == /\ pending = <<>> /\ active = <<>> /\ rotated = <<>> /\ taken = <<>> /\ removed = {} /\ damaged = {}
        /\ clock = 0 /\ nextId = 1 /\ serial = 0

Send(n) == /\ nextId <= MaxLines
           /\ pending' = Append(pending, [id |-> nextId, len |-> n])
           /\ nextId' = nextId + 1
           /\ UNCHANGED <<active, rotated, taken, removed, damaged, clock, serial>>

\* rotate: the active file gets a name that is free ON DISK (strict), the clock's name, or one built
\* from the writer's own counter (deviations)
FirstFree(rot) == CHOOSE s \in 0..Len(rot) :
                    /\ ~\E i \in 1..Len(rot) : rot[i].name = <<"t", clock, s>>
                    /\ \A r \in 0..(s - 1) : \E i \in 1..Len(rot) : rot[i].name = <<"t", clock, r>>
RotName(rot, s) == IF "rename_same_second" \in Deviations THEN <<"t", clock>>
                   ELSE IF "names_from_instance_memory" \in Deviations THEN <<"t", clock, s>>
                   ELSE <<"t", clock, FirstFree(rot)>>
Rotate(act, rot, s) ==
  LET nm == RotName(rot, s)
      keep == SelectSeq(rot, LAMBDA f : f.name # nm)        \* same name: overwritten
  IN Append(keep, [name |-> nm, lines |-> act])

\* place a batch line by line; state threaded as [act, rot, ser, dmg]
RECURSIVE Place(_, _)
Place(lines, st) ==
  IF lines = <<>> THEN st
  ELSE LET ln == Head(lines) IN
       IF st.act = <<>> \/ Size(st.act) + ln.len <= MaxSize
         THEN Place(Tail(lines), [st EXCEPT !.act = Append(st.act, ln)])
         ELSE Place(Tail(lines),
                    [act |-> <<ln>>, rot |-> Rotate(st.act, st.rot, st.ser), ser |-> st.ser + 1,
                     dmg |-> IF "split_drops_first_byte" \in Deviations THEN st.dmg \cup {ln.id} ELSE st.dmg])

Flush(k) == /\ k >= 1 /\ k <= Len(pending)
            /\ LET st == Place(SubSeq(pending, 1, k), [act |-> active, rot |-> rotated, ser |-> serial, dmg |-> damaged]) IN
               /\ active' = st.act /\ rotated' = st.rot /\ serial' = st.ser /\ damaged' = st.dmg
            /\ pending' = SubSeq(pending, k + 1, Len(pending))
            /\ UNCHANGED <<taken, removed, clock, nextId>>

\* the channel is closed and opened again on the same path (restart, re-created channel): what the
\* writer kept in memory is gone; a file already at its maximum is rotated on open
Reopen == /\ pending = <<>>
          /\ IF Size(active) >= MaxSize
               THEN rotated' = Rotate(active, rotated, 0) /\ active' = <<>> /\ serial' = 1
               ELSE UNCHANGED <<rotated, active>> /\ serial' = 0
          /\ UNCHANGED <<pending, taken, removed, damaged, clock, nextId>>

Tick == clock' = clock + 1 /\ clock < 2 /\ UNCHANGED <<pending, active, rotated, taken, removed, damaged, nextId, serial>>

\* an operator deletes / renames the active log file between writes; the next write recreates it
ExtRemove == /\ active # <<>>
             /\ removed' = removed \cup { active[i].id : i \in 1..Len(active) }
             /\ active' = <<>>
             /\ UNCHANGED <<pending, rotated, taken, damaged, clock, nextId, serial>>
ExtRename == /\ active # <<>>
             /\ taken' = taken \o active
             /\ active' = <<>>
             /\ UNCHANGED <<pending, rotated, removed, damaged, clock, nextId, serial>>

Next == \/ \E n \in Lens : Send(n)
        \/ \E k \in 1..3 : Flush(k)
        \/ Tick \/ ExtRemove \/ ExtRename \/ Reopen
Spec == Init /\ [][Next]_vars /\ WF_vars(\E k \in 1..3 : Flush(k))

\* ---- properties ---------------------------------------------------------------------
OnDisk == LET RECURSIVE Cat(_) Cat(fs) == IF fs = <<>> THEN <<>> ELSE Head(fs).lines \o Cat(Tail(fs))
          IN Cat(rotated) \o active \o taken
Ids(seq) == { seq[i].id : i \in 1..Len(seq) }
\* every accepted line is pending, deleted by the operator, or on disk exactly once and intact
AllKept ==
  /\ \A id \in 1..(nextId - 1) :
       Cardinality({ i \in 1..Len(OnDisk) : OnDisk[i].id = id })
         + (IF id \in Ids(pending) THEN 1 ELSE 0) + (IF id \in removed THEN 1 ELSE 0) = 1
  /\ damaged = {}
\* a file larger than MaxSize consists of a single line
SizeOK == /\ (Size(active) > MaxSize => Len(active) = 1)
          /\ \A i \in 1..Len(rotated) : Size(rotated[i].lines) > MaxSize => Len(rotated[i].lines) = 1
\* rotated files are never overwritten: names distinct, and (action property) never lose lines
NamesDistinct == \A i, j \in 1..Len(rotated) : i # j => rotated[i].name # rotated[j].name
NoOverwrite == [][\A i \in 1..Len(rotated) : \E j \in 1..Len(rotated') : rotated'[j] = rotated[i]]_vars
\* sending never blocks forever: what was accepted is eventually written
EventuallyFlushed == (pending # <<>>) ~> (pending = <<>>)
=============================================================================
