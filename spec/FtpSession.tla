----------------------------- MODULE FtpSession -----------------------------
(* C11, level 2: command sequences of one logged-in FTP session on the service's sandboxed
   filesystem (services/ftp/cmd.go command handlers -> services/ftp/ftpfs.go driver ->
   services/filesystem/htfs.go RealPath).

   The tree below the root is dirs (set of locations) and files (location -> content, a
   sequence of chunk ids: STOR replaces, APPE+STOR appends).  Every path argument is resolved
   lexically against the session's working directory (FtpPath!Resolve); `touched` collects
   every location a command reads, lists, creates, renames or deletes.  The working directory
   is kept as a string by the code: it may dangle after its directory was removed or renamed.

   One action per command handler; RNFR only remembers its argument, RNTO resolves both
   names at the time it runs; APPE only sets a flag consumed by the next STOR.
   Model regression only: "dotdot_not_clamped" - ".." at the root is kept as a component.  *)
EXTENDS Integers, Sequences, FiniteSets, TLC, FtpPath

CONSTANTS InitDirs, InitFiles, Deviations

VARIABLES dirs, files, cwd, renameFrom, appendNext, touched, last
vars == <<dirs, files, cwd, renameFrom, appendNext, touched, last>>

NoPath == [abs |-> FALSE, comps |-> <<>>]

RECURSIVE WalkRaw(_, _)
WalkRaw(at, comps) == IF comps = <<>> THEN at
                      ELSE LET c == Head(comps) IN
                           WalkRaw(CASE c \in {"", "."} -> at
                                     [] c = ".." /\ at # <<>> /\ at[Len(at)] # ".." -> SubSeq(at, 1, Len(at) - 1)
                                     [] OTHER -> Append(at, c), Tail(comps))
Res(p) == IF "dotdot_not_clamped" \in Deviations THEN WalkRaw(IF p.abs THEN <<>> ELSE cwd, p.comps)
          ELSE Resolve(cwd, p)

Exists(t) == t \in dirs \/ t \in DOMAIN files
Children(t) == { u \in dirs \cup DOMAIN files : u # <<>> /\ Parent(u) = t }
ParentOK(t) == t # <<>> /\ Parent(t) \in dirs
Names(S) == { u[Len(u)] : u \in S }
Without(f, t) == [u \in DOMAIN f \ {t} |-> f[u]]
With(f, t, c) == [u \in DOMAIN f \cup {t} |-> IF u = t THEN c ELSE f[u]]

Init == /\ dirs = InitDirs /\ files = InitFiles /\ cwd = <<>>
        /\ renameFrom = NoPath /\ appendNext = FALSE /\ touched = {}
        /\ last = [cmd |-> "init", ok |-> TRUE, loc |-> <<>>, names |-> {}, content |-> <<>>]

Result(c, ok, loc) == [cmd |-> c, ok |-> ok, loc |-> loc, names |-> {}, content |-> <<>>]

Cwd(p) == LET t == Res(p) IN
          /\ touched' = touched \cup {t}
          /\ cwd' = IF t \in dirs THEN t ELSE cwd
          /\ last' = Result("CWD", t \in dirs, t)
          /\ UNCHANGED <<dirs, files, renameFrom, appendNext>>
Cdup == Cwd([abs |-> FALSE, comps |-> <<"..">>])
Pwd == /\ last' = Result("PWD", TRUE, cwd) /\ UNCHANGED <<dirs, files, cwd, renameFrom, appendNext, touched>>

Mkd(p) == LET t == Res(p)  ok == ParentOK(t) /\ ~Exists(t) IN
          /\ touched' = touched \cup {t}
          /\ dirs' = IF ok THEN dirs \cup {t} ELSE dirs
          /\ last' = Result("MKD", ok, t)
          /\ UNCHANGED <<files, cwd, renameFrom, appendNext>>

Rmd(p) == LET t == Res(p)  ok == t \in dirs /\ t # <<>> /\ Children(t) = {} IN
          /\ touched' = touched \cup {t}
          /\ dirs' = IF ok THEN dirs \ {t} ELSE dirs
          /\ last' = Result("RMD", ok, t)
          /\ UNCHANGED <<files, cwd, renameFrom, appendNext>>

\* DELE is os.Remove: it also removes an empty directory
Dele(p) == LET t == Res(p)
               okf == t \in DOMAIN files
               okd == t \in dirs /\ t # <<>> /\ Children(t) = {} IN
           /\ touched' = touched \cup {t}
           /\ files' = IF okf THEN Without(files, t) ELSE files
           /\ dirs' = IF okd THEN dirs \ {t} ELSE dirs
           /\ last' = Result("DELE", okf \/ okd, t)
           /\ UNCHANGED <<cwd, renameFrom, appendNext>>

Rnfr(p) == /\ renameFrom' = p /\ last' = Result("RNFR", TRUE, <<>>)
           /\ UNCHANGED <<dirs, files, cwd, appendNext, touched>>

Move(u, from, to) == to \o SubSeq(u, Len(from) + 1, Len(u))
Rnto(q) ==
  LET from == Res(renameFrom)
      to == Res(q)
      \* os.Rename refuses every target that is an existing directory (also an empty one, also the source itself)
      ok == /\ Exists(from) /\ from # <<>> /\ ParentOK(to) /\ to \notin dirs
            /\ (from \in dirs => (~IsPrefixLoc(from, to) /\ to \notin DOMAIN files))
      under == { u \in dirs : IsPrefixLoc(from, u) }
      funder == { u \in DOMAIN files : IsPrefixLoc(from, u) }
  IN /\ touched' = touched \cup {from, to}
     /\ renameFrom' = NoPath
     /\ last' = Result("RNTO", ok, to)
     /\ IF ~ok \/ from = to THEN UNCHANGED <<dirs, files>>
        ELSE IF from \in dirs
          THEN /\ dirs' = (dirs \ under) \cup { Move(u, from, to) : u \in under }
               /\ files' = [v \in (DOMAIN files \ funder) \cup { Move(u, from, to) : u \in funder } |->
                              IF v \in DOMAIN files \ funder THEN files[v]
                              ELSE files[from \o SubSeq(v, Len(to) + 1, Len(v))]]
          ELSE /\ files' = With(Without(files, from), to, files[from])
               /\ dirs' = dirs
     /\ UNCHANGED <<cwd, appendNext>>

Appe == /\ appendNext' = TRUE /\ last' = Result("APPE", TRUE, <<>>)
        /\ UNCHANGED <<dirs, files, cwd, renameFrom, touched>>

Stor(p, c) == LET t == Res(p)  ok == ParentOK(t) /\ t \notin dirs IN
              /\ touched' = touched \cup {t}
              /\ files' = IF ok THEN With(files, t, IF appendNext /\ t \in DOMAIN files THEN Append(files[t], c) ELSE <<c>>)
                          ELSE files
              /\ appendNext' = FALSE
              /\ last' = Result("STOR", ok, t)
              /\ UNCHANGED <<dirs, cwd, renameFrom>>

Retr(p) == LET t == Res(p) IN
           /\ touched' = touched \cup {t}
           /\ last' = [cmd |-> "RETR", ok |-> t \in DOMAIN files, loc |-> t, names |-> {},
                       content |-> IF t \in DOMAIN files THEN files[t] ELSE <<>>]
           /\ UNCHANGED <<dirs, files, cwd, renameFrom, appendNext>>

List(c, p) == LET t == Res(p) IN
              /\ touched' = touched \cup {t}
              /\ last' = [cmd |-> c, ok |-> TRUE, loc |-> t, content |-> <<>>,
                          names |-> IF t \in dirs THEN Names(Children(t)) ELSE {}]
              /\ UNCHANGED <<dirs, files, cwd, renameFrom, appendNext>>

Stat(c, p) == LET t == Res(p) IN
              /\ touched' = touched \cup {t}
              /\ last' = Result(c, Exists(t), t)
              /\ UNCHANGED <<dirs, files, cwd, renameFrom, appendNext>>

\* ---- properties ----------------------------------------------------------------
Contained == \A t \in touched : Plain(t)
CwdInside == Plain(cwd)
TreeClosed == \A u \in dirs \cup DOMAIN files : u = <<>> \/ Parent(u) \in dirs
NoClash == dirs \cap DOMAIN files = {} /\ <<>> \in dirs
TreeInside == \A u \in dirs \cup DOMAIN files : Plain(u)
=============================================================================
