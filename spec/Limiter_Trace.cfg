SPECIFICATION TSpec
CONSTRAINT HighWater
INVARIANT TInv
POSTCONDITION Accepted
CHECK_DEADLOCK FALSE
