------------------------- MODULE MC_LimiterDesign -------------------------
(* Exhaustive design check of Limiter on small constants (with Advance).       *)
EXTENDS Integers, Sequences, FiniteSets, TLC
CONSTANTS DMaxT, Devs
VARIABLES tokens, now, replies, last
DSteps == [ a |-> [ ear |-> <<"E","A","R">>, aer |-> <<"A","E","R">>, multi |-> <<"E","A","R","E","A","R">>,
                    tok |-> <<"A">>, none |-> <<"E">> ],
            b |-> [ ear |-> <<"E","A","R">>, set |-> <<"E","A","E","R">> ] ]
INSTANCE Limiter WITH Svcs <- {"a", "b"}, IPs <- {"i1", "i2"}, Ports <- {1},
                      Burst <- 2, Q <- 2, Steps <- DSteps, MaxT <- DMaxT, Deviations <- Devs
=============================================================================
