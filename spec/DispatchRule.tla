---------------------------- MODULE DispatchRule ----------------------------
(* The declarative part of connection routing (server/honeytrap.go Run: the port table; findService: which
   service gets a connection), without variables, shared by Dispatch (one connection, operationally) and
   Honeytrap (the whole server).                                                                        *)
EXTENDS Integers, Sequences, FiniteSets

\* ---- configuration ---------------------------------------------------------
\* entry  == [proto, ip ("" = any), port, svcs : Seq([name, det])], det = <<>> means "no detector",
\* otherwise the detector accepts payloads that start with det.
Compatible(a, b) == /\ a.proto = b.proto /\ a.port = b.port
                    /\ (a.ip = "" \/ b.ip = "" \/ a.ip = b.ip)

\* the port table built by Run: entries in order, an entry without services is skipped,
\* an entry compatible with an already accepted one is ignored (first wins)
RECURSIVE Build(_, _)
Build(entries, acc) ==
  IF entries = <<>> THEN acc
  ELSE LET e == Head(entries) IN
       IF e.svcs = <<>> \/ \E k \in 1..Len(acc) : Compatible(acc[k], e)
         THEN Build(Tail(entries), acc)
         ELSE Build(Tail(entries), Append(acc, e))
Table(entries) == Build(entries, <<>>)

Candidates(table, c) ==
  LET m == { k \in 1..Len(table) : Compatible(table[k], c) } IN
  IF m = {} THEN <<>> ELSE table[CHOOSE k \in m : TRUE].svcs

IsPrefix(p, s) == Len(p) <= Len(s) /\ SubSeq(s, 1, Len(p)) = p
Accepts(svc, bytes) == svc.det # <<>> /\ IsPrefix(svc.det, bytes)

\* ---- the rule of the property, stated declaratively --------------------------
\* first = the client's first segment (what a detector gets to see)
Rule(svcs, first) ==
  IF Len(svcs) = 0 THEN "none"
  ELSE IF Len(svcs) = 1 THEN svcs[1].name
  ELSE LET ok == { k \in 1..Len(svcs) : svcs[k].det = <<>> \/ Accepts(svcs[k], first) } IN
       IF ok = {} THEN "none"
       ELSE svcs[CHOOSE k \in ok : \A j \in ok : k <= j].name

=============================================================================
