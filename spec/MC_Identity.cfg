SPECIFICATION Spec
CONSTANT Devs = {}
INVARIANTS WellFormed Stable
CHECK_DEADLOCK FALSE
