SPECIFICATION Spec
CONSTANT NReq = 50
INVARIANT Inv
CHECK_DEADLOCK FALSE
