------------------------------- MODULE Knock -------------------------------
(* Port-scan detection of the raw listener: listener/canary/knock.go (knock records,
   knockDetector), the call sites in canary_linux.go (TCP SYN, UDP datagram to a port
   without decoder, ICMP echo), unique-set.go.

   A probe is [src, proto, port] (port 0 for icmp) to one sensor address.  Every source
   reaches the sensor through a link-layer neighbour Via[src] (its own interface on the
   sensor's segment, or a gateway that several sources share: their frames then carry the
   same source hardware address).  Probes are grouped per (source address, neighbour,
   protocol class); a group collects the DISTINCT ports probed.
   When no probe has arrived for the quiet period, every group is reported once - with
   exactly its distinct ports - and removed.
   Deviations (the code as found):
     "tcp_knock_unreachable"   the TCP knock is recorded after two early returns: never
     "udp_group_is_tcp"        the UDP group leaves its protocol at the zero value (= TCP)
     "remove_while_iterating"  reporting removes groups from the array being iterated:
                               the group after a removed one is skipped this round and the
                               last one is reported twice
   Model regression only (never the code as found):
     "group_ignores_source_ip" groups are told apart by neighbour and class only
     "stale_group_kept"        (the code as found) the quiet timer only fires when NO source has knocked for the
                               quiet period; a group whose own last probe is older than the removal limit by then
                               (another source kept knocking meanwhile: Age) is reported but not removed, and is
                               reported again at every later tick                            *)
EXTENDS Integers, Sequences, FiniteSets, TLC

CONSTANTS Sources, Deviations,
          Via          \* [Sources -> link-layer neighbours]

VARIABLES groups,     \* sequence of [src, class, kind, ports (sequence without duplicates)]
          reports,    \* sequence of [src, class, ports]
          sent        \* set of probes sent since the last quiet period
vars == <<groups, reports, sent>>

Class(p) == IF p.proto = "udp" /\ "udp_group_is_tcp" \in Deviations THEN "tcp" ELSE p.proto
Init == groups = <<>> /\ reports = <<>> /\ sent = {}

\* a group's port set compares records of the kind it was created for; a record of another kind (only
\* possible when udp probes land in a tcp group, or the other way round) is never recognised as a duplicate
AddPort(g, pp) == IF pp.proto = g.kind /\ \E i \in 1..Len(g.ports) : g.ports[i] = pp THEN g.ports ELSE Append(g.ports, pp)

Probe(p) ==
  /\ sent' = sent \cup {p}
  /\ UNCHANGED reports
  /\ IF p.proto = "tcp" /\ "tcp_knock_unreachable" \in Deviations THEN UNCHANGED groups
     ELSE LET pp == [proto |-> p.proto, port |-> p.port]
              idx == { i \in 1..Len(groups) : /\ groups[i].class = Class(p) /\ groups[i].via = Via[p.src]
                                               /\ (groups[i].src = p.src \/ "group_ignores_source_ip" \in Deviations) } IN
          IF idx = {} THEN groups' = Append(groups, [src |-> p.src, via |-> Via[p.src], class |-> Class(p), kind |-> p.proto, ports |-> <<pp>>, stale |-> FALSE])
          ELSE LET i == CHOOSE i \in idx : TRUE IN
               groups' = [groups EXCEPT ![i].ports = AddPort(groups[i], pp), ![i].stale = FALSE]

\* a long time passes for group i while the timer cannot fire (other sources keep knocking)
Age(i) == /\ i \in 1..Len(groups) /\ ~groups[i].stale
          /\ groups' = [groups EXCEPT ![i].stale = TRUE]
          /\ UNCHANGED <<reports, sent>>

\* the quiet timer fires: report and remove
RECURSIVE Walk(_, _, _)
Walk(arr, i, seen) ==       \* iteration over the live array while each visited group is removed
  IF i > Len(arr) THEN seen
  ELSE Walk(SubSeq(arr, 1, i - 1) \o SubSeq(arr, i + 1, Len(arr)) \o <<arr[Len(arr)]>>, i + 1, Append(seen, arr[i]))

Tick ==
  /\ groups # <<>>
  /\ IF "remove_while_iterating" \in Deviations
       THEN LET seen == Walk(groups, 1, <<>>) IN
            /\ reports' = reports \o seen
            /\ groups' = SelectSeq(groups, LAMBDA g : ~\E k \in 1..Len(seen) : seen[k] = g)
       ELSE /\ reports' = reports \o groups
            /\ groups' = IF "stale_group_kept" \in Deviations THEN SelectSeq(groups, LAMBDA g : g.stale) ELSE <<>>
  /\ sent' = sent

Next == (\E s \in Sources, pr \in {"tcp", "udp", "icmp"}, po \in {0, 1000, 1001} :
            (pr = "icmp" <=> po = 0) /\ Probe([src |-> s, proto |-> pr, port |-> po]))
        \/ Tick \/ (\E i \in 1..Len(groups) : Age(i))

\* ---- properties (evaluated when everything has been reported) ----------------------------
Quiet == groups = <<>>
PortsOf(s) == { [proto |-> p.proto, port |-> p.port] : p \in { q \in sent : q.src = s } }
Listed(s) == LET RECURSIVE Cat(_) Cat(k) == IF k > Len(reports) THEN <<>>
                                            ELSE (IF reports[k].src = s THEN reports[k].ports ELSE <<>>) \o Cat(k + 1)
             IN Cat(1)
\* per source: the ports listed over its reports are exactly the distinct pairs probed, each once
PortsExactlyDistinctProbed ==
  Quiet => \A s \in Sources :
             /\ { Listed(s)[i] : i \in 1..Len(Listed(s)) } = PortsOf(s)
             /\ Len(Listed(s)) = Cardinality(PortsOf(s))
\* per source and protocol class at most one report per burst
ReportedOncePerBurst ==
  \A i, j \in 1..Len(reports) : (i # j /\ reports[i].src = reports[j].src) => reports[i].class # reports[j].class
=============================================================================
