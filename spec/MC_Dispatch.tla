---------------------------- MODULE MC_Dispatch ----------------------------
(* C08: configurations x connections for Dispatch; design check and generation.
   A behaviour = one configuration (chosen in Init) followed by every connection of
   ConnSeq in turn; the scenario printed at the end lists, per connection, the service
   the specification chooses and the byte range it must read.                       *)
EXTENDS Integers, Sequences, SequencesExt, FiniteSets, TLC, Json

CONSTANTS Mode        \* "single": one port entry x all service lists (exhaustive)
                      \* "multi" : up to 3 entries, lists sampled by -simulate
VARIABLES conn, phase, idx, cands, peeked, wrapped, chosen, gotFrom, gotTo, missing,
          cfg, k, hist, done

D == INSTANCE Dispatch WITH Deviations <- {}

Pool == { [name |-> "n1", det |-> <<>>], [name |-> "n2", det |-> <<>>],
          [name |-> "dA", det |-> <<"A">>], [name |-> "dAB", det |-> <<"A", "B">>],
          [name |-> "dB", det |-> <<"B">>] }

RECURSIVE Lists(_)
Lists(n) == IF n = 0 THEN { <<>> }
            ELSE LET prev == Lists(n - 1) IN
                 prev \cup { Append(l, s) : l \in { x \in prev : Len(x) = n - 1 },
                                             s \in Pool }
NoRepeat(l) == \A i, j \in 1..Len(l) : i # j => l[i].name # l[j].name
AllLists == { l \in Lists(4) : NoRepeat(l) }

Addrs == { [proto |-> p, ip |-> i, port |-> q] : p \in {"tcp", "udp"}, i \in {"", "10.0.0.1"}, q \in {80, 81} }
Entry(a, l) == [proto |-> a.proto, ip |-> a.ip, port |-> a.port, svcs |-> l]

Heads == { <<"A", "x">>, <<"A", "B", "x">>, <<"B", "x">>, <<"C", "x">>, <<"A">> }
\* (head, pad, r): short payloads with first segments of 1, 2 and everything; the 1 KiB boundary
\* rs: buffer size of the chosen service's first Read (smaller than, equal to, larger than what was peeked)
Shapes == { [head |-> h, pad |-> 0, r |-> r, rs |-> 4096] : h \in Heads, r \in {1, 2, 9999} }
          \cup { [head |-> <<"A", "B", "x">>, pad |-> p, r |-> 9999, rs |-> 4096] : p \in {1020, 1021, 1022, 2000} }
          \cup { [head |-> h, pad |-> p, r |-> 9999, rs |-> z] : h \in { <<"A", "B", "x">>, <<"B", "x">> }, p \in {0, 700, 2000}, z \in {1, 3, 700} }
ConnsTo(a) == { [proto |-> a.proto, ip |-> a.ip, port |-> a.port, head |-> s.head, pad |-> s.pad, r |-> s.r, rs |-> s.rs] : s \in Shapes }
Targets == { [proto |-> p, ip |-> i, port |-> q] : p \in {"tcp", "udp"}, i \in {"10.0.0.1", "10.0.0.2"}, q \in {80, 81} }

\* single mode: every shape against the one configured port (tcp, and udp where a datagram is its own segment)
ConnSeqSingle == SetToSeq(ConnsTo([proto |-> "tcp", ip |-> "10.0.0.1", port |-> 80])
                          \cup { c \in ConnsTo([proto |-> "udp", ip |-> "10.0.0.1", port |-> 80]) : c.r = 9999 }
                          \cup { [proto |-> "tcp", ip |-> "10.0.0.1", port |-> 81, head |-> <<"A", "x">>, pad |-> 0, r |-> 9999, rs |-> 4096] })
\* multi mode: one short shape to every target address
ConnSeqMulti == SetToSeq({ [proto |-> t.proto, ip |-> t.ip, port |-> t.port, head |-> h, pad |-> 0, r |-> 9999, rs |-> 4096] :
                           t \in Targets, h \in { <<"A", "B", "x">>, <<"C", "x">> } })
ConnSeq == IF Mode = "single" THEN ConnSeqSingle ELSE ConnSeqMulti

Init ==
  /\ cfg \in IF Mode = "single"
               THEN { << Entry([proto |-> p, ip |-> "", port |-> 80], l) >> : l \in AllLists, p \in {"tcp", "udp"} }
               ELSE { <<>> }      \* built entry by entry (AddEntry), so that -simulate can sample it
  /\ k = 1 /\ hist = <<>> /\ done = FALSE
  /\ phase = "idle" /\ conn = [proto |-> "", ip |-> "", port |-> 0, head |-> <<>>, pad |-> 0, r |-> 0, rs |-> 0]
  /\ idx = 0 /\ cands = <<>> /\ peeked = -1 /\ wrapped = FALSE /\ chosen = "none" /\ gotFrom = 0 /\ gotTo = 0 /\ missing = 0

NEntries == IF Mode = "single" THEN 1 ELSE 3
AddEntry == /\ ~done /\ phase = "idle" /\ k = 1 /\ Len(cfg) < NEntries
            /\ \E a \in Addrs, l \in AllLists : cfg' = Append(cfg, Entry(a, l))
            /\ UNCHANGED <<conn, phase, idx, cands, peeked, wrapped, chosen, gotFrom, gotTo, missing, k, hist, done>>

Start == /\ ~done /\ phase = "idle" /\ k <= Len(ConnSeq) /\ Len(cfg) = NEntries
         /\ D!Accept(D!Table(cfg), ConnSeq[k])
         /\ UNCHANGED <<cfg, k, hist, done>>

Step == /\ phase \in {"scanning", "handling"} /\ ~D!Done
        /\ (D!Peek \/ D!ScanStep \/ D!SvcRead)
        /\ UNCHANGED <<cfg, k, hist, done>>

Finish == /\ phase \in {"closed", "handling"} /\ D!Done
          /\ hist' = Append(hist, [conn |-> conn, chosen |-> chosen, from |-> gotFrom, to |-> gotTo])
          /\ k' = k + 1 /\ phase' = "idle"
          /\ UNCHANGED <<conn, idx, cands, peeked, wrapped, chosen, gotFrom, gotTo, missing, cfg, done>>

Emit == /\ ~done /\ phase = "idle" /\ k > Len(ConnSeq)
        /\ PrintT(<<"SCN", ToJson([cfg |-> cfg, table |-> D!Table(cfg), conns |-> hist])>>)
        /\ done' = TRUE
        /\ UNCHANGED <<conn, phase, idx, cands, peeked, wrapped, chosen, gotFrom, gotTo, missing, cfg, k, hist>>

Next == AddEntry \/ Start \/ Step \/ Finish \/ Emit
vars == <<conn, phase, idx, cands, peeked, wrapped, chosen, gotFrom, gotTo, missing, cfg, k, hist, done>>
Spec == Init /\ [][Next]_vars

Inv == (phase # "idle") => (D!FirstInOrder /\ D!StreamIntact /\ D!NobodyIfNone)
=============================================================================
