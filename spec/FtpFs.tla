------------------------------ MODULE FtpFs ------------------------------
(* Path resolution of the FTP service's sandboxed filesystem
   (services/filesystem/htfs.go RealPath / ChangeDir / Cwd, services/ftp/ftpfs.go).

   A client path is [abs : BOOLEAN, comps : Seq(component)], components drawn from names,
   "..", "." and "" (repeated or trailing separators).  The working directory is a
   sequence of names below the root (<<>> = the root itself).  Resolution is lexical:
   a relative path is taken from the working directory, "." and "" are skipped, ".."
   goes one level up and STAYS at the root when already there.                          *)
EXTENDS Integers, Sequences, FiniteSets, TLC

CONSTANTS Names,       \* directory names that exist (at every level down to Depth)
          Depth

RECURSIVE Walk(_, _)
Walk(at, comps) ==
  IF comps = <<>> THEN at
  ELSE LET c == Head(comps) IN
       Walk(CASE c \in {"", "."} -> at
              [] c = ".." -> IF at = <<>> THEN <<>> ELSE SubSeq(at, 1, Len(at) - 1)
              [] OTHER -> Append(at, c),
            Tail(comps))

Resolve(cwd, p) == Walk(IF p.abs THEN <<>> ELSE cwd, p.comps)

\* the fixture tree: every sequence of Names of length <= Depth is a directory
IsDir(loc) == Len(loc) <= Depth /\ \A i \in 1..Len(loc) : loc[i] \in Names

VARIABLES cwd, touched, last
vars == <<cwd, touched, last>>

Init == cwd = <<>> /\ touched = {} /\ last = [op |-> "init", ok |-> TRUE, loc |-> <<>>]

ChangeDir(p) ==
  LET t == Resolve(cwd, p) IN
  /\ touched' = touched \cup {t}
  /\ IF IsDir(t) THEN cwd' = t /\ last' = [op |-> "cwd", ok |-> TRUE, loc |-> t]
                 ELSE cwd' = cwd /\ last' = [op |-> "cwd", ok |-> FALSE, loc |-> t]

\* any other driver operation (stat, list, delete, mkdir, get, put, rename source/target) touches
\* exactly the resolved location
Touch(op, p) ==
  /\ touched' = touched \cup {Resolve(cwd, p)}
  /\ last' = [op |-> op, ok |-> TRUE, loc |-> Resolve(cwd, p)]
  /\ UNCHANGED cwd

\* ---- properties ----------------------------------------------------------------
\* every location is a sequence of plain names below the root: no "..", ".", "" survives
Plain(loc) == \A i \in 1..Len(loc) : loc[i] \notin {"..", ".", ""}
Contained == \A t \in touched : Plain(t)
CwdRooted == Plain(cwd) /\ IsDir(cwd)
=============================================================================
