------------------------------ MODULE FtpFs ------------------------------
(* Path resolution of the FTP service's sandboxed filesystem
   (services/filesystem/htfs.go RealPath / ChangeDir / Cwd, services/ftp/ftpfs.go).

   A client path is [abs : BOOLEAN, comps : Seq(component)], components drawn from names,
   "..", "." and "" (repeated or trailing separators).  The working directory is a
   sequence of names below the root (<<>> = the root itself).  Resolution is lexical:
   a relative path is taken from the working directory, "." and "" are skipped, ".."
   goes one level up and STAYS at the root when already there.                          *)
EXTENDS Integers, Sequences, FiniteSets, TLC, FtpPath

CONSTANTS Names,       \* directory names that exist (at every level down to Depth)
          Depth

\* the fixture tree: every sequence of Names of length <= Depth is a directory
IsDir(loc) == Len(loc) <= Depth /\ \A i \in 1..Len(loc) : loc[i] \in Names

VARIABLES cwd, touched, last
vars == <<cwd, touched, last>>

Init == cwd = <<>> /\ touched = {} /\ last = [op |-> "init", ok |-> TRUE, loc |-> <<>>]

ChangeDir(p) ==
  LET t == Resolve(cwd, p) IN
  /\ touched' = touched \cup {t}
  /\ IF IsDir(t) THEN cwd' = t /\ last' = [op |-> "cwd", ok |-> TRUE, loc |-> t]
                 ELSE cwd' = cwd /\ last' = [op |-> "cwd", ok |-> FALSE, loc |-> t]

\* any other driver operation (stat, list, delete, mkdir, get, put, rename source/target) touches
\* exactly the resolved location
Touch(op, p) ==
  /\ touched' = touched \cup {Resolve(cwd, p)}
  /\ last' = [op |-> op, ok |-> TRUE, loc |-> Resolve(cwd, p)]
  /\ UNCHANGED cwd

\* ---- properties ----------------------------------------------------------------
\* every location is a sequence of plain names below the root: no "..", ".", "" survives
Contained == \A t \in touched : Plain(t)
CwdRooted == Plain(cwd) /\ IsDir(cwd)
=============================================================================
