---------------------------- MODULE MC_Decoder ----------------------------
(* Design check and transition-table generation for Decoder (C17).  Every transition
   of the complete reachable graph is printed once; the harness turns each into one
   implementation test and uses the table as the oracle for exhaustive operation
   sequences on the real decoder.                                                   *)
EXTENDS Integers, Sequences, TLC, Json
VARIABLES buf, off, err, ret, op

Patterns == << <<0, 1, 2, 3, 4, 5>>,             \* small values; Data length 1
               <<128, 0, 129, 130, 131, 132>>,   \* 0x80..: negative int16/int32, Data length -32768
               <<255, 255, 255, 255, 255, 255>>, \* 0xff..: -1
               <<0, 2, 65, 66, 67, 68>>,         \* Data length 2 fits
               <<255, 254, 1, 2, 3, 4>>,         \* Data length -2 (0xfffe)
               <<0, 5, 9, 8, 7, 6>>,             \* Data length 5 does not fit
               <<0, 0, 127, 255, 128, 0>> >>     \* Data length 0; 0x7fff / 0x8000 boundaries
MCBuffers == { SubSeq(Patterns[p], 1, k) : p \in 1..Len(Patterns), k \in 0..6 }
MCSizes == -3..8

INSTANCE Decoder WITH Buffers <- MCBuffers, Sizes <- MCSizes

\* printing every explored transition (TLC evaluates each enabled action of each distinct state once)
Logged == /\ Next
          /\ PrintT(<<"SCN", ToJson([buf |-> buf, off |-> off, err |-> err, op |-> op',
                                     ret |-> ret', off2 |-> off', err2 |-> err'])>>)
GenSpec == Init /\ [][Logged]_vars

\* `ret` and `op` are outputs: they do not influence behaviour
View == <<buf, off, err>>
=============================================================================
