--------------------------- MODULE MC_DispatchDev ---------------------------
(* Model regression: with the deviation switched on, TLC must find the connection whose
   peeked bytes are lost (a detector-less service listed after a detector).        *)
EXTENDS Integers, Sequences, TLC
CONSTANTS Dev
VARIABLES conn, phase, idx, cands, peeked, wrapped, chosen, gotFrom, gotTo, missing
D == INSTANCE Dispatch WITH Deviations <- {Dev}
Tab == << [proto |-> "tcp", ip |-> "", port |-> 80,
           svcs |-> << [name |-> "dB", det |-> <<"B">>], [name |-> "n1", det |-> <<>>] >>] >>
\* (for peek_tail_dropped: the whole 2-byte stream is peeked, n1 reads with a 1-byte buffer)
C == [proto |-> "tcp", ip |-> "10.0.0.1", port |-> 80, head |-> <<"A", "x">>, pad |-> 0, r |-> IF Dev = "peek_tail_dropped" THEN 9999 ELSE 1, rs |-> 1]
Init == /\ phase = "idle" /\ conn = C /\ idx = 0 /\ cands = <<>> /\ peeked = -1 /\ wrapped = FALSE
        /\ chosen = "none" /\ gotFrom = 0 /\ gotTo = 0 /\ missing = 0
Next == \/ (phase = "idle" /\ D!Accept(Tab, C))
        \/ (phase \in {"scanning", "handling"} /\ ~D!Done /\ (D!Peek \/ D!ScanStep \/ D!SvcRead))
Spec == Init /\ [][Next]_<<conn, phase, idx, cands, peeked, wrapped, chosen, gotFrom, gotTo, missing>>
Inv == (phase # "idle") => (D!FirstInOrder /\ D!StreamIntact /\ D!NobodyIfNone)
=============================================================================
