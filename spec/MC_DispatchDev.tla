--------------------------- MODULE MC_DispatchDev ---------------------------
(* Model regression: with the deviation switched on, TLC must find the connection whose
   peeked bytes are lost (a detector-less service listed after a detector).        *)
EXTENDS Integers, Sequences, TLC
VARIABLES conn, phase, idx, cands, peeked, wrapped, chosen, gotFrom, gotTo
D == INSTANCE Dispatch WITH Deviations <- {"detectorless_after_peek_gets_raw_conn"}
Tab == << [proto |-> "tcp", ip |-> "", port |-> 80,
           svcs |-> << [name |-> "dB", det |-> <<"B">>], [name |-> "n1", det |-> <<>>] >>] >>
C == [proto |-> "tcp", ip |-> "10.0.0.1", port |-> 80, head |-> <<"A", "x">>, pad |-> 0, r |-> 1]
Init == /\ phase = "idle" /\ conn = C /\ idx = 0 /\ cands = <<>> /\ peeked = -1 /\ wrapped = FALSE
        /\ chosen = "none" /\ gotFrom = 0 /\ gotTo = 0
Next == \/ (phase = "idle" /\ D!Accept(Tab, C))
        \/ (phase \in {"scanning", "handling"} /\ ~D!Done /\ (D!Peek \/ D!ScanStep \/ D!SvcRead))
Spec == Init /\ [][Next]_<<conn, phase, idx, cands, peeked, wrapped, chosen, gotFrom, gotTo>>
Inv == (phase # "idle") => (D!FirstInOrder /\ D!StreamIntact /\ D!NobodyIfNone)
=============================================================================
