------------------------- MODULE HoneytrapUniverse -------------------------
(* The services, ports and channels of the whole-server check (shared by MC_Honeytrap, which draws the
   filter configurations, and Honeytrap_Trace, which validates what the real server did with them).
   http and telnet share a port (http has a payload detector, abstracted to the first word of the
   client's first segment); ftp and redis have ports of their own; echo is served for datagrams only (udp/7).                                   *)
EXTENDS Integers, Sequences

Chans == {"a", "b", "f", "all"}
SvcTable == << [proto |-> "tcp", ip |-> "", port |-> 8080, svcs |-> << [name |-> "http", det |-> <<"GET">>], [name |-> "telnet", det |-> <<>>] >>],
               [proto |-> "tcp", ip |-> "", port |-> 21, svcs |-> << [name |-> "ftp", det |-> <<>>] >>],
               [proto |-> "tcp", ip |-> "", port |-> 6379, svcs |-> << [name |-> "redis", det |-> <<>>] >>],
               [proto |-> "tcp", ip |-> "", port |-> 7777, svcs |-> << [name |-> "boom", det |-> <<>>] >>],      \* a stub whose handler panics on demand
               [proto |-> "udp", ip |-> "", port |-> 7, svcs |-> << [name |-> "echo", det |-> <<>>] >>] >>         \* datagrams: tcp/7 and udp/21 are NOT configured
Cats == [s \in {"http", "telnet", "ftp", "redis", "boom", "echo"} |-> CASE s = "boom" -> <<"b","o","o","m">> [] s = "http" -> <<"h","t","t","p">> [] s = "telnet" -> <<"t","e","l","n","e","t">>
                                                         [] s = "echo" -> <<"e","c","h","o">>
                                                         [] s = "ftp" -> <<"f","t","p">> [] s = "redis" -> <<"r","e","d","i","s">>]
=============================================================================
