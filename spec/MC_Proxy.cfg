SPECIFICATION Spec
CONSTANT Devs = {}
INVARIANT Inv
CHECK_DEADLOCK FALSE
CONSTANT NEx = 300
