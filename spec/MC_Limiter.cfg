SPECIFICATION GenSpec
CONSTANT MaxLen = 12
INVARIANT GenInv
CHECK_DEADLOCK FALSE
