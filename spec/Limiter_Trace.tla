--------------------------- MODULE Limiter_Trace ---------------------------
(* Trace validation for C10: every recorded datagram of the real server must be a
   Request step of Limiter whose outcome (events emitted, response datagrams sent) is
   the one the specification prescribes.  Many scenarios per file, separated by
   "reset" lines.  Real time does not advance within a scenario (asserted by the
   driver: each finishes far inside the 10 minute interval), so Advance is not part of
   the trace specification.                                                        *)
EXTENDS Integers, Sequences, FiniteSets, TLC, Json, MC_LimiterTables

VARIABLES tokens, now, replies, last, l
Trace == ndJsonDeserialize("trace.ndjson")

L == INSTANCE Limiter WITH Svcs <- MCSvcs, IPs <- MCIPs, Ports <- {0},
                           Burst <- 4, Q <- 2, Steps <- MCSteps, MaxT <- 4, Deviations <- {}

TInit == L!Init /\ l = 1 /\ TLCSet(1, 1)

IsEv(k) == l <= Len(Trace) /\ Trace[l].k = k /\ l' = l + 1

TReset == /\ IsEv("reset")
          /\ tokens' = [s \in MCSvcs |-> [i \in MCIPs |-> 4 * 2]]
          /\ replies' = [s \in MCSvcs |-> [i \in MCIPs |-> <<>>]]
          /\ now' = 0
          /\ last' = [s |-> "", i |-> "", ev |-> 0, rep |-> 0]

TRequest == /\ IsEv("req")
            /\ LET e == Trace[l] IN
               /\ e.svc \in MCSvcs /\ e.ip \in MCIPs /\ e.kind \in L!KindsOf(e.svc)
               /\ L!Request(e.svc, e.ip, e.port, e.kind)
               /\ last'.ev = e.ev /\ last'.rep = e.rep      \* logged outcome = prescribed outcome

TNext == TReset \/ TRequest
TSpec == TInit /\ [][TNext]_<<tokens, now, replies, last, l>>

HighWater == TLCSet(1, IF TLCGet(1) < l THEN l ELSE TLCGet(1))
Accepted == TLCGet(1) = Len(Trace) + 1 \/ (PrintT(<<"REJECTED_AT", TLCGet(1)>>) /\ FALSE)
TInv == L!TypeOK /\ L!AtMostBurstPerWindow
=============================================================================
