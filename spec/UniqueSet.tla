----------------------------- MODULE UniqueSet -----------------------------
(* listener/canary/unique-set.go: an insertion-ordered set.  Add returns the element that is
   in the set afterwards, Remove deletes, Each visits every element present when it starts
   exactly once - also when the callback removes elements (the port-scan detector does).
   Deviation "shared_array": Each iterates over the live backing array, so removing the
   element just visited shifts its successors left: the next one is skipped and the last
   one is visited twice (the behaviour of the code as found).                           *)
EXTENDS Integers, Sequences, FiniteSets, TLC

CONSTANTS Keys, Deviations
VARIABLES items, out     \* out: observable result of the last operation
vars == <<items, out>>

Has(k) == \E i \in 1..Len(items) : items[i] = k
Without(seq, k) == SelectSeq(seq, LAMBDA x : x # k)

Init == items = <<>> /\ out = [op |-> "new", visited |-> <<>>]

Add(k) == /\ items' = IF Has(k) THEN items ELSE Append(items, k)
          /\ out' = [op |-> "add", visited |-> <<k>>]
Remove(k) == /\ items' = Without(items, k)
             /\ out' = [op |-> "remove", visited |-> <<>>]

\* iteration over the live array arr (shared_array): state [arr, i, seen]
RECURSIVE Walk(_, _, _, _)
Walk(arr, i, seen, R) ==
  IF i > Len(arr) THEN seen
  ELSE LET x == arr[i] IN
       IF x \in R   \* the callback removes x: successors shift left, the last slot keeps its old value
         THEN Walk(SubSeq(arr, 1, i - 1) \o SubSeq(arr, i + 1, Len(arr)) \o <<arr[Len(arr)]>>, i + 1, Append(seen, x), R)
         ELSE Walk(arr, i + 1, Append(seen, x), R)

\* Each with a callback that removes the elements of R when it visits them
EachRemoving(R) ==
  /\ out' = [op |-> "each", visited |-> IF "shared_array" \in Deviations THEN Walk(items, 1, <<>>, R) ELSE items]
  /\ items' = SelectSeq(items, LAMBDA x : x \notin R)

Next == \E k \in Keys : Add(k) \/ Remove(k)
        \/ \E R \in SUBSET Keys : EachRemoving(R)

NoDuplicates == \A i, j \in 1..Len(items) : i # j => items[i] # items[j]
\* Each visits exactly the elements present at its start, each once, in order
EachExact == [][out'.op = "each" => out'.visited = items]_vars
=============================================================================
