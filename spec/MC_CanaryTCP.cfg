SPECIFICATION Spec
CONSTANT NConns = 1
CONSTANT MaxFrames = 5
INVARIANT Inv
CHECK_DEADLOCK FALSE
