------------------------------ MODULE FtpPath ------------------------------
(* Lexical path resolution shared by FtpFs (one path at a time on Htfs) and FtpSession
   (command sequences on the running FTP service); no variables.
   A client path is [abs : BOOLEAN, comps : Seq(component)]; a location is a sequence of
   plain names below the root (<<>> = the root itself).                                 *)
EXTENDS Integers, Sequences

RECURSIVE Walk(_, _)
Walk(at, comps) ==
  IF comps = <<>> THEN at
  ELSE LET c == Head(comps) IN
       Walk(CASE c \in {"", "."} -> at
              [] c = ".." -> IF at = <<>> THEN <<>> ELSE SubSeq(at, 1, Len(at) - 1)
              [] OTHER -> Append(at, c),
            Tail(comps))

Resolve(cwd, p) == Walk(IF p.abs THEN <<>> ELSE cwd, p.comps)

Parent(loc) == SubSeq(loc, 1, Len(loc) - 1)
IsPrefixLoc(a, b) == Len(a) <= Len(b) /\ SubSeq(b, 1, Len(a)) = a
\* every location is a sequence of plain names below the root: no "..", ".", "" survives
Plain(loc) == \A i \in 1..Len(loc) : loc[i] \notin {"..", ".", ""}
=============================================================================
