---------------------------- MODULE MC_Limiter ----------------------------
(* Constants and scenario generation for Limiter (C10).  The Steps table is the
   transcription of the four Handle functions; the harness has the matching byte
   templates (harness/cmd/lab/c10.go) under the same kind names.                  *)
EXTENDS Integers, Sequences, FiniteSets, TLC, Json, MC_LimiterTables

CONSTANTS MaxLen       \* scenario length for generation
VARIABLES tokens, now, replies, last, hist, done, focus

MCPorts == {1001, 1002, 40000}
L == INSTANCE Limiter WITH Svcs <- MCSvcs, IPs <- MCIPs, Ports <- MCPorts,
                           Burst <- 4, Q <- 2, Steps <- MCSteps, MaxT <- 4, Deviations <- {}

\* ---- generation: request-only behaviours (real time does not advance in a replay)
\* each scenario concentrates on 1..2 services and 1..2 sources so that buckets run dry
GenInit == /\ L!Init /\ hist = <<>> /\ done = FALSE
           /\ focus \in { f \in [s : SUBSET MCSvcs, i : SUBSET MCIPs] :
                            Cardinality(f.s) \in 1..2 /\ Cardinality(f.i) \in 1..2 }

GenRequest(s, i, p, k) ==
  /\ ~done /\ Len(hist) < MaxLen /\ s \in focus.s /\ i \in focus.i
  /\ L!Request(s, i, p, k)
  /\ hist' = Append(hist, [svc |-> s, ip |-> i, port |-> p, kind |-> k,
                           ev |-> last'.ev, rep |-> last'.rep])
  /\ UNCHANGED <<done, focus>>

Emit == /\ ~done /\ Len(hist) = MaxLen
        /\ PrintT(<<"SCN", ToJson([mod |-> "Limiter", steps |-> hist])>>)
        /\ done' = TRUE
        /\ UNCHANGED <<tokens, now, replies, last, hist, focus>>

GenNext == \/ \E s \in MCSvcs, i \in MCIPs, p \in MCPorts : \E k \in L!KindsOf(s) : GenRequest(s, i, p, k)
           \/ Emit
GenSpec == GenInit /\ [][GenNext]_<<tokens, now, replies, last, hist, done, focus>>

GenInv == L!TypeOK /\ L!AtMostBurstPerWindow
=============================================================================
