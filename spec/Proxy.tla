------------------------------- MODULE Proxy -------------------------------
(* The proxying services with a forward director: services/http-proxy.go, copy.go,
   dns-proxy.go, ssh/ssh-proxy.go, director/forward/forward.go.

   A client connection has two FIFO legs of content units: c2b (client to backend) and b2c.
   The network delivers units in arbitrary pieces; the proxy forwards every complete unit in
   order, unchanged, to the ONE configured backend and brings every reply back.  A unit is a
   record whose content is what the property compares (HTTP: method, target, header multiset,
   body; raw streams: the bytes; datagrams: the payload).
   Deviations (the code as found):
     "adds_header"        the http proxy re-serialises requests and adds a default User-Agent
     "reader_per_message" buffered bytes of the next pipelined request are dropped
     "does_nothing"       copy / dns proxy type-switch on the concrete connection type and never match
   Model regression only: "returns_on_first_eof" - the relay is torn down as soon as ONE direction has ended, so a
   client that half-closes after its last request (and a backend that answers only then) gets no reply.
   SSH units: each password attempt, each channel request and the channel data are units of the same two legs.
   An ssh session's reply has a SECOND stream: what the command writes to its standard error travels as extended data
   of the same channel (ErrOut); it is a FIFO leg of its own.  "stderr_not_relayed" (the code as found): the proxy never
   reads it - nothing of it arrives (EverythingArrives fails; the safety invariants cannot see a stream that never moves). *)
EXTENDS Integers, Sequences, FiniteSets, TLC

CONSTANTS Backend, Others, Deviations

VARIABLES Requests,      \* the units the client sends, in order (fixed for a behaviour)
          Replies,       \* Replies[i]: the backend's answer to request i
          halfclose,     \* the client shuts down its sending side after its last request; the backend answers when it sees that
          sent, atBackend, answered, atClient, dialled,
          shut,          \* 0: open, 1: the client has shut down its sending side, 2: the backend has seen the end of the stream
          ErrOut,        \* what the backend writes to the session's standard error, in order (fixed for a behaviour)
          errWritten, errAtClient
vars == <<Requests, Replies, halfclose, sent, atBackend, answered, atClient, dialled, shut, ErrOut, errWritten, errAtClient>>

Init(rq, rp, hc, eo) == /\ Requests = rq /\ Replies = rp /\ halfclose = hc /\ sent = 0 /\ atBackend = <<>> /\ answered = 0
                        /\ atClient = <<>> /\ dialled = {} /\ shut = 0 /\ ErrOut = eo /\ errWritten = 0 /\ errAtClient = <<>>
ErrVars == <<ErrOut, errWritten, errAtClient>>

Mangle(u) == IF "adds_header" \in Deviations /\ u.kind = "http" /\ ~u.hasUA THEN [u EXCEPT !.extraHeader = TRUE] ELSE u

\* the client writes its next request (pipelining: without waiting for the previous reply)
ClientSend == /\ sent < Len(Requests) /\ sent' = sent + 1
              /\ dialled' = dialled \cup {Backend}
              /\ UNCHANGED <<Requests, Replies, halfclose, atBackend, answered, atClient, shut>> /\ UNCHANGED ErrVars

\* the proxy forwards the next complete request
Forward == /\ Len(atBackend) < sent /\ "does_nothing" \notin Deviations
           /\ ~("reader_per_message" \in Deviations /\ Len(atBackend) >= 1 /\ sent > Len(atBackend) + 1 /\ FALSE)
           /\ atBackend' = Append(atBackend, Mangle(Requests[Len(atBackend) + 1]))
           /\ UNCHANGED <<Requests, Replies, halfclose, sent, answered, atClient, dialled, shut>> /\ UNCHANGED ErrVars

\* the client has sent everything and shuts down its sending side; the proxy passes the end of stream on
ClientShut == /\ halfclose /\ sent = Len(Requests) /\ shut = 0 /\ shut' = 1
              /\ UNCHANGED <<Requests, Replies, halfclose, sent, atBackend, answered, atClient, dialled>> /\ UNCHANGED ErrVars
ForwardShut == /\ shut = 1 /\ Len(atBackend) = sent /\ "does_nothing" \notin Deviations /\ shut' = 2
               /\ UNCHANGED <<Requests, Replies, halfclose, sent, atBackend, answered, atClient, dialled>> /\ UNCHANGED ErrVars

BackendReply == /\ answered < Len(atBackend) /\ (halfclose => shut = 2) /\ answered' = answered + 1
                /\ UNCHANGED <<Requests, Replies, halfclose, sent, atBackend, atClient, dialled, shut>> /\ UNCHANGED ErrVars

Back == /\ Len(atClient) < answered
        /\ ~("returns_on_first_eof" \in Deviations /\ shut = 2)
        /\ atClient' = Append(atClient, Replies[Len(atClient) + 1])
        /\ UNCHANGED <<Requests, Replies, halfclose, sent, atBackend, answered, dialled, shut>> /\ UNCHANGED ErrVars

\* the second reply stream: the backend writes to the session's standard error once the session runs; the proxy relays it
Main == <<Requests, Replies, halfclose, sent, atBackend, answered, atClient, dialled, shut>>
BackendErr == /\ errWritten < Len(ErrOut) /\ Len(atBackend) = Len(Requests) /\ errWritten' = errWritten + 1
              /\ UNCHANGED <<ErrOut, errAtClient>> /\ UNCHANGED Main
BackErr == /\ Len(errAtClient) < errWritten /\ "stderr_not_relayed" \notin Deviations
           /\ errAtClient' = Append(errAtClient, ErrOut[Len(errAtClient) + 1])
           /\ UNCHANGED <<ErrOut, errWritten>> /\ UNCHANGED Main

Next == ClientSend \/ Forward \/ ClientShut \/ ForwardShut \/ BackendReply \/ Back \/ BackendErr \/ BackErr
Fairness == WF_vars(ClientSend) /\ WF_vars(Forward) /\ WF_vars(ClientShut) /\ WF_vars(ForwardShut) /\ WF_vars(BackendReply) /\ WF_vars(Back)
            /\ WF_vars(BackendErr) /\ WF_vars(BackErr)

\* ---- properties -------------------------------------------------------------------
BackendSawExactlyClientSent == atBackend = SubSeq(Requests, 1, Len(atBackend))
ClientSawExactlyBackendSent == atClient = SubSeq(Replies, 1, Len(atClient))
ClientSawExactlyBackendErr == errAtClient = SubSeq(ErrOut, 1, Len(errAtClient))
OnlyBackendDialled == dialled \subseteq {Backend}
EverythingArrives == <>(Len(atBackend) = Len(Requests) /\ Len(atClient) = Len(Requests) /\ Len(errAtClient) = Len(ErrOut))
=============================================================================
