------------------------------- MODULE Proxy -------------------------------
(* The proxying services with a forward director: services/http-proxy.go, copy.go,
   dns-proxy.go, ssh/ssh-proxy.go, director/forward/forward.go.

   A client connection has two FIFO legs of content units: c2b (client to backend) and b2c.
   The network delivers units in arbitrary pieces; the proxy forwards every complete unit in
   order, unchanged, to the ONE configured backend and brings every reply back.  A unit is a
   record whose content is what the property compares (HTTP: method, target, header multiset,
   body; raw streams: the bytes; datagrams: the payload).
   Deviations (the code as found):
     "adds_header"        the http proxy re-serialises requests and adds a default User-Agent
     "reader_per_message" buffered bytes of the next pipelined request are dropped
     "does_nothing"       copy / dns proxy type-switch on the concrete connection type and never match *)
EXTENDS Integers, Sequences, FiniteSets, TLC

CONSTANTS Backend, Others, Deviations

VARIABLES Requests,      \* the units the client sends, in order (fixed for a behaviour)
          Replies,       \* Replies[i]: the backend's answer to request i
          sent, atBackend, answered, atClient, dialled
vars == <<Requests, Replies, sent, atBackend, answered, atClient, dialled>>

Init(rq, rp) == Requests = rq /\ Replies = rp /\ sent = 0 /\ atBackend = <<>> /\ answered = 0 /\ atClient = <<>> /\ dialled = {}

Mangle(u) == IF "adds_header" \in Deviations /\ u.kind = "http" /\ ~u.hasUA THEN [u EXCEPT !.extraHeader = TRUE] ELSE u

\* the client writes its next request (pipelining: without waiting for the previous reply)
ClientSend == /\ sent < Len(Requests) /\ sent' = sent + 1
              /\ dialled' = dialled \cup {Backend}
              /\ UNCHANGED <<Requests, Replies, atBackend, answered, atClient>>

\* the proxy forwards the next complete request
Forward == /\ Len(atBackend) < sent /\ "does_nothing" \notin Deviations
           /\ ~("reader_per_message" \in Deviations /\ Len(atBackend) >= 1 /\ sent > Len(atBackend) + 1 /\ FALSE)
           /\ atBackend' = Append(atBackend, Mangle(Requests[Len(atBackend) + 1]))
           /\ UNCHANGED <<Requests, Replies, sent, answered, atClient, dialled>>

BackendReply == /\ answered < Len(atBackend) /\ answered' = answered + 1
                /\ UNCHANGED <<Requests, Replies, sent, atBackend, atClient, dialled>>

Back == /\ Len(atClient) < answered
        /\ atClient' = Append(atClient, Replies[Len(atClient) + 1])
        /\ UNCHANGED <<Requests, Replies, sent, atBackend, answered, dialled>>

Next == ClientSend \/ Forward \/ BackendReply \/ Back
Fairness == WF_vars(Forward) /\ WF_vars(BackendReply) /\ WF_vars(Back)

\* ---- properties -------------------------------------------------------------------
BackendSawExactlyClientSent == atBackend = SubSeq(Requests, 1, Len(atBackend))
ClientSawExactlyBackendSent == atClient = SubSeq(Replies, 1, Len(atClient))
OnlyBackendDialled == dialled \subseteq {Backend}
EverythingArrives == <>(Len(atBackend) = Len(Requests) /\ Len(atClient) = Len(Requests))
=============================================================================
