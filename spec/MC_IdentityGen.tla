---------------------------- MODULE MC_IdentityGen ----------------------------
(* C18 generation: restart histories (enabled services per start; completed or killed during start-up)
   from every initial state of the token file.                                           *)
EXTENDS Integers, Sequences, FiniteSets, TLC, Json
CONSTANTS NStarts
VARIABLES disk, mem, pc, enabled, fresh, starts, seen, hist, init, inittmp
AllItems == {"ssh", "ftp", "smtp", "ldap", "agent"}
I == INSTANCE Identity WITH Items <- AllItems, Pairs <- {"ftp", "smtp", "ldap"}, Deviations <- {}, MaxStarts <- NStarts

RECURSIVE SetToSeqS(_)
SetToSeqS(S) == IF S = {} THEN <<>> ELSE LET x == CHOOSE x \in S : TRUE IN <<x>> \o SetToSeqS(S \ {x})
Sets == { {"ssh"}, {"ftp", "smtp"}, {"ssh", "ftp", "smtp", "ldap", "agent"}, {"ldap", "agent"}, {"ssh", "ldap"} }
Init == I!Init /\ hist = <<>> /\ init = disk.token[1] /\ inittmp = disk.tmp[1]
Begin == \E en \in Sets : I!Start(en) /\ hist' = Append(hist, [enabled |-> en, completed |-> FALSE, half |-> {}]) /\ UNCHANGED <<init, inittmp>>
\* the generator takes the items in one fixed order (the real server initialises its services in configuration order; every
\* order is covered by the exhaustive check of MC_Identity): that keeps the number of histories small
Order == <<"ssh", "ftp", "smtp", "ldap", "agent">>
Pending == { k \in 1..Len(Order) : Order[k] \in enabled /\ mem.items[Order[k]] = I!Absent }
Work == (I!TokenStep \/ I!TokenTmp \/ I!TokenRename
         \/ (Pending # {} /\ I!ItemStep(Order[CHOOSE k \in Pending : \A j \in Pending : k <= j]))) /\ UNCHANGED <<hist, init, inittmp>>
Complete == I!Up /\ hist' = [hist EXCEPT ![Len(hist)].completed = TRUE] /\ UNCHANGED <<init, inittmp>>
\* a kill: the pairs whose key is stored but whose certificate is not are remembered (the runner reproduces exactly that state)
Stop == I!Kill /\ hist' = [hist EXCEPT ![Len(hist)].half = { i \in enabled : disk.items[i][1] = "half" }] /\ UNCHANGED <<init, inittmp>>
Emit == /\ pc = "down" /\ starts = NStarts /\ Len(hist) = NStarts
        /\ PrintT(<<"SCN", ToJson([token |-> init, tmp |-> inittmp, starts |-> [k \in 1..Len(hist) |-> [enabled |-> SetToSeqS(hist[k].enabled), completed |-> hist[k].completed, half |-> SetToSeqS(hist[k].half)]]])>>)
        /\ UNCHANGED <<disk, mem, pc, enabled, fresh, starts, seen, hist, init, inittmp>>
Next == Begin \/ Work \/ Complete \/ Stop \/ Emit
Spec == Init /\ [][Next]_<<disk, mem, pc, enabled, fresh, starts, seen, hist, init, inittmp>>
Inv == I!WellFormed /\ I!Stable
=============================================================================
