---------------------------- MODULE MC_IdentityGen ----------------------------
(* C18 generation: restart histories (enabled services per start; completed or killed during start-up)
   from every initial state of the token file.                                           *)
EXTENDS Integers, Sequences, FiniteSets, TLC, Json
CONSTANTS NStarts
VARIABLES disk, mem, pc, enabled, fresh, starts, seen, hist, init, inittmp
I == INSTANCE Identity WITH Items <- {"ssh", "ftp", "smtp", "ldap", "agent"}, Deviations <- {}, MaxStarts <- NStarts

RECURSIVE SetToSeqS(_)
SetToSeqS(S) == IF S = {} THEN <<>> ELSE LET x == CHOOSE x \in S : TRUE IN <<x>> \o SetToSeqS(S \ {x})
Sets == { {"ssh"}, {"ftp", "smtp"}, {"ssh", "ftp", "smtp", "ldap", "agent"}, {"ldap", "agent"}, {"ssh", "ldap"} }
Init == I!Init /\ hist = <<>> /\ init = disk.token[1] /\ inittmp = disk.tmp[1]
Begin == \E en \in Sets : I!Start(en) /\ hist' = Append(hist, [enabled |-> en, completed |-> FALSE]) /\ UNCHANGED <<init, inittmp>>
Work == (I!TokenStep \/ I!TokenTmp \/ I!TokenRename \/ \E i \in {"ssh", "ftp", "smtp", "ldap", "agent"} : I!ItemStep(i)) /\ UNCHANGED <<hist, init, inittmp>>
Complete == I!Up /\ hist' = [hist EXCEPT ![Len(hist)].completed = TRUE] /\ UNCHANGED <<init, inittmp>>
Stop == I!Kill /\ UNCHANGED <<hist, init, inittmp>>
Emit == /\ pc = "down" /\ starts = NStarts /\ Len(hist) = NStarts
        /\ PrintT(<<"SCN", ToJson([token |-> init, tmp |-> inittmp, starts |-> [k \in 1..Len(hist) |-> [enabled |-> SetToSeqS(hist[k].enabled), completed |-> hist[k].completed]]])>>)
        /\ UNCHANGED <<disk, mem, pc, enabled, fresh, starts, seen, hist, init, inittmp>>
Next == Begin \/ Work \/ Complete \/ Stop \/ Emit
Spec == Init /\ [][Next]_<<disk, mem, pc, enabled, fresh, starts, seen, hist, init, inittmp>>
Inv == I!WellFormed /\ I!Stable
=============================================================================
