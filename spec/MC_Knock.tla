------------------------------ MODULE MC_Knock ------------------------------
(* C20: interleaved bursts from 1..3 sources, two of them behind one gateway (same source
   hardware address on the wire); one quiet period at the end. *)
EXTENDS Integers, Sequences, FiniteSets, TLC, Json
CONSTANTS Devs, NProbes, Sim
VARIABLES groups, reports, sent, hist, phase

ViaMap == [s \in {"s1", "s2", "s3"} |-> IF s = "s3" THEN "own" ELSE "gw"]
K == INSTANCE Knock WITH Sources <- {"s1", "s2", "s3"}, Deviations <- Devs, Via <- ViaMap

Init == K!Init /\ hist = <<>> /\ phase = "burst"
ProbeStep == /\ phase = "burst" /\ Len(hist) < NProbes
             /\ \E s \in {"s1", "s2", "s3"}, pr \in {"tcp", "udp", "icmp"}, po \in {0, 1000, 1001} :
                  /\ (pr = "icmp" <=> po = 0)
                  /\ K!Probe([src |-> s, proto |-> pr, port |-> po])
                  /\ hist' = Append(hist, [src |-> s, via |-> ViaMap[s], proto |-> pr, port |-> po])
             /\ UNCHANGED phase
AgeStep == /\ phase = "burst" /\ ~Sim /\ (\E i \in 1..Len(groups) : K!Age(i)) /\ UNCHANGED <<hist, phase>>
Quiet1 == /\ phase = "burst" /\ Len(hist) >= (IF Sim THEN NProbes ELSE 1) /\ K!Tick /\ phase' = "ticked" /\ UNCHANGED hist
Quiet2 == /\ phase = "ticked" /\ groups # <<>> /\ K!Tick /\ UNCHANGED <<hist, phase>>
Emit == /\ phase = "ticked" /\ groups = <<>>
        /\ PrintT(<<"SCN", ToJson([probes |-> hist, reports |-> reports])>>)
        /\ phase' = "done" /\ UNCHANGED <<groups, reports, sent, hist>>
Next == ProbeStep \/ AgeStep \/ Quiet1 \/ Quiet2 \/ Emit
Spec == Init /\ [][Next]_<<groups, reports, sent, hist, phase>>
Inv == (phase = "ticked" => K!PortsExactlyDistinctProbed) /\ K!ReportedOncePerBurst
=============================================================================
