---------------------------- MODULE AgentConnInd ----------------------------
(* The reader/receiver protocol of AgentConn.tla with counters instead of sequences (buffN = chunks
   buffered, readN = chunks read), for ANY number of data messages: NoStall as an inductive invariant,
   discharged by Apalache.  Cap is the capacity of the notification channel.
     Init => IndInv,   IndInv /\ Next => IndInv',   IndInv => NoStall
   With CapOne (the repaired code) all three hold; with CapZero (the code as found) the step is refuted:
   a message handled while the reader is in the gap leaves bytes buffered and no notification.          *)
EXTENDS Integers, Apalache

VARIABLES
  \* @type: Int;
  cap,
  \* @type: Int;
  buffN,
  \* @type: Int;
  chan,
  \* @type: Str;
  rpc,
  \* @type: Int;
  sent,
  \* @type: Bool;
  ended,
  \* @type: Int;
  readN

States == {"idle", "gap", "waiting", "woken", "eof"}

InitWith(c) == cap = c /\ buffN = 0 /\ chan = 0 /\ rpc = "idle" /\ sent = 0 /\ ended = FALSE /\ readN = 0
InitOne == InitWith(1)
InitZero == InitWith(0)

ReadCheck == /\ rpc = "idle"
             /\ IF buffN > 0 THEN readN' = readN + buffN /\ buffN' = 0 /\ rpc' = rpc
                ELSE rpc' = "gap" /\ buffN' = buffN /\ readN' = readN
             /\ UNCHANGED <<cap, chan, sent, ended>>
ReadWait == /\ rpc = "gap"
            /\ IF chan > 0 THEN chan' = chan - 1 /\ rpc' = "woken"
               ELSE IF ended THEN chan' = chan /\ rpc' = "eof"
               ELSE chan' = chan /\ rpc' = "waiting"
            /\ UNCHANGED <<cap, buffN, sent, ended, readN>>
ReadWoken == /\ rpc = "woken"
             /\ readN' = readN + buffN /\ buffN' = 0 /\ rpc' = "idle"
             /\ UNCHANGED <<cap, chan, sent, ended>>
Receive == /\ ~ended
           /\ sent' = sent + 1 /\ buffN' = buffN + 1
           /\ IF rpc = "waiting" THEN rpc' = "woken" /\ chan' = chan
              ELSE IF chan < cap THEN chan' = chan + 1 /\ rpc' = rpc
              ELSE chan' = chan /\ rpc' = rpc
           /\ UNCHANGED <<cap, ended, readN>>
End == /\ ~ended /\ ended' = TRUE
       /\ rpc' = (IF rpc = "waiting" THEN "eof" ELSE rpc)
       /\ UNCHANGED <<cap, buffN, chan, sent, readN>>
Next == ReadCheck \/ ReadWait \/ ReadWoken \/ Receive \/ End

NoStall == ~(rpc = "waiting" /\ buffN > 0)
\* nothing is lost or invented: what was received is either read or still buffered
Conserved == sent = readN + buffN

IndInv == /\ rpc \in States /\ cap \in {0, 1} /\ chan >= 0 /\ chan <= cap
          /\ buffN >= 0 /\ readN >= 0 /\ sent >= 0 /\ Conserved
          /\ (rpc = "waiting" => buffN = 0)
          /\ ((rpc = "gap" /\ chan = 0) => buffN = 0)

\* an arbitrary state satisfying the invariant, with the capacity fixed
IndInitOne == /\ cap = 1 /\ buffN = Gen(1) /\ chan = Gen(1) /\ rpc = Gen(1) /\ sent = Gen(1) /\ ended = Gen(1) /\ readN = Gen(1) /\ IndInv
IndInitZero == /\ cap = 0 /\ buffN = Gen(1) /\ chan = Gen(1) /\ rpc = Gen(1) /\ sent = Gen(1) /\ ended = Gen(1) /\ readN = Gen(1) /\ IndInv
=============================================================================
