SPECIFICATION Spec
CONSTANT Devs = {}
CONSTANT NKeys = 2
CONSTANT MaxMsgs = 5
INVARIANT Inv
CHECK_DEADLOCK FALSE
