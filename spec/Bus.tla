------------------------------- MODULE Bus -------------------------------
(* Event routing: pushers/eventbus (synchronous fan-out in subscription order),
   pushers/filters.go (RegexFilterFunc = any-of unanchored regexp match on a field,
   TokenChannel), and the wiring loop of server.Run: for every [[filter]] and every
   channel name it lists (unknown names skipped), one subscription
        Filter(services) o Filter(categories) o Token o channel
   where a missing or empty expression list means "no filter".

   Strings are sequences of one-character strings.  A regular expression is one of
     [kind |-> "lit",  s]        s somewhere in the value   (Go: unanchored MatchString)
     [kind |-> "pre",  s]        ^s
     [kind |-> "full", s]        ^s$
     [kind |-> "alt",  s, t]     s|t  (either somewhere in the value)
   A field value is [k |-> "str", v |-> <<chars>>], [k |-> "missing"] or [k |-> "int"]:
   a missing or non-string field is matched as the empty string.                      *)
EXTENDS Integers, Sequences, FiniteSets, TLC

CONSTANTS Channels       \* configured channel names

Contains(v, s) == \E i \in 0..(Len(v) - Len(s)) : SubSeq(v, i + 1, i + Len(s)) = s
StartsWith(v, s) == Len(s) <= Len(v) /\ SubSeq(v, 1, Len(s)) = s
Match(e, v) == CASE e.kind = "lit"  -> Contains(v, e.s)
                 [] e.kind = "pre"  -> StartsWith(v, e.s)
                 [] e.kind = "full" -> v = e.s
                 [] e.kind = "alt"  -> Contains(v, e.s) \/ Contains(v, e.t)

Str(field) == IF field.k = "str" THEN field.v ELSE <<>>
AnyOf(exprs, field) == exprs = <<>> \/ \E i \in 1..Len(exprs) : Match(exprs[i], Str(field))

\* filter == [channels : Seq(name), cats : Seq(expr), svcs : Seq(expr)]   (<<>> = absent/empty)
Admit(f, ev) == AnyOf(f.cats, ev.cat) /\ AnyOf(f.svcs, ev.svc)

\* subscriptions in bus order: one per (filter, occurrence of a configured channel name)
RECURSIVE Subs(_)
Subs(filters) ==
  IF filters = <<>> THEN <<>>
  ELSE LET f == Head(filters)
           mine == [i \in 1..Len(SelectSeq(f.channels, LAMBDA c : c \in Channels)) |->
                      [ch |-> SelectSeq(f.channels, LAMBDA c : c \in Channels)[i], f |-> f]]
       IN mine \o Subs(Tail(filters))

VARIABLES filters,     \* the configuration
          delivered,   \* delivered[ch] = sequence of event ids, in arrival order
          sent         \* ids sent so far
vars == <<filters, delivered, sent>>

Init(fs) == filters = fs /\ delivered = [c \in Channels |-> <<>>] /\ sent = <<>>

RECURSIVE Fanout(_, _, _)
Fanout(subs, ev, d) ==
  IF subs = <<>> THEN d
  ELSE LET s == Head(subs) IN
       Fanout(Tail(subs), ev, IF Admit(s.f, ev) THEN [d EXCEPT ![s.ch] = Append(@, ev.id)] ELSE d)

Send(ev) == /\ delivered' = Fanout(Subs(filters), ev, delivered)
            /\ sent' = Append(sent, ev)
            /\ UNCHANGED filters

\* ---- properties -----------------------------------------------------------------
Count(seq, x) == Cardinality({ i \in 1..Len(seq) : seq[i] = x })
NamesCh(f, c) == Cardinality({ i \in 1..Len(f.channels) : f.channels[i] = c })

\* once for every filter naming the channel (per occurrence) that admits the event; nothing else
ExactlyAdmitted ==
  \A c \in Channels : \A n \in 1..Len(sent) :
    Count(delivered[c], sent[n].id) =
      LET idxs == { i \in 1..Len(filters) : Admit(filters[i], sent[n]) } IN
      IF idxs = {} THEN 0
      ELSE LET RECURSIVE Sum(_)
               Sum(S) == IF S = {} THEN 0 ELSE LET i == CHOOSE i \in S : TRUE IN NamesCh(filters[i], c) + Sum(S \ {i})
           IN Sum(idxs)

\* per channel, events arrive in sending order
OrderPreserved ==
  \A c \in Channels : \A i, j \in 1..Len(delivered[c]) :
    i < j => (\E a, b \in 1..Len(sent) : a <= b /\ sent[a].id = delivered[c][i] /\ sent[b].id = delivered[c][j])

\* what a channel receives depends only on the filters naming it
Restrict(fs, c) == SelectSeq(fs, LAMBDA f : \E i \in 1..Len(f.channels) : f.channels[i] = c)
RECURSIVE Replay(_, _, _)
Replay(evs, fs, d) == IF evs = <<>> THEN d ELSE Replay(Tail(evs), fs, Fanout(Subs(fs), Head(evs), d))
ChannelIndependence ==
  \A c \in Channels :
    delivered[c] = Replay(sent, Restrict(filters, c), [x \in Channels |-> <<>>])[c]
=============================================================================
