SPECIFICATION Spec
CONSTRAINT HighWater
INVARIANT Inv
POSTCONDITION Accepted
CHECK_DEADLOCK FALSE
