------------------------------ MODULE Identity ------------------------------
(* Sensor identity across restarts: server/options.go WithToken (token file), the load-or-
   generate-then-store items of the services (ssh host key, ftp/smtp/ldap key+certificate,
   agent key pair) kept in the process-global store (storage/storage.go).

   disk.token is "absent", a proper prefix of an identifier ("partial", incl. empty) or a
   complete identifier <<"id", n>>; disk.items[i] is "absent" or <<"item", n>> (the store
   writes an item atomically).  A start-up is a sequence of steps, any of which may be the
   last one because the process is killed:
     token:   stat -> (absent or not well-formed: generate n, write it so that a kill never
              leaves a partial file) | (complete: adopt it)
     items:   for every enabled service: get -> (absent: generate, set) | (present: adopt)
   Deviation "token_read_back_unvalidated": the file is written in place (a kill leaves a
   prefix) and whatever is found is adopted, also an empty or truncated identifier.
   The atomic write is itself two steps - the new identifier goes to a temporary file
   (disk.tmp, which a kill can leave absent, partial or complete) and is renamed over the
   token file - and whatever an earlier start left in the temporary file is overwritten.
   Model regression only: "tmp_exclusive_create" - the temporary file is created exclusively:
   a leftover one makes persisting fail (silently), so every later start invents a new token.
   The items of ftp, smtp and ldap (Pairs) are a private key AND a certificate made from it, stored
   one after the other in transactions of their own: a kill between them leaves <<"half", n>> (the
   key without its certificate); a later start adopts the key and makes the certificate for it.
   Model regression only: "pair_only_if_both_missing" - key and certificate are generated only when
   BOTH are missing: a half-written pair is never completed and the service has no certificate.    *)
EXTENDS Integers, Sequences, FiniteSets, TLC

CONSTANTS Items, Pairs, Deviations, MaxStarts

VARIABLES disk,      \* [token, tmp, items]
          mem,       \* identity presented by the running process: [token, items] ("none" when down)
          pc,        \* "down" | "token" | "token-tmp" | "token-rename" | "items" | "up"
          enabled,   \* services enabled in this start
          fresh,     \* counter for generated values
          starts,    \* number of starts so far
          seen       \* history: sequence of [token, items, enabled] of every COMPLETED start
vars == <<disk, mem, pc, enabled, fresh, starts, seen>>

\* values are uniformly <<kind, n>> (TLC cannot compare strings with tuples)
Absent == <<"absent", 0>>
Partial == <<"partial", 0>>
None == <<"none", 0>>
NoItems == [i \in Items |-> Absent]
Init == /\ disk \in { [token |-> t, tmp |-> u, items |-> NoItems] : t \in {Absent, Partial, <<"id", 0>>}, u \in {Absent, Partial, <<"id", 50>>} }
        /\ mem = [token |-> None, items |-> NoItems] /\ pc = "down" /\ enabled = {} /\ fresh = 1
        /\ starts = 0 /\ seen = <<>>

Start(en) == /\ pc = "down" /\ starts < MaxStarts /\ en # {}
             /\ pc' = "token" /\ enabled' = en /\ starts' = starts + 1
             /\ UNCHANGED <<disk, mem, fresh, seen>>

WellFormedToken(t) == t[1] = "id"

TokenStep ==
  /\ pc = "token"
  /\ IF "token_read_back_unvalidated" \in Deviations
       THEN IF disk.token = Absent
              THEN \* create + write in place: the file exists (empty/partial) before it is complete
                   \/ (disk' = [disk EXCEPT !.token = Partial] /\ UNCHANGED <<mem, fresh, pc>>)
                   \/ (disk' = [disk EXCEPT !.token = <<"id", fresh>>] /\ mem' = [mem EXCEPT !.token = <<"id", fresh>>]
                       /\ fresh' = fresh + 1 /\ pc' = "items")
              ELSE \* adopt whatever is there
                   mem' = [mem EXCEPT !.token = disk.token] /\ pc' = "items" /\ UNCHANGED <<disk, fresh>>
       ELSE IF WellFormedToken(disk.token)
              THEN mem' = [mem EXCEPT !.token = disk.token] /\ pc' = "items" /\ UNCHANGED <<disk, fresh>>
              ELSE \* generate; persisting it takes the two steps below
                   mem' = [mem EXCEPT !.token = <<"id", fresh>>] /\ fresh' = fresh + 1 /\ pc' = "token-tmp" /\ UNCHANGED disk
  /\ UNCHANGED <<enabled, starts, seen>>

TokenTmp ==
  /\ pc = "token-tmp"
  /\ IF "tmp_exclusive_create" \in Deviations /\ disk.tmp # Absent
       THEN pc' = "items" /\ UNCHANGED disk               \* cannot create it: goes on without having persisted anything
       ELSE \/ (disk' = [disk EXCEPT !.tmp = Partial] /\ UNCHANGED pc)          \* still writing (a kill here leaves a partial file)
            \/ (disk' = [disk EXCEPT !.tmp = mem.token] /\ pc' = "token-rename")
  /\ UNCHANGED <<mem, enabled, fresh, starts, seen>>

TokenRename ==
  /\ pc = "token-rename"
  /\ disk' = [disk EXCEPT !.token = disk.tmp, !.tmp = Absent] /\ pc' = "items"
  /\ UNCHANGED <<mem, enabled, fresh, starts, seen>>

ItemStep(i) ==
  /\ pc = "items" /\ i \in enabled /\ mem.items[i] = Absent
  /\ CASE disk.items[i] = Absent /\ i \in Pairs ->
            \* the key first, in a transaction of its own
            disk' = [disk EXCEPT !.items[i] = <<"half", fresh>>] /\ fresh' = fresh + 1 /\ UNCHANGED mem
       [] disk.items[i] = Absent /\ i \notin Pairs ->
            /\ disk' = [disk EXCEPT !.items[i] = <<"item", fresh>>]
            /\ mem' = [mem EXCEPT !.items[i] = <<"item", fresh>>] /\ fresh' = fresh + 1
       [] disk.items[i][1] = "half" ->
            IF "pair_only_if_both_missing" \in Deviations
              THEN mem' = [mem EXCEPT !.items[i] = <<"broken", 0>>] /\ UNCHANGED <<disk, fresh>>
              ELSE /\ disk' = [disk EXCEPT !.items[i] = <<"item", disk.items[i][2]>>]
                   /\ mem' = [mem EXCEPT !.items[i] = <<"item", disk.items[i][2]>>] /\ UNCHANGED fresh
       [] OTHER -> mem' = [mem EXCEPT !.items[i] = disk.items[i]] /\ UNCHANGED <<disk, fresh>>
  /\ UNCHANGED <<pc, enabled, starts, seen>>

Up == /\ pc = "items" /\ \A i \in enabled : mem.items[i] # Absent
      /\ pc' = "up" /\ seen' = Append(seen, [token |-> mem.token, items |-> mem.items, enabled |-> enabled])
      /\ UNCHANGED <<disk, mem, enabled, fresh, starts>>

\* the process is killed (any time) or stopped: memory is lost, the disk stays
Kill == /\ pc # "down"
        /\ pc' = "down" /\ mem' = [token |-> None, items |-> NoItems]
        /\ UNCHANGED <<disk, enabled, fresh, starts, seen>>

Next == (\E en \in SUBSET Items : Start(en)) \/ TokenStep \/ TokenTmp \/ TokenRename \/ (\E i \in Items : ItemStep(i)) \/ Up \/ Kill
Spec == Init /\ [][Next]_vars

\* ---- properties -------------------------------------------------------------------
\* a completed start presents a well-formed, non-empty identity
WellFormed == \A k \in 1..Len(seen) : WellFormedToken(seen[k].token)
              /\ \A i \in seen[k].enabled : seen[k].items[i][1] = "item"
\* once a start has completed, every later completed start presents the same identity
Stable == \A a, b \in 1..Len(seen) : a < b =>
            /\ seen[a].token = seen[b].token
            /\ \A i \in seen[a].enabled \cap seen[b].enabled : seen[a].items[i] = seen[b].items[i]
=============================================================================
