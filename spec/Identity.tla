------------------------------ MODULE Identity ------------------------------
(* Sensor identity across restarts: server/options.go WithToken (token file), the load-or-
   generate-then-store items of the services (ssh host key, ftp/smtp/ldap key+certificate,
   agent key pair) kept in the process-global store (storage/storage.go).

   disk.token is "absent", a proper prefix of an identifier ("partial", incl. empty) or a
   complete identifier <<"id", n>>; disk.items[i] is "absent" or <<"item", n>> (the store
   writes an item atomically).  A start-up is a sequence of steps, any of which may be the
   last one because the process is killed:
     token:   stat -> (absent or not well-formed: generate n, write it so that a kill never
              leaves a partial file) | (complete: adopt it)
     items:   for every enabled service: get -> (absent: generate, set) | (present: adopt)
   Deviation "token_read_back_unvalidated": the file is written in place (a kill leaves a
   prefix) and whatever is found is adopted, also an empty or truncated identifier.       *)
EXTENDS Integers, Sequences, FiniteSets, TLC

CONSTANTS Items, Deviations, MaxStarts

VARIABLES disk,      \* [token, items]
          mem,       \* identity presented by the running process: [token, items] ("none" when down)
          pc,        \* "down" | "token" | "items" | "up"
          enabled,   \* services enabled in this start
          fresh,     \* counter for generated values
          starts,    \* number of starts so far
          seen       \* history: sequence of [token, items, enabled] of every COMPLETED start
vars == <<disk, mem, pc, enabled, fresh, starts, seen>>

\* values are uniformly <<kind, n>> (TLC cannot compare strings with tuples)
Absent == <<"absent", 0>>
Partial == <<"partial", 0>>
None == <<"none", 0>>
NoItems == [i \in Items |-> Absent]
Init == /\ disk \in { [token |-> t, items |-> NoItems] : t \in {Absent, Partial, <<"id", 0>>} }
        /\ mem = [token |-> None, items |-> NoItems] /\ pc = "down" /\ enabled = {} /\ fresh = 1
        /\ starts = 0 /\ seen = <<>>

Start(en) == /\ pc = "down" /\ starts < MaxStarts /\ en # {}
             /\ pc' = "token" /\ enabled' = en /\ starts' = starts + 1
             /\ UNCHANGED <<disk, mem, fresh, seen>>

WellFormedToken(t) == t[1] = "id"

TokenStep ==
  /\ pc = "token"
  /\ IF "token_read_back_unvalidated" \in Deviations
       THEN IF disk.token = Absent
              THEN \* create + write in place: the file exists (empty/partial) before it is complete
                   \/ (disk' = [disk EXCEPT !.token = Partial] /\ UNCHANGED <<mem, fresh, pc>>)
                   \/ (disk' = [disk EXCEPT !.token = <<"id", fresh>>] /\ mem' = [mem EXCEPT !.token = <<"id", fresh>>]
                       /\ fresh' = fresh + 1 /\ pc' = "items")
              ELSE \* adopt whatever is there
                   mem' = [mem EXCEPT !.token = disk.token] /\ pc' = "items" /\ UNCHANGED <<disk, fresh>>
       ELSE IF WellFormedToken(disk.token)
              THEN mem' = [mem EXCEPT !.token = disk.token] /\ pc' = "items" /\ UNCHANGED <<disk, fresh>>
              ELSE disk' = [disk EXCEPT !.token = <<"id", fresh>>] /\ mem' = [mem EXCEPT !.token = <<"id", fresh>>]
                   /\ fresh' = fresh + 1 /\ pc' = "items"
  /\ UNCHANGED <<enabled, starts, seen>>

ItemStep(i) ==
  /\ pc = "items" /\ i \in enabled /\ mem.items[i] = Absent
  /\ IF disk.items[i] = Absent
       THEN /\ disk' = [disk EXCEPT !.items[i] = <<"item", fresh>>]
            /\ mem' = [mem EXCEPT !.items[i] = <<"item", fresh>>] /\ fresh' = fresh + 1
       ELSE mem' = [mem EXCEPT !.items[i] = disk.items[i]] /\ UNCHANGED <<disk, fresh>>
  /\ UNCHANGED <<pc, enabled, starts, seen>>

Up == /\ pc = "items" /\ \A i \in enabled : mem.items[i] # Absent
      /\ pc' = "up" /\ seen' = Append(seen, [token |-> mem.token, items |-> mem.items, enabled |-> enabled])
      /\ UNCHANGED <<disk, mem, enabled, fresh, starts>>

\* the process is killed (any time) or stopped: memory is lost, the disk stays
Kill == /\ pc # "down"
        /\ pc' = "down" /\ mem' = [token |-> None, items |-> NoItems]
        /\ UNCHANGED <<disk, enabled, fresh, starts, seen>>

Next == (\E en \in SUBSET Items : Start(en)) \/ TokenStep \/ (\E i \in Items : ItemStep(i)) \/ Up \/ Kill
Spec == Init /\ [][Next]_vars

\* ---- properties -------------------------------------------------------------------
\* a completed start presents a well-formed, non-empty identity
WellFormed == \A k \in 1..Len(seen) : WellFormedToken(seen[k].token)
              /\ \A i \in seen[k].enabled : seen[k].items[i] # Absent
\* once a start has completed, every later completed start presents the same identity
Stable == \A a, b \in 1..Len(seen) : a < b =>
            /\ seen[a].token = seen[b].token
            /\ \A i \in seen[a].enabled \cap seen[b].enabled : seen[a].items[i] = seen[b].items[i]
=============================================================================
