------------------------------ MODULE MC_Bus ------------------------------
(* C06: configurations x event streams for Bus; design check and generation.       *)
EXTENDS Integers, Sequences, SequencesExt, FiniteSets, TLC, Json
CONSTANTS NFilters, Sim
VARIABLES filters, delivered, sent, k, done

MCChannels == {"a", "b", "c"}
B == INSTANCE Bus WITH Channels <- MCChannels

S(str) == str    \* strings are written as tuples of characters below
ssh == <<"s","s","h">>   ftp == <<"f","t","p">>   http == <<"h","t","t","p">>
Exprs == { [kind |-> "lit", s |-> ssh, t |-> <<>>], [kind |-> "pre", s |-> ssh, t |-> <<>>],
           [kind |-> "full", s |-> ssh, t |-> <<>>], [kind |-> "alt", s |-> ssh, t |-> ftp],
           [kind |-> "full", s |-> http, t |-> <<>>], [kind |-> "lit", s |-> <<>>, t |-> <<>>],
           [kind |-> "lit", s |-> <<"t","p">>, t |-> <<>>] }
ExprLists == { <<>> } \cup { <<e>> : e \in Exprs }
             \cup { << [kind |-> "full", s |-> ftp, t |-> <<>>], [kind |-> "pre", s |-> ssh, t |-> <<>>] >>,
                    << [kind |-> "full", s |-> http, t |-> <<>>], [kind |-> "lit", s |-> <<"x">>, t |-> <<>>] >> }
ChanLists == { <<"a">>, <<"b">>, <<"c">>, <<"a", "b">>, <<"b", "a">>, <<"a", "a">>, <<"nosuch">>, <<"nosuch", "b">>, <<>> }
Filters == { [channels |-> c, cats |-> x, svcs |-> y] : c \in ChanLists, x \in ExprLists, y \in ExprLists }

Vals == { [k |-> "str", v |-> ssh], [k |-> "str", v |-> <<"x">> \o ssh], [k |-> "str", v |-> ssh \o <<"x">>],
          [k |-> "str", v |-> ftp], [k |-> "str", v |-> http], [k |-> "str", v |-> <<>>],
          [k |-> "missing", v |-> <<>>], [k |-> "int", v |-> <<>>] }
\* the event stream sent to every configuration: every (category, service) pair of the alphabet once
Pairs == SetToSeq({ <<c, s>> : c \in Vals, s \in Vals })
Events == [i \in 1..Len(Pairs) |-> [id |-> i, cat |-> Pairs[i][1], svc |-> Pairs[i][2]]]

RandomFilter(x) == [channels |-> RandomElement(ChanLists), cats |-> RandomElement(ExprLists), svcs |-> RandomElement(ExprLists)]

Init == /\ filters = <<>> /\ delivered = [c \in MCChannels |-> <<>>] /\ sent = <<>> /\ k = 0 /\ done = FALSE
AddFilter == /\ ~done /\ k = 0 /\ Len(filters) < NFilters
             /\ IF Sim THEN filters' = Append(filters, RandomFilter(filters))
                       ELSE \E f \in Filters : filters' = Append(filters, f)
             /\ UNCHANGED <<delivered, sent, k, done>>
Begin == /\ ~done /\ k = 0 /\ (Sim => Len(filters) = NFilters) /\ k' = 1 /\ UNCHANGED <<filters, delivered, sent, done>>
SendNext == /\ ~done /\ k >= 1 /\ k <= Len(Events)
            /\ B!Send(Events[k]) /\ k' = k + 1 /\ UNCHANGED done
Emit == /\ ~done /\ k > Len(Events)
        /\ PrintT(<<"SCN", ToJson([filters |-> filters, delivered |-> delivered,
                                   \* the (constant) stream is printed once, with the empty configuration
                                   events |-> IF filters = <<>> THEN Events ELSE <<>>])>>)
        /\ done' = TRUE /\ UNCHANGED <<filters, delivered, sent, k>>
Next == AddFilter \/ Begin \/ SendNext \/ Emit
Spec == Init /\ [][Next]_<<filters, delivered, sent, k, done>>

\* checked when the stream is complete (the invariants are prefix-closed, the last state implies the rest)
Inv == (k > Len(Events)) => (B!ExactlyAdmitted /\ B!OrderPreserved /\ B!ChannelIndependence)
=============================================================================
