-------------------------- MODULE CanaryTCP_Trace --------------------------
(* Trace validation for C14: every client frame injected into the real listener, together
   with the frames the listener emitted in reaction (decoded and checksum-verified by the
   harness's own decoder, numbers made relative), must be a step of CanaryTCP.          *)
EXTENDS Integers, Sequences, FiniteSets, TLC, Json
VARIABLES st, rcvd, finSeen, lastSeq, l
Trace == ndJsonDeserialize("trace.ndjson")
TConns == 1..4
C == INSTANCE CanaryTCP WITH Conns <- TConns

Init == C!Init /\ l = 1 /\ TLCSet(1, 1)
Is(k) == l <= Len(Trace) /\ Trace[l].k = k /\ l' = l + 1
Reset == Is("reset") /\ st' = [c \in TConns |-> "closed"] /\ rcvd' = [c \in TConns |-> 0]
         /\ finSeen' = [c \in TConns |-> FALSE] /\ lastSeq' = [c \in TConns |-> 0]
Syn == Is("syn") /\ C!Syn(Trace[l].c, Trace[l].emitted)
Ack == Is("ack") /\ C!Ack(Trace[l].c, Trace[l].emitted)
Data == Is("data") /\ C!Data(Trace[l].c, Trace[l].n, Trace[l].emitted)
Fin == Is("fin") /\ C!Fin(Trace[l].c, Trace[l].n, Trace[l].emitted)
Rst == Is("rst") /\ C!Rst(Trace[l].c, Trace[l].emitted)
Next == Reset \/ Syn \/ Ack \/ Data \/ Fin \/ Rst
Spec == Init /\ [][Next]_<<st, rcvd, finSeen, lastSeq, l>>
HighWater == TLCSet(1, IF TLCGet(1) < l THEN l ELSE TLCGet(1))
Accepted == TLCGet(1) = Len(Trace) + 1 \/ (PrintT(<<"REJECTED_AT", TLCGet(1)>>) /\ FALSE)
Inv == C!TypeOK
=============================================================================
