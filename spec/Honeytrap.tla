----------------------------- MODULE Honeytrap -----------------------------
(* The whole server, composed: a configuration (port table, services, filters, channels) is wired by
   Run; a connection arriving on a configured address is routed to ONE service (DispatchRule!Rule on the
   client's first segment); the service emits events for it; every event carries the connection's
   addresses and the sensor token and goes through the bus to the channels whose filters admit it
   (Bus!Fanout: once per admitting filter and occurrence of the channel's name, in subscription order).

   Composition of DispatchRule (routing) and Bus (fan-out); services are abstracted to "emits events of
   its own category for its own connections" - the per-protocol content of events is the business of
   Framing / Sessions / Auth.  The module is also the specification whole-server traces are validated
   against (Honeytrap_Trace): the real server with real services, the real bus and real channels.        *)
EXTENDS Integers, Sequences, FiniteSets, TLC, DispatchRule

CONSTANTS Channels,     \* configured channel names
          Entries,      \* [[port]] entries in configuration order: [proto, ip, port, svcs : Seq([name, det])]
          CatOf,        \* service name -> category of the events it emits
          Token

VARIABLES FilterCfg,    \* [[filter]] sections in order: [channels : Seq(name), cats : Seq(expr), svcs : Seq(expr)]
                        \* (fixed for a behaviour; a variable so that a model can draw it in its initial state)
          conns,        \* accepted connections in order: [c : [proto, ip, port, first, src], svc : chosen service | "none"]
          sent,         \* events put on the bus, in order: [id, conn, cat, svc (field), src, token, fatal]
          panicked,     \* connections whose handler panicked (recovered by the server: the connection is over)
          beat,         \* number of heartbeat events sent so far (one every 30 s, sequence numbers 0, 1, 2, ...)
          delivered     \* delivered[ch]: ids in arrival order (maintained by Bus!Fanout)
vars == <<FilterCfg, conns, sent, panicked, beat, delivered>>

B == INSTANCE Bus WITH filters <- FilterCfg

Init(fs) == FilterCfg = fs /\ conns = <<>> /\ sent = <<>> /\ panicked = {} /\ beat = 0 /\ delivered = [c \in Channels |-> <<>>]

\* a client connects and sends its first segment: the first configured service that accepts it gets the connection
Accept(c) ==
  /\ conns' = Append(conns, [c |-> c, svc |-> Rule(Candidates(Table(Entries), c), c.first)])
  /\ UNCHANGED <<FilterCfg, sent, panicked, beat, delivered>>

\* the service serving connection k emits an event (field "service" is whatever the service sets: most set none)
Emit(k, svcField) ==
  /\ k \in 1..Len(conns) /\ conns[k].svc # "none" /\ k \notin panicked
  /\ LET ev == [id |-> Len(sent) + 1, conn |-> k, cat |-> [k |-> "str", v |-> CatOf[conns[k].svc]], svc |-> svcField,
                src |-> conns[k].c.src, token |-> Token, fatal |-> FALSE, seq |-> -1]
     IN /\ sent' = Append(sent, ev)
        /\ delivered' = B!Fanout(B!Subs(FilterCfg), ev, delivered)
  /\ UNCHANGED <<FilterCfg, conns, panicked, beat>>

\* the handler of connection k panics: the server recovers, reports ONE event of fatal severity with the connection's
\* addresses (it has neither category nor service field) and closes the connection; nothing else is affected
Panic(k) ==
  /\ k \in 1..Len(conns) /\ conns[k].svc # "none" /\ k \notin panicked
  /\ LET ev == [id |-> Len(sent) + 1, conn |-> k, cat |-> [k |-> "missing"], svc |-> [k |-> "missing"],
                src |-> conns[k].c.src, token |-> Token, fatal |-> TRUE, seq |-> -1]
     IN /\ sent' = Append(sent, ev)
        /\ delivered' = B!Fanout(B!Subs(FilterCfg), ev, delivered)
  /\ panicked' = panicked \cup {k}
  /\ UNCHANGED <<FilterCfg, conns, beat>>

\* the sensor's own sign of life: category "heartbeat", no connection, sequence number = number of earlier heartbeats;
\* it goes through the same filters as every other event
Heartbeat ==
  /\ LET ev == [id |-> Len(sent) + 1, conn |-> 0, cat |-> [k |-> "str", v |-> <<"h","e","a","r","t","b","e","a","t">>], svc |-> [k |-> "missing"],
                src |-> "", token |-> Token, fatal |-> FALSE, seq |-> beat]
     IN /\ sent' = Append(sent, ev)
        /\ delivered' = B!Fanout(B!Subs(FilterCfg), ev, delivered)
  /\ beat' = beat + 1
  /\ UNCHANGED <<FilterCfg, conns, panicked>>

\* ---- properties ---------------------------------------------------------------------------
\* routing and fan-out compose: every channel holds exactly what its filters admit, in order (Bus's properties
\* on the composed state)
ExactlyAdmitted == B!ExactlyAdmitted
OrderPreserved == B!OrderPreserved
\* an event names the connection that caused it: its source is that connection's, its category the category of
\* the service the routing rule chose for that connection, and it carries the token
Attributed == \A n \in 1..Len(sent) : sent[n].conn # 0 =>
                LET ev == sent[n] k == ev.conn IN
                /\ k \in 1..Len(conns) /\ conns[k].svc # "none"
                /\ ev.src = conns[k].c.src
                /\ (~ev.fatal => ev.cat.v = CatOf[Rule(Candidates(Table(Entries), conns[k].c), conns[k].c.first)])
                /\ ev.token = Token
\* a recovered panic is reported exactly once, and it is the last thing reported for its connection
OneFatalPerPanic == \A k \in 1..Len(conns) :
                      LET idx == { n \in 1..Len(sent) : sent[n].conn = k /\ sent[n].fatal } IN
                      /\ Cardinality(idx) = (IF k \in panicked THEN 1 ELSE 0)
                      /\ \A n \in idx : ~\E m \in (n + 1)..Len(sent) : sent[m].conn = k
\* heartbeats are numbered 0, 1, 2, ... in the order they are sent
HeartbeatsNumbered == LET hb == SelectSeq(sent, LAMBDA e : e.conn = 0) IN \A i \in 1..Len(hb) : hb[i].seq = i - 1
\* a connection nobody accepts produces nothing
SilentIfUnrouted == \A k \in 1..Len(conns) : conns[k].svc = "none" => ~\E n \in 1..Len(sent) : sent[n].conn = k
=============================================================================
