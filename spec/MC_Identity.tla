----------------------------- MODULE MC_Identity -----------------------------
EXTENDS Integers, Sequences, FiniteSets, TLC
CONSTANTS Devs
VARIABLES disk, mem, pc, enabled, fresh, starts, seen
INSTANCE Identity WITH Items <- {"ssh", "ftp"}, Pairs <- {"ftp"}, Deviations <- Devs, MaxStarts <- 3
=============================================================================
