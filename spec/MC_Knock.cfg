SPECIFICATION Spec
CONSTANT Devs = {}
CONSTANT NProbes = 3
CONSTANT Sim = FALSE
INVARIANT Inv
CHECK_DEADLOCK FALSE
