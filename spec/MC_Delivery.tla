---------------------------- MODULE MC_Delivery ----------------------------
(* Design check of Delivery and generation of delivery schedules: a schedule is the order in
   which the clients send and the number of datagrams in flight before any service reads
   (1 = lock step ... N = all back to back).  The real listener cannot be steered step by
   step without hooks; the harness realises a schedule by sending groups of `inflight`
   datagrams back to back to services that start reading late.                          *)
EXTENDS Integers, Sequences, FiniteSets, TLC, Json

CONSTANTS Dev    \* TRUE: model regression with the shared receive buffer
VARIABLES queue, sent, bufs, alias, got, nbuf, hist, done

Dgs == {"d1", "d2", "d3"}
D == INSTANCE Delivery WITH Datagrams <- Dgs, Deviations <- IF Dev THEN {"shared_receive_buffer"} ELSE {}

Init == D!Init /\ hist = <<>> /\ done = FALSE
Step == /\ ~done
        /\ \/ \E d \in Dgs : D!Send(d) /\ hist' = Append(hist, <<"send", d>>)
           \/ D!Recv /\ hist' = hist
           \/ \E d \in Dgs : D!Read(d) /\ hist' = Append(hist, <<"read", d>>)
        /\ UNCHANGED done
AllRead == \A d \in Dgs : got[d] # ""
InFlight(h) == LET RECURSIVE Mx(_, _, _)
                   Mx(i, cur, best) == IF i > Len(h) THEN best
                                       ELSE LET c == IF h[i][1] = "send" THEN cur + 1 ELSE cur - 1
                                            IN Mx(i + 1, c, IF c > best THEN c ELSE best)
               IN Mx(1, 0, 0)
Emit == /\ ~done /\ AllRead
        /\ PrintT(<<"SCN", ToJson([order |-> [i \in 1..3 |-> SelectSeq(hist, LAMBDA e : e[1] = "send")[i][2]],
                                   inflight |-> InFlight(hist)])>>)
        /\ done' = TRUE /\ UNCHANGED <<queue, sent, bufs, alias, got, nbuf, hist>>
Next == Step \/ Emit
vars == <<queue, sent, bufs, alias, got, nbuf, hist, done>>
Spec == Init /\ [][Next]_vars /\ WF_vars(Step)
View == <<queue, sent, bufs, alias, got, nbuf, done, hist>>
Inv == D!TypeOK /\ D!StreamIntact /\ D!NoAliasing
Served == \A d \in Dgs : (d \in sent) ~> (got[d] # "")
=============================================================================
