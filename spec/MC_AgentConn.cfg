SPECIFICATION Spec
CONSTANT MCCap = 1
CONSTANT MCRecheck = TRUE
CONSTANT MCChunks = 3
INVARIANTS NoStall InOrder NoLoss
PROPERTY Delivered
CHECK_DEADLOCK FALSE
