SPECIFICATION Spec
CONSTANT NFilters = 1
CONSTANT Sim = FALSE
INVARIANT Inv
CHECK_DEADLOCK FALSE
