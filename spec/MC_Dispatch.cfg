SPECIFICATION Spec
CONSTANT Mode = "single"
INVARIANT Inv
CHECK_DEADLOCK FALSE
