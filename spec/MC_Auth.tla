------------------------------ MODULE MC_Auth ------------------------------
(* C12: credential sets x attempt sequences with gated probes; design check + generation. *)
EXTENDS Integers, Sequences, FiniteSets, TLC, Json
CONSTANTS Svc, MaxCreds, MaxSteps, Sim
VARIABLES creds, wildcard, loggedIn, events, last, hist, done

\* ssh: configurable set + wildcard; ldap: configurable set, anonymous bind answered with success but not
\* a login; ftp: the built-in set {anonymous:anonymous} (USER/PASS require a non-empty parameter)
MCUsers == IF Svc = "ftp" THEN {"anonymous", "root", "admin"} ELSE {"root", "admin", "guest", ""}
MCPasswords == IF Svc = "ftp" THEN {"anonymous", "root", "x"} ELSE {"root", "admin", "123456", ""}
MCAnon == Svc = "ldap"
A == INSTANCE Auth WITH Users <- MCUsers, Passwords <- MCPasswords, Anon <- MCAnon

Pairs == MCUsers \X MCPasswords
CredSets == IF Svc = "ftp" THEN { { <<"anonymous", "anonymous">> } }
            ELSE { s \in SUBSET Pairs : Cardinality(s) <= MaxCreds }
Wild == IF Svc = "ssh" THEN BOOLEAN ELSE {FALSE}

Init == /\ \E cs \in CredSets, w \in Wild : A!Init(cs, w)    \* -simulate picks one initial state per behaviour
        /\ hist = <<>> /\ done = FALSE

Do(step) == /\ ~done /\ Len(hist) < MaxSteps
            /\ step
            /\ hist' = Append(hist, [a |-> last'.a, ok |-> last'.ok,
                                     user |-> IF last'.a = "attempt" THEN events'[Len(events')].user ELSE "",
                                     password |-> IF last'.a = "attempt" THEN events'[Len(events')].password ELSE ""])
            /\ UNCHANGED done
Emit == /\ ~done /\ Len(hist) = MaxSteps
        /\ PrintT(<<"SCN", ToJson([creds |-> creds, wildcard |-> wildcard, steps |-> hist])>>)
        /\ done' = TRUE /\ UNCHANGED <<creds, wildcard, loggedIn, events, last, hist>>
Next == \/ \E u \in MCUsers, p \in MCPasswords : Do(A!Attempt(u, p))
        \/ Do(A!Gated) \/ Do(A!Reconnect) \/ Emit
Spec == Init /\ [][Next]_<<creds, wildcard, loggedIn, events, last, hist, done>>
P1 == A!SuccessIffConfigured
P2 == A!GateHolds
P3 == A!EveryAttemptLogged
=============================================================================
