---------------------------- MODULE MC_AgentMux ----------------------------
(* C16: message sequences for 1..3 multiplexed connections; the scenario printed lists the
   agent's messages in order with, at the end, what every connection's service must have read
   and what the agent must have received back, per connection.                          *)
EXTENDS Integers, Sequences, FiniteSets, TLC, Json
CONSTANTS Devs, NKeys, MaxMsgs
VARIABLES table, gen, delivered, echoed, ended, hist, sentTo

MCKeys == 1..NKeys
A == INSTANCE AgentMux WITH Keys <- MCKeys, Deviations <- Devs

Init == A!Init /\ hist = <<>> /\ sentTo = [k \in MCKeys |-> <<>>]
Announced(k) == gen[k] > 0
Live(k) == A!Lookup(k) # 0

Gone == hist # <<>> /\ hist[Len(hist)].m = "disconnect"
Msg ==
  /\ Len(hist) < MaxMsgs /\ ~Gone
  /\ \/ \E k \in MCKeys : /\ (IF Live(k) THEN ~table[A!Lookup(k)].open ELSE TRUE) /\ gen[k] < 2 /\ A!Hello(k)
                          /\ hist' = Append(hist, [m |-> "hello", k |-> k, n |-> 0]) /\ sentTo' = [sentTo EXCEPT ![k] = <<>>]
     \/ \E k \in MCKeys : /\ Announced(k) /\ LET n == Len(hist) + 1 IN
                             /\ A!Data(k, [k |-> k, n |-> n])
                             /\ hist' = Append(hist, [m |-> "data", k |-> k, n |-> n])
                             /\ sentTo' = [sentTo EXCEPT ![k] = IF Live(k) THEN Append(@, [k |-> k, n |-> n]) ELSE @]
     \/ \E k \in MCKeys : /\ Live(k) /\ A!Eof(k)
                          /\ hist' = Append(hist, [m |-> "eof", k |-> k, n |-> 0]) /\ UNCHANGED sentTo
     \* a chunk that makes the (echo) service close its side after answering: Data followed by SvcClose
     \/ \E k \in MCKeys : /\ Live(k) /\ table[A!Lookup(k)].open /\ table[A!Lookup(k)].gen = gen[k]
                          /\ LET n == Len(hist) + 1 c == [k |-> k, n |-> n] IN
                             /\ delivered' = [delivered EXCEPT ![k] = Append(@, c)]
                             /\ echoed' = [echoed EXCEPT ![k] = Append(@, c)]
                             /\ table' = [table EXCEPT ![A!Lookup(k)].open = FALSE]
                             /\ UNCHANGED <<gen, ended>>
                             /\ hist' = Append(hist, [m |-> "quit", k |-> k, n |-> n])
                             /\ sentTo' = [sentTo EXCEPT ![k] = Append(@, c)]
     \* the agent goes away: every connection still in the table ends, nothing else can follow
     \/ /\ Len(hist) >= 1 /\ A!Disconnect
        /\ hist' = Append(hist, [m |-> "disconnect", k |-> 0, n |-> 0]) /\ UNCHANGED sentTo
\* ends[k]: the service of the latest announcement of k has seen the end of its stream (EOF message or disconnect)
Emit == /\ Len(hist) >= 2
        /\ PrintT(<<"SCN", ToJson([msgs |-> hist, delivered |-> delivered, echoed |-> echoed,
                                   ends |-> [k \in MCKeys |-> gen[k] > 0 /\ <<k, gen[k]>> \in ended]])>>)
        /\ UNCHANGED <<table, gen, delivered, echoed, ended, hist, sentTo>>
Next == Msg \/ Emit
Spec == Init /\ [][Next]_<<table, gen, delivered, echoed, ended, hist, sentTo>>

\* in order, exactly once, only on that connection: what the current generation's service read is what
\* the agent sent to it while it was open
InOrderExactlyOnce == \A k \in MCKeys : \A i \in 1..Len(delivered[k]) : delivered[k][i].k = k
Isolation == \A k \in MCKeys : \A i \in 1..Len(echoed[k]) : echoed[k][i].k = k
\* a connection announced and neither ended nor closed by its service since has received everything sent to it
OpenSince(k) == \E i \in 1..Len(hist) : /\ hist[i].m = "hello" /\ hist[i].k = k
                                        /\ \A j \in (i + 1)..Len(hist) : hist[j].k = k => hist[j].m = "data"
NoLossWhileOpen == \A k \in MCKeys : OpenSince(k) => delivered[k] = sentTo[k]
\* the agent disconnecting ends exactly the connections that were still in the table, all of them
AllEndedWhenGone == Gone => /\ table = <<>>
                            /\ \A k \in MCKeys : gen[k] > 0 => <<k, gen[k]>> \in ended
Inv == InOrderExactlyOnce /\ Isolation /\ NoLossWhileOpen /\ AllEndedWhenGone
=============================================================================
