SPECIFICATION Spec
CONSTRAINT HighWater
POSTCONDITION Accepted
CHECK_DEADLOCK FALSE
