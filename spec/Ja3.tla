-------------------------------- MODULE Ja3 --------------------------------
(* The JA3 fingerprint of a TLS ClientHello as the JA3 specification defines it, and as
   services/ja3/crypto/tls (ClientHelloInfo.JA3, the hello unmarshaller) and
   services/https.go are meant to record it.

   hello == [vers, ciphers : Seq(Nat), exts : Seq(Nat) (extension types in wire order),
             groups : Seq(Nat), points : Seq(Nat), sni : STRING]
   JA3 = "SSLVersion,Ciphers,Extensions,EllipticCurves,EllipticCurvePointFormats", each list
   in wire order, values in decimal joined by "-", GREASE values (0x?a?a with equal bytes)
   left out of ciphers, extensions and curves.                                          *)
EXTENDS Integers, Sequences, TLC

Grease == { 2570 + 4112 * k : k \in 0..15 }        \* 0x0a0a, 0x1a1a, ... 0xfafa
IsGrease(v) == v \in Grease
NoGrease(s) == SelectSeq(s, LAMBDA v : ~IsGrease(v))

RECURSIVE Join(_)
Join(s) == IF s = <<>> THEN ""
           ELSE IF Len(s) = 1 THEN ToString(s[1])
           ELSE ToString(s[1]) \o "-" \o Join(Tail(s))

Ja3String(h) == ToString(h.vers) \o "," \o Join(NoGrease(h.ciphers)) \o "," \o Join(NoGrease(h.exts))
                \o "," \o Join(NoGrease(h.groups)) \o "," \o Join(h.points)

\* replacing every GREASE value by another GREASE value must not change the fingerprint
OtherGrease(v) == IF IsGrease(v) THEN (IF v = 64250 THEN 2570 ELSE v + 4112) ELSE v
Regrease(h) == [h EXCEPT !.ciphers = [i \in 1..Len(h.ciphers) |-> OtherGrease(h.ciphers[i])],
                         !.exts = [i \in 1..Len(h.exts) |-> OtherGrease(h.exts[i])],
                         !.groups = [i \in 1..Len(h.groups) |-> OtherGrease(h.groups[i])]]
GreaseInvariant(h) == Ja3String(Regrease(h)) = Ja3String(h)
\* order matters: swapping two different non-GREASE ciphers changes the fingerprint
OrderSensitive(h) ==
  (Len(h.ciphers) >= 2 /\ h.ciphers[1] # h.ciphers[2] /\ ~IsGrease(h.ciphers[1]) /\ ~IsGrease(h.ciphers[2]))
    => Ja3String([h EXCEPT !.ciphers = <<h.ciphers[2], h.ciphers[1]>> \o SubSeq(h.ciphers, 3, Len(h.ciphers))]) # Ja3String(h)
=============================================================================
