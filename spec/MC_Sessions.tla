---------------------------- MODULE MC_Sessions ----------------------------
(* C03: all interleavings, at request/response granularity, of K scripted sessions on one
   service object.  The protocol is the free one (state = own history), so the scripts
   are just lengths; the orchestrator maps step k of connection c to the k-th request of
   the per-service script table and compares what the real server answers with what the
   same script gets when it runs alone (= Solo(c)).                                     *)
EXTENDS Integers, Sequences, FiniteSets, TLC, Json
CONSTANTS K, N, Devs     \* K connections with N requests each (incl. open and close)
VARIABLES pc, st, shared, outs, order

MCConns == 1..K
FreeInit == <<>>
FreeStep(s, req) == [st |-> Append(s, req), out |-> Append(s, req)]
MCScript == [c \in MCConns |-> [i \in 1..N |-> <<c, i>>]]

S == INSTANCE Sessions WITH Conns <- MCConns, Script <- MCScript, PInit <- FreeInit, PStep <- FreeStep,
                            Deviations <- Devs

Done == \A c \in MCConns : pc[c] = N
Emit == /\ Done /\ PrintT(<<"SCN", ToJson([order |-> order])>>) /\ UNCHANGED <<pc, st, shared, outs, order>>
Next == S!Next \/ Emit
Spec == S!Init /\ [][Next]_<<pc, st, shared, outs, order>>
Inv == S!NonInterference
=============================================================================
