------------------------------- MODULE MC_Ja3 -------------------------------
(* C13: structural generator of well-formed ClientHellos; every generated hello is printed with
   the JA3 string the specification gives it.                                            *)
EXTENDS Integers, Sequences, FiniteSets, TLC, Json
CONSTANTS Sim, MaxC, MaxE
VARIABLES h, done
J == INSTANCE Ja3

\* value pools: registered values, all 16 GREASE values (0x0a0a .. 0xfafa), and values that only look like
\* GREASE (both low nibbles 0xa but different bytes: 0x1a2a, 0x0a1a, 0xfa0a, 0x0afa; neighbours 0x0a0b, 0x0a09)
GreaseAll == { 2570 + 4112 * k : k \in 0..15 }
NearGrease == {6698, 2586, 64010, 2810, 2571, 2569, 10794}
Ciphers == {47, 49195, 255, 4865, 49199} \cup GreaseAll \cup NearGrease
ExtTypes == {0, 10, 11, 23, 35, 4660, 65281, 16} \cup GreaseAll \cup NearGrease
Groups == {23, 24, 29} \cup GreaseAll \cup NearGrease
\* one value in four is drawn from the whole 16-bit range (extension types: from the unassigned range, so that the
\* TLS stack does not try to parse a body)
AnyOf(S, lo, hi) == IF RandomElement(1..4) = 1 THEN RandomElement(lo..hi) ELSE RandomElement(S)
RECURSIVE SeqsUpTo(_, _)
SeqsUpTo(S, n) == IF n = 0 THEN { <<>> } ELSE LET p == SeqsUpTo(S, n - 1) IN
                  p \cup { Append(s, x) : s \in { y \in p : Len(y) = n - 1 }, x \in S }
\* the two extensions whose bodies JA3 reads, and the server name, occur at most once
ExtOK(e) == \A t \in {0, 10, 11} : Cardinality({ i \in 1..Len(e) : e[i] = t }) <= 1
Has(e, t) == \E i \in 1..Len(e) : e[i] = t

RECURSIVE RandSeq(_, _, _)
RandSeq(S, n, salt) == IF n = 0 THEN <<>> ELSE <<RandomElement(S)>> \o RandSeq(S, n - 1, salt)
RECURSIVE RandSeqAny(_, _, _, _, _)
RandSeqAny(S, lo, hi, n, salt) == IF n = 0 THEN <<>> ELSE <<AnyOf(S, lo, hi)>> \o RandSeqAny(S, lo, hi, n - 1, salt)
RandomHello(salt) ==
  LET e0 == RandSeqAny(ExtTypes, 256, 65000, RandomElement(0..MaxE), salt)
      \* drop repeated occurrences of 0 / 10 / 11
      e == SelectSeq([i \in 1..Len(e0) |-> IF e0[i] \in {0, 10, 11} /\ \E j \in 1..(i - 1) : e0[j] = e0[i] THEN -1 ELSE e0[i]], LAMBDA x : x >= 0)
  IN [vers |-> RandomElement({768, 769, 770, 771}),
      ciphers |-> RandSeqAny(Ciphers, 1, 65535, RandomElement(1..MaxC), salt),
      exts |-> e,
      groups |-> IF Has(e, 10) THEN RandSeqAny(Groups, 1, 65535, RandomElement(0..3), salt) ELSE <<>>,
      points |-> IF Has(e, 11) THEN RandSeq({0, 1, 2}, RandomElement(0..3), salt) ELSE <<>>,
      sni |-> IF Has(e, 0) THEN RandomElement({"a.example", "b.example"}) ELSE ""]

Exhaustive == { [vers |-> v, ciphers |-> c, exts |-> e, groups |-> g, points |-> p, sni |-> IF Has(e, 0) THEN "a.example" ELSE ""] :
                v \in {769, 771}, c \in SeqsUpTo({47, 49195, 2570, 64250, 6698}, 2) \ {<<>>},
                e \in { x \in SeqsUpTo({0, 10, 11, 23, 2570, 2586}, 2) : ExtOK(x) },
                g \in { <<>>, <<23>>, <<2570, 29>>, <<64010, 29>> }, p \in { <<>>, <<0>>, <<1, 0>> } }
Legal(x) == (Has(x.exts, 10) \/ x.groups = <<>>) /\ (Has(x.exts, 11) \/ x.points = <<>>)

Init == h = [vers |-> 0, ciphers |-> <<>>, exts |-> <<>>, groups |-> <<>>, points |-> <<>>, sni |-> ""] /\ done = FALSE
Pick == /\ ~done
        /\ IF Sim THEN h' = RandomHello(h) ELSE \E x \in { y \in Exhaustive : Legal(y) } : h' = x
        /\ PrintT(<<"SCN", ToJson([hello |-> h', ja3 |-> J!Ja3String(h')])>>)
        /\ done' = TRUE
Next == Pick
Spec == Init /\ [][Next]_<<h, done>>
Inv == done => (J!GreaseInvariant(h) /\ J!OrderSensitive(h))
=============================================================================
