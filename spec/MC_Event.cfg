SPECIFICATION Spec
CONSTANT MaxKeys = 5
PROPERTY Props
CHECK_DEADLOCK FALSE
