------------------------------ MODULE Event ------------------------------
(* event/event.go, event/map.go: an event is a key -> value store; options write keys.
   Values are [t |-> "s", s |-> string] or [t |-> "i", i |-> integer].
   Bytes are sequences of 0..255.                                                     *)
EXTENDS Integers, Sequences, FiniteSets, TLC

HexDigit == <<"0","1","2","3","4","5","6","7","8","9","a","b","c","d","e","f">>
HexByte(b) == HexDigit[(b \div 16) + 1] \o HexDigit[(b % 16) + 1]
RECURSIVE Hex(_)
Hex(bs) == IF bs = <<>> THEN "" ELSE HexByte(Head(bs)) \o Hex(Tail(bs))

S(x) == [t |-> "s", s |-> x, i |-> 0]
I(n) == [t |-> "i", s |-> "", i |-> n]

VARIABLE kv        \* function: set of keys -> value
Keys == DOMAIN kv

Put(m, k, v) == [x \in (DOMAIN m) \cup {k} |-> IF x = k THEN v ELSE m[x]]

Init == kv = <<>>     \* the empty function ("date" is always present in the code and ignored here)

Custom(k, v) == kv' = Put(kv, k, v)
\* Payload stores the length and the hex of exactly the bytes given ("payload" itself, the raw
\* string, is compared by the harness; it is not representable as a TLA+ string for arbitrary bytes)
Payload(bs) == kv' = Put(Put(kv, "payload-hex", S(Hex(bs))), "payload-length", I(Len(bs)))
\* addr == [net \in {"tcp","udp","other"}, ip, port]
SourceAddr(a) == kv' = IF a.net \in {"tcp", "udp"} THEN Put(Put(kv, "source-ip", S(a.ip)), "source-port", I(a.port)) ELSE kv
DestinationAddr(a) == kv' = IF a.net \in {"tcp", "udp"} THEN Put(Put(kv, "destination-ip", S(a.ip)), "destination-port", I(a.port)) ELSE kv
\* m : function key -> value
MergeFrom(m) == kv' = [x \in (DOMAIN kv) \cup (DOMAIN m) |-> IF x \in DOMAIN kv THEN kv[x] ELSE m[x]]
CopyFrom(m)  == kv' = [x \in (DOMAIN kv) \cup (DOMAIN m) |-> IF x \in DOMAIN m THEN m[x] ELSE kv[x]]

\* ---- properties (action properties: they relate kv and kv') ---------------------------
MergeKeeps(m)     == MergeFrom(m) => \A k \in DOMAIN kv : kv'[k] = kv[k]
CopyOverwrites(m) == CopyFrom(m) => \A k \in DOMAIN m : kv'[k] = m[k]
PayloadFidelity(bs) == Payload(bs) => (kv'["payload-hex"].s = Hex(bs) /\ kv'["payload-length"].i = Len(bs))
\* serialisation: the JSON object has exactly the keys of the event
JsonKeys == DOMAIN kv
=============================================================================
