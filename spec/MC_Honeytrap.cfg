SPECIFICATION Spec
CONSTANT Sim = FALSE
CONSTANT NFilters = 1
INVARIANT Inv
CHECK_DEADLOCK FALSE
