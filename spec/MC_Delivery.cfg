SPECIFICATION Spec
INVARIANT Inv
PROPERTY Served
CHECK_DEADLOCK FALSE
