---------------------------- MODULE MC_ConnLife ----------------------------
EXTENDS Integers, Sequences, FiniteSets, TLC
CONSTANTS Devs
VARIABLES procAlive, phase, res, idle, quiet, panics, didle, deaf
INSTANCE ConnLife WITH Conns <- {1, 2}, Deviations <- Devs, IdleTimeout <- 2
=============================================================================
