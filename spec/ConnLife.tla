----------------------------- MODULE ConnLife -----------------------------
(* Life cycle of a connection inside the server: server/honeytrap.go (accept loop,
   go handle(conn), recover, conn.Close), server/timeout_conn.go (30 s idle deadline),
   listener/udp_conn.go, and what the services start on a connection's behalf (helper
   goroutines, passive-mode listeners, descriptors).

   One process serves connections c.  A connection is opened, the client sends input (any
   bytes at all: the service's reaction is one of reply / close / recoveredPanic - a panic is
   CONFINED to the handler, reported, and ends only that connection), then the peer goes
   away (close, the single datagram consumed, or silence for the idle timeout), after which
   the handler returns and everything acquired for the connection is released.
   No action makes procAlive false; nothing is acquired without a client step.
   Deviations (the code as found):
     "unrecovered_panic"      a goroutine started by the service panics outside handle's recover
     "helper_never_exits"     a helper goroutine outlives the handler (ftp/smtp event pumps)
     "never_eof"              a drained datagram connection never reports end of input: the
                              handler spins instead of returning
     "listener_never_closed"  a passive-mode listener stays open when nobody connects
   On a port shared by several services the server itself waits for the client's first bytes
   (phase "routing": findService peeks for the payload detectors) before a service handles the
   connection; a peer that is silent or goes away there is subject to the same idle timeout.
   Model regression only: "peek_without_deadline" - the wait for the first bytes never expires.
   A service may wait on a SECOND connection opened on the first one's behalf (ftp data
   connections, passive or active): phase "transfer".  While it does, the control connection's
   idle timeout is not consulted (nothing reads it); the data connection has its own idle
   deadline (didle), after which the transfer fails and the handler reads the control
   connection again.  "transfer_without_deadline" (the code as found): the data connection has
   none, a peer that opens it and stays silent keeps the handler forever.
   "editor_spins" (the code as found, telnet and ssh line editors): after a particular input
   (an escape sequence longer than the editor's buffer) the handler never notices anything
   again - not the peer leaving, not the idle timeout.                                                *)
EXTENDS Integers, Sequences, FiniteSets, TLC

CONSTANTS Conns, Deviations, IdleTimeout

VARIABLES procAlive, phase, res,
          idle,        \* idle[c]: time since connection c last sent something, capped at IdleTimeout
          quiet,       \* quiet[c]: the client has decided to send nothing more (it stays connected)
          panics,
          didle,       \* didle[c]: time since the data connection of c last carried something (phase "transfer")
          deaf         \* deaf[c]: the handler has stopped looking at its connection ("editor_spins")
vars == <<procAlive, phase, res, idle, quiet, panics, didle, deaf>>

Kinds == {"handler", "helper", "listener", "fd"}
Init == /\ procAlive = TRUE /\ phase = [c \in Conns |-> "idle"] /\ res = [c \in Conns |-> {}]
        /\ idle = [c \in Conns |-> 0] /\ quiet = [c \in Conns |-> FALSE] /\ panics = 0
        /\ didle = [c \in Conns |-> 0] /\ deaf = [c \in Conns |-> FALSE]

Open(c) == /\ procAlive /\ phase[c] = "idle"
           /\ \E ph \in {"routing", "handling"} : phase' = [phase EXCEPT ![c] = ph]
           /\ res' = [res EXCEPT ![c] = {"handler", "fd"}]
           /\ idle' = [idle EXCEPT ![c] = 0]
           /\ UNCHANGED <<procAlive, quiet, panics, didle, deaf>>

\* the client sends something; the service may acquire helpers for the connection
GoQuiet(c) == /\ phase[c] \in {"routing", "handling", "transfer"} /\ ~quiet[c]
              /\ quiet' = [quiet EXCEPT ![c] = TRUE]
              /\ UNCHANGED <<procAlive, phase, res, idle, panics, didle, deaf>>

Input(c) == /\ procAlive /\ phase[c] \in {"routing", "handling"} /\ ~quiet[c]
            /\ idle' = [idle EXCEPT ![c] = 0]
            /\ IF phase[c] = "routing"
                 THEN \* the first bytes: a service is chosen (or nobody accepts: the connection is closed and released)
                      \/ phase' = [phase EXCEPT ![c] = "handling"] /\ UNCHANGED res
                      \/ phase' = [phase EXCEPT ![c] = "returned"] /\ res' = [res EXCEPT ![c] = {}]
                 ELSE /\ \E extra \in SUBSET {"helper", "listener"} : res' = [res EXCEPT ![c] = @ \cup extra]
                      /\ UNCHANGED phase
            /\ deaf' = [deaf EXCEPT ![c] = @ \/ (phase[c] = "handling" /\ "editor_spins" \in Deviations)]
            /\ UNCHANGED <<procAlive, quiet, panics, didle>>

\* the client has a data connection opened and asks for a transfer: the handler now waits on that connection
StartTransfer(c) == /\ procAlive /\ phase[c] = "handling" /\ ~quiet[c] /\ ~deaf[c]
                    /\ phase' = [phase EXCEPT ![c] = "transfer"]
                    /\ res' = [res EXCEPT ![c] = @ \cup {"datafd"}]
                    /\ didle' = [didle EXCEPT ![c] = 0]
                    /\ UNCHANGED <<procAlive, idle, quiet, panics, deaf>>
\* data moves
DataInput(c) == /\ phase[c] = "transfer" /\ ~quiet[c]
                /\ didle' = [didle EXCEPT ![c] = 0]
                /\ UNCHANGED <<procAlive, phase, res, idle, quiet, panics, deaf>>
\* the transfer ends (complete, the peer closed the data connection, or it stayed idle for too long): the data connection is
\* released and the handler reads the control connection again, whose idle time starts anew
EndTransfer(c) == /\ phase' = [phase EXCEPT ![c] = "handling"]
                  /\ res' = [res EXCEPT ![c] = @ \ {"datafd"}]
                  /\ idle' = [idle EXCEPT ![c] = 0]
                  /\ UNCHANGED <<procAlive, quiet, panics, didle, deaf>>
DataDone(c) == phase[c] = "transfer" /\ ~quiet[c] /\ EndTransfer(c)
DataIdleExpire(c) == /\ phase[c] = "transfer" /\ didle[c] >= IdleTimeout
                     /\ "transfer_without_deadline" \notin Deviations
                     /\ EndTransfer(c)

\* a failure while handling: confined to the connection
Panic(c) == /\ procAlive /\ phase[c] \in {"handling", "peergone"}
            /\ IF "unrecovered_panic" \in Deviations /\ "helper" \in res[c]
                 THEN procAlive' = FALSE /\ UNCHANGED <<phase, res, panics>>
                 ELSE /\ phase' = [phase EXCEPT ![c] = "returned"] /\ res' = [res EXCEPT ![c] = {}]
                      /\ panics' = panics + 1 /\ UNCHANGED procAlive
            /\ UNCHANGED <<idle, quiet, didle, deaf>>

PeerGone(c) == /\ phase[c] \in {"routing", "handling", "transfer"}     \* (in a transfer: the peer closes both connections)
               /\ phase' = [phase EXCEPT ![c] = "peergone"]
               /\ UNCHANGED <<procAlive, res, idle, quiet, panics, didle, deaf>>

\* time passes for every connection that is waiting for its peer
Waiting(c) == phase[c] \in {"routing", "handling"}
Moving(c) == phase[c] = "transfer"
Tick == /\ \E c \in Conns : (Waiting(c) /\ idle[c] < IdleTimeout) \/ (Moving(c) /\ didle[c] < IdleTimeout)
        /\ idle' = [c \in Conns |-> IF Waiting(c) /\ idle[c] < IdleTimeout THEN idle[c] + 1 ELSE idle[c]]
        /\ didle' = [c \in Conns |-> IF Moving(c) /\ didle[c] < IdleTimeout THEN didle[c] + 1 ELSE didle[c]]
        /\ UNCHANGED <<procAlive, phase, res, quiet, panics, deaf>>

\* a silent peer is gone once the idle timeout has passed
IdleExpire(c) == /\ phase[c] \in {"routing", "handling"} /\ idle[c] >= IdleTimeout
                 /\ ~(phase[c] = "routing" /\ "peek_without_deadline" \in Deviations)
                 /\ ~deaf[c]
                 /\ phase' = [phase EXCEPT ![c] = "peergone"]
                 /\ UNCHANGED <<procAlive, res, idle, quiet, panics, didle, deaf>>

Leftovers(c) == (IF "helper_never_exits" \in Deviations THEN res[c] \cap {"helper"} ELSE {})
                \cup (IF "listener_never_closed" \in Deviations THEN res[c] \cap {"listener"} ELSE {})
Return(c) == /\ procAlive /\ phase[c] = "peergone" /\ "never_eof" \notin Deviations /\ ~deaf[c]
             /\ phase' = [phase EXCEPT ![c] = "returned"]
             /\ res' = [res EXCEPT ![c] = Leftovers(c)]
             /\ UNCHANGED <<procAlive, idle, quiet, panics, didle, deaf>>

Next == \E c \in Conns : Open(c) \/ GoQuiet(c) \/ Input(c) \/ Panic(c) \/ PeerGone(c) \/ IdleExpire(c) \/ Return(c)
                         \/ StartTransfer(c) \/ DataInput(c) \/ DataDone(c) \/ DataIdleExpire(c)
        \/ Tick
Fair == \A c \in Conns : WF_vars(Return(c)) /\ WF_vars(IdleExpire(c)) /\ WF_vars(DataIdleExpire(c))
Spec == Init /\ [][Next]_vars /\ Fair /\ WF_vars(Tick)

\* ---- properties -------------------------------------------------------------------
ProcessSurvives == procAlive                                                           \* C01
Quiescent == \A c \in Conns : phase[c] \in {"idle", "returned"}
ReleasedWhenQuiescent == Quiescent => \A c \in Conns : res[c] = {}                    \* C09
ReturnsAfterPeerGone == \A c \in Conns : (phase[c] = "peergone") ~> (phase[c] = "returned")   \* C09 (liveness)
SilentPeersExpire == \A c \in Conns : (phase[c] \in {"routing", "handling", "transfer"} /\ quiet[c]) ~> (phase[c] \in {"peergone", "returned"} \/ ~procAlive)
=============================================================================
