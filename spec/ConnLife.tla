----------------------------- MODULE ConnLife -----------------------------
(* Life cycle of a connection inside the server: server/honeytrap.go (accept loop,
   go handle(conn), recover, conn.Close), server/timeout_conn.go (30 s idle deadline),
   listener/udp_conn.go, and what the services start on a connection's behalf (helper
   goroutines, passive-mode listeners, descriptors).

   One process serves connections c.  A connection is opened, the client sends input (any
   bytes at all: the service's reaction is one of reply / close / recoveredPanic - a panic is
   CONFINED to the handler, reported, and ends only that connection), then the peer goes
   away (close, the single datagram consumed, or silence for the idle timeout), after which
   the handler returns and everything acquired for the connection is released.
   No action makes procAlive false; nothing is acquired without a client step.
   Deviations (the code as found):
     "unrecovered_panic"      a goroutine started by the service panics outside handle's recover
     "helper_never_exits"     a helper goroutine outlives the handler (ftp/smtp event pumps)
     "never_eof"              a drained datagram connection never reports end of input: the
                              handler spins instead of returning
     "listener_never_closed"  a passive-mode listener stays open when nobody connects          *)
EXTENDS Integers, Sequences, FiniteSets, TLC

CONSTANTS Conns, Deviations, IdleTimeout

VARIABLES procAlive, phase, res, clock, lastInput, panics
vars == <<procAlive, phase, res, clock, lastInput, panics>>

Kinds == {"handler", "helper", "listener", "fd"}
Init == /\ procAlive = TRUE /\ phase = [c \in Conns |-> "idle"] /\ res = [c \in Conns |-> {}]
        /\ clock = 0 /\ lastInput = [c \in Conns |-> 0] /\ panics = 0

Open(c) == /\ procAlive /\ phase[c] = "idle"
           /\ phase' = [phase EXCEPT ![c] = "handling"]
           /\ res' = [res EXCEPT ![c] = {"handler", "fd"}]
           /\ lastInput' = [lastInput EXCEPT ![c] = clock]
           /\ UNCHANGED <<procAlive, clock, panics>>

\* the client sends something; the service may acquire helpers for the connection
Input(c) == /\ procAlive /\ phase[c] = "handling"
            /\ lastInput' = [lastInput EXCEPT ![c] = clock]
            /\ \E extra \in SUBSET {"helper", "listener"} : res' = [res EXCEPT ![c] = @ \cup extra]
            /\ UNCHANGED <<procAlive, phase, clock, panics>>

\* a failure while handling: confined to the connection
Panic(c) == /\ procAlive /\ phase[c] \in {"handling", "peergone"}
            /\ IF "unrecovered_panic" \in Deviations /\ "helper" \in res[c]
                 THEN procAlive' = FALSE /\ UNCHANGED <<phase, res, panics>>
                 ELSE /\ phase' = [phase EXCEPT ![c] = "returned"] /\ res' = [res EXCEPT ![c] = {}]
                      /\ panics' = panics + 1 /\ UNCHANGED procAlive
            /\ UNCHANGED <<clock, lastInput>>

PeerGone(c) == /\ phase[c] = "handling"
               /\ phase' = [phase EXCEPT ![c] = "peergone"]
               /\ UNCHANGED <<procAlive, res, clock, lastInput, panics>>

Tick == /\ clock' = clock + 1 /\ clock < 3 * IdleTimeout
        /\ UNCHANGED <<procAlive, phase, res, lastInput, panics>>

\* a silent peer is gone once the idle timeout has passed
IdleExpire(c) == /\ phase[c] = "handling" /\ clock - lastInput[c] >= IdleTimeout
                 /\ phase' = [phase EXCEPT ![c] = "peergone"]
                 /\ UNCHANGED <<procAlive, res, clock, lastInput, panics>>

Leftovers(c) == (IF "helper_never_exits" \in Deviations THEN res[c] \cap {"helper"} ELSE {})
                \cup (IF "listener_never_closed" \in Deviations THEN res[c] \cap {"listener"} ELSE {})
Return(c) == /\ procAlive /\ phase[c] = "peergone" /\ "never_eof" \notin Deviations
             /\ phase' = [phase EXCEPT ![c] = "returned"]
             /\ res' = [res EXCEPT ![c] = Leftovers(c)]
             /\ UNCHANGED <<procAlive, clock, lastInput, panics>>

Next == \E c \in Conns : Open(c) \/ Input(c) \/ Panic(c) \/ PeerGone(c) \/ IdleExpire(c) \/ Return(c)
        \/ Tick
Fair == \A c \in Conns : WF_vars(Return(c)) /\ WF_vars(IdleExpire(c))
Spec == Init /\ [][Next]_vars /\ Fair /\ WF_vars(Tick)

\* ---- properties -------------------------------------------------------------------
ProcessSurvives == procAlive                                                           \* C01
Quiescent == \A c \in Conns : phase[c] \in {"idle", "returned"}
ReleasedWhenQuiescent == Quiescent => \A c \in Conns : res[c] = {}                    \* C09
ReturnsAfterPeerGone == \A c \in Conns : (phase[c] = "peergone") ~> (phase[c] = "returned")   \* C09 (liveness)
SilentPeersExpire == \A c \in Conns : (phase[c] = "handling") ~> (phase[c] \in {"peergone", "returned"} \/ ~procAlive)
=============================================================================
