---------------------------- MODULE CanaryParse ----------------------------
(* The receive path of the raw listener: listener/canary/canary_linux.go (Start loop,
   handleTCP/UDP/ICMP, send), ethernet/ipv4/tcp/udp/icmp parsers, state.go StateTable.

   A frame is described by the fields whose RELATIONS the parsers test:
     eth      "ipv4" | "arp" | "other"
     ihl      IPv4 header length nibble (0..15), hdr = 4*ihl
     iplen    number of bytes that follow the Ethernet header
     total    IPv4 total-length field
     proto    1 icmp, 2 igmp, 6 tcp, 17 udp, other
     l4len    bytes the IPv4 payload b[20:total] holds, when that slice is well defined
     doff     TCP data offset nibble;  opts: the TCP option bytes (doff*4-20 of them)
     ulen     UDP length field
     tome     destination address is one of ours;   peer: how the sender can be answered - "arp" (its address is in the
              ARP cache), "route" (via a gateway that is), "gwless" (via a route whose gateway has no
              ARP entry), "onlink" (a route without gateway, sender not in the cache), "none" (no route)
     flags    TCP control bits as a set
   Classify says what a correct stack does with the frame; whatever it is, the listener
   stays alive and later frames are processed (C02).  The connection table has Cap slots;
   a SYN arriving at a full table is dropped.                                           *)
EXTENDS Integers, Sequences, FiniteSets, TLC

CONSTANTS Cap

VARIABLES alive, occupied, handled, dropped
vars == <<alive, occupied, handled, dropped>>

\* the option area parses: every option has a kind; kinds 0 and 1 are single bytes, others carry a
\* length >= 2 that stays inside the area
RECURSIVE OptsOK(_)
OptsOK(o) == IF o = <<>> THEN TRUE
             ELSE IF o[1] = 0 THEN TRUE
             ELSE IF o[1] = 1 THEN OptsOK(Tail(o))
             ELSE Len(o) >= 2 /\ o[2] >= 2 /\ o[2] <= Len(o) /\ OptsOK(SubSeq(o, o[2] + 1, Len(o)))

IPv4OK(f) == /\ f.iplen >= 20 /\ 4 * f.ihl <= f.iplen
             /\ f.total >= 20 /\ f.total <= f.iplen
L4Len(f) == f.total - 20
TCPOK(f) == /\ L4Len(f) >= 20 /\ f.doff >= 5 /\ 4 * f.doff <= L4Len(f) /\ OptsOK(f.opts)
UDPOK(f) == L4Len(f) >= 8 /\ f.ulen = L4Len(f)
ICMPOK(f) == L4Len(f) >= 8

Classify(f) ==
  IF f.eth # "ipv4" THEN "ignore"
  ELSE IF ~IPv4OK(f) THEN "drop"
  ELSE CASE f.proto = 6  -> IF TCPOK(f) /\ f.tome THEN "tcp" ELSE "drop"
         [] f.proto = 17 -> IF UDPOK(f) /\ f.tome THEN "udp" ELSE "drop"
         [] f.proto = 1  -> IF ICMPOK(f) /\ f.tome THEN "icmp" ELSE "drop"
         [] OTHER -> "ignore"

Init == alive = TRUE /\ occupied = 0 /\ handled = 0 /\ dropped = 0

Deliver(f) ==
  /\ alive
  /\ LET c == Classify(f) IN
     IF c = "tcp" /\ "SYN" \in f.flags /\ "ACK" \notin f.flags
       THEN \* a connection attempt: needs a slot; answering needs a link-layer address for the peer
            IF occupied < Cap
              THEN occupied' = occupied + 1 /\ handled' = handled + 1 /\ UNCHANGED dropped
              ELSE dropped' = dropped + 1 /\ UNCHANGED <<occupied, handled>>
       ELSE IF c \in {"tcp", "udp", "icmp"}
              THEN handled' = handled + 1 /\ UNCHANGED <<occupied, dropped>>
              ELSE dropped' = dropped + 1 /\ UNCHANGED <<occupied, handled>>
  /\ UNCHANGED alive          \* no frame whatsoever ends the listener

Alive == alive
WithinCapacity == occupied <= Cap
=============================================================================
