SPECIFICATION Spec
CONSTANT MaxComps = 5
VIEW View
INVARIANT Inv
CHECK_DEADLOCK FALSE
