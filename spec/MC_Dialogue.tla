----------------------------- MODULE MC_Dialogue -----------------------------
(* Generator of dialogue shapes for the connection life-cycle explorations (C01, C09).
   A shape is independent of the protocol: after `prefix` tokens of the service's canonical
   dialogue, up to MaxOps operations
       tok(i)    the i-th token of the service's grammar
       trunc     the next canonical token cut in the middle
       repeat    the previous token again
       raw(c)    raw bytes of class c (NULs, high bytes, a bare CRLF, 4 KiB of 'A', a huge length field)
   then an ending (peer closes, half-closes, or stays silent), a segmentation mode and the number
   of concurrent copies K.  ConnLife.tla says what must hold whatever the shape.          *)
EXTENDS Integers, Sequences, FiniteSets, TLC, Json
CONSTANTS MaxOps, Sim
VARIABLES shape, done

Ops == { [o |-> "tok", i |-> i] : i \in 1..6 } \cup { [o |-> "trunc", i |-> 0], [o |-> "repeat", i |-> 0] }
       \cup { [o |-> "raw", i |-> c] : c \in 1..5 }
RECURSIVE RandOps(_, _)
RandOps(n, salt) == IF n = 0 THEN <<>> ELSE <<RandomElement(Ops)>> \o RandOps(n - 1, salt)
RandomShape(salt) == [prefix |-> RandomElement(0..4), ops |-> RandOps(RandomElement(0..MaxOps), salt),
                      ending |-> RandomElement({"close", "shut", "silent"}), seg |-> RandomElement({"whole", "split", "dribble"}),
                      k |-> RandomElement({1, 1, 2, 3})]
Small == { [prefix |-> p, ops |-> o, ending |-> e, seg |-> "whole", k |-> 1] :
           p \in 0..4, e \in {"close", "shut", "silent"}, o \in { <<>> } \cup { <<x>> : x \in Ops } }
Init == shape = [prefix |-> 0] /\ done = FALSE
Next == /\ ~done /\ done' = TRUE
        /\ IF Sim THEN shape' = RandomShape(shape) ELSE \E s \in Small : shape' = s
        /\ PrintT(<<"SCN", ToJson(shape')>>)
Spec == Init /\ [][Next]_<<shape, done>>
=============================================================================
