SPECIFICATION Spec
INVARIANT Inv
CONSTRAINT HighWater
POSTCONDITION Accepted
CHECK_DEADLOCK FALSE
