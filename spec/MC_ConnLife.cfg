SPECIFICATION Spec
CONSTANT Devs = {}
INVARIANTS ProcessSurvives ReleasedWhenQuiescent
PROPERTIES ReturnsAfterPeerGone
CHECK_DEADLOCK FALSE
