SPECIFICATION Spec
CONSTANT Devs = {}
INVARIANTS ProcessSurvives ReleasedWhenQuiescent
PROPERTIES ReturnsAfterPeerGone SilentPeersExpire
CHECK_DEADLOCK FALSE
