------------------------------- MODULE MC_Ipp -------------------------------
(* C17 (IPP part): requests drawn from a structural generator; each is printed with the reply and the
   event fields Ipp.tla prescribes.                                                          *)
EXTENDS Integers, Sequences, FiniteSets, TLC, Json
CONSTANTS NReq
VARIABLES req, done
I == INSTANCE Ipp

IntTags == {33, 35, 51}            \* integer 0x21, enum 0x23, rangeOfInteger 0x33
BoolTag == 34                      \* 0x22
StrTags == {68, 69, 73, 65, 66}    \* keyword, uri, mimeMediaType, textWithoutLanguage, nameWithoutLanguage
RECURSIVE RandSeq(_, _, _)
RandSeq(S, n, salt) == IF n = 0 THEN <<>> ELSE <<RandomElement(S)>> \o RandSeq(S, n - 1, salt)
StrVals == {"", "a", "value-two", "x y z", "0123456789012345678901234567890123456789"}
RandomAttr(k, salt) ==
  LET vt == RandomElement(IntTags \cup {BoolTag} \cup StrTags)
      n == RandomElement({1, 1, 2, 3}) IN
  [vt |-> vt, name |-> "extra-" \o ToString(k),
   vals |-> IF vt \in IntTags THEN RandSeq({"0", "1", "65535", "-1", "128", "200", "40000", "2147483647", "-300", "-2147483648", "8388608"}, n, salt)
            ELSE IF vt = BoolTag THEN RandSeq({"true", "false"}, n, salt) ELSE RandSeq(StrVals, n, salt)]
A(vt, name, v) == [vt |-> vt, name |-> name, vals |-> <<v>>]
\* interleave the required attributes (in their order) with extras: extra k goes in front of required k
RECURSIVE Weave(_, _, _)
Weave(reqd, extras, k) ==
  IF reqd = <<>> THEN extras
  ELSE (IF extras # <<>> /\ RandomElement(BOOLEAN) THEN <<Head(extras)>> \o Weave(reqd, Tail(extras), k + 1)
        ELSE <<Head(reqd)>> \o Weave(Tail(reqd), extras, k + 1))
RandomRequest(salt) ==
  LET op == RandomElement({2, 2, 2, 4, 9, 11, 16395})
      nx == RandomElement(0..4)
      extras == [k \in 1..nx |-> RandomAttr(k, salt)]
      must == << A(69, "printer-uri", RandomElement({"ipp://localhost/printers/x", "ipp://10.0.0.1:631/ipp/print"})),
                 A(66, "requesting-user-name", RandomElement({"alice", "", "bob smith"})),
                 A(66, "job-name", RandomElement({"job-1", "report final.pdf"})) >>
      opattrs == << A(71, "attributes-charset", RandomElement({"utf-8", "us-ascii"})),
                    A(72, "attributes-natural-language", RandomElement({"en", "en-us", "nl"})) >> \o Weave(must, extras, 1)
      jobgrp == IF RandomElement(BOOLEAN) THEN << [tag |-> 2, attrs |-> [k \in 1..RandomElement(0..3) |-> RandomAttr(10 + k, salt)]] >> ELSE <<>>
  IN [major |-> RandomElement({1, 2}), minor |-> RandomElement({0, 1}), op |-> op, id |-> RandomElement({1, 255, 65536, 2147483647}),
      groups |-> << [tag |-> 1, attrs |-> opattrs] >> \o jobgrp, doc |-> RandomElement({0, 1, 300, 65536})]

Init == req \in { RandomRequest(i) : i \in 1..NReq } /\ done = FALSE
Next == /\ ~done /\ done' = TRUE /\ UNCHANGED req
        /\ PrintT(<<"SCN", ToJson([req |-> req, response |-> I!Response(req), event |-> I!EventFields(req)])>>)
Spec == Init /\ [][Next]_<<req, done>>
\* sanity of the generator w.r.t. the specification: a print job always names its printer
Inv == I!IsPrintJob(req) => I!EventFields(req).uri # ""
=============================================================================
