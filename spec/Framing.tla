------------------------------ MODULE Framing ------------------------------
(* How the line- and message-oriented services turn a byte stream into requests
   (buffered readers in services/{ftp,smtp,redis,memcached,telnet,ldap,http...}).

   The client stream is a sequence of CHUNKS; a chunk is [req, part] where part is
     "h"  a piece of request req's header (line or header block),
     "t"  its terminator (the header is complete once this has arrived),
     "b"  a piece of its body, whose length the header announces.
   Shape[r] = [h, b] gives the number of header pieces before the terminator and the number
   of body pieces of request r.  The network delivers the chunks in order in arbitrary
   segments (Deliver(n)); the service parses whatever is buffered (Parse): every complete
   request yields exactly one event carrying the request's index and the body pieces read.
   Deviations (the code as found in some services):
     "reader_per_request"  the buffered reader is re-created after each request: bytes of the
                           next request that were already buffered are discarded
     "body_single_read"    the body is whatever one Read returns: the pieces buffered at the
                           time the header completes                                      *)
EXTENDS Integers, Sequences, FiniteSets, TLC

CONSTANTS Shape,          \* Shape[r] = [h |-> n, b |-> m]
          Deviations

NReq == Len(Shape)
RECURSIVE StreamFrom(_)
StreamFrom(r) ==
  IF r > NReq THEN <<>>
  ELSE [i \in 1..Shape[r].h |-> [req |-> r, part |-> "h"]] \o <<[req |-> r, part |-> "t"]>>
       \o [i \in 1..Shape[r].b |-> [req |-> r, part |-> "b"]] \o StreamFrom(r + 1)
Stream == StreamFrom(1)

VARIABLES wire,      \* chunks not yet delivered
          buf,       \* chunks delivered, not yet consumed
          events,    \* sequence of [req, body]: body = number of body pieces the event carries
          cuts       \* history: positions (in chunks) at which the stream was cut
vars == <<wire, buf, events, cuts>>

Init == wire = Stream /\ buf = <<>> /\ events = <<>> /\ cuts = {}

Deliver(n) == /\ n >= 1 /\ n <= Len(wire)
              /\ buf' = buf \o SubSeq(wire, 1, n)
              /\ wire' = SubSeq(wire, n + 1, Len(wire))
              /\ cuts' = IF n < Len(wire) THEN cuts \cup {Len(Stream) - Len(wire) + n} ELSE cuts
              /\ UNCHANGED events

\* number of leading chunks of b that belong to request r's header incl. terminator, or 0 if incomplete
HeaderLen(b, r) == IF \E i \in 1..Len(b) : b[i] = [req |-> r, part |-> "t"]
                     THEN CHOOSE i \in 1..Len(b) : b[i] = [req |-> r, part |-> "t"] ELSE 0

\* parse one request from the front of the buffer, if complete
ParseOne ==
  /\ buf # <<>>
  /\ LET r == buf[1].req
         hl == HeaderLen(buf, r)
         need == Shape[r].b
         have == Len(buf) - hl
     IN /\ hl > 0
        /\ IF "body_single_read" \in Deviations /\ have < need
             THEN \* takes what is there; the rest of the body will be misread as the next request: dropped here
                  /\ events' = Append(events, [req |-> r, body |-> have])
                  /\ buf' = <<>>
                  /\ wire' = SelectSeq(wire, LAMBDA c : ~(c.req = r /\ c.part = "b"))
             ELSE /\ have >= need
                  /\ events' = Append(events, [req |-> r, body |-> need])
                  /\ buf' = IF "reader_per_request" \in Deviations THEN <<>>
                            ELSE SubSeq(buf, hl + need + 1, Len(buf))
                  /\ UNCHANGED wire
  /\ UNCHANGED cuts

Next == (\E n \in 1..Len(wire) : Deliver(n)) \/ ParseOne
Spec == Init /\ [][Next]_vars

Quiescent == wire = <<>> /\ ~ENABLED ParseOne
RefParse == [r \in 1..NReq |-> [req |-> r, body |-> Shape[r].b]]
\* whatever the segmentation: every request exactly once, in order, with its whole body
SegmentationIndependence == Quiescent => events = RefParse
\* and never anything that was not sent
PrefixAlways == \E k \in 0..NReq : events = SubSeq(RefParse, 1, k)
=============================================================================
