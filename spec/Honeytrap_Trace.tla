-------------------------- MODULE Honeytrap_Trace --------------------------
(* Whole-server trace validation: the real server (real services, real bus, real filters, capture
   channels and the real file channel) is driven by real clients, one connection at a time; every
   accepted connection and every event that reached the catch-all channel "all" is one line; an event
   line says at which positions of which capture channel the very same event object arrived.  Each line
   must be a step of Honeytrap: the event's category is the category of the service the routing rule
   chooses for its connection, its source and token are that connection's and the sensor's, and the
   channels that got it - with multiplicity and at exactly those positions - are the ones Bus!Fanout
   gives.  At the end the ids the file channel must hold are printed for comparison with its file.     *)
EXTENDS Integers, Sequences, FiniteSets, TLC, Json, HoneytrapUniverse
VARIABLES FilterCfg, conns, sent, panicked, beat, delivered, l
Trace == ndJsonDeserialize("trace.ndjson")
H == INSTANCE Honeytrap WITH Channels <- Chans, Entries <- SvcTable, CatOf <- Cats, Token <- Trace[1].token

Init == H!Init(Trace[1].filters) /\ l = 2 /\ TLCSet(1, 2)
Is(k) == l <= Len(Trace) /\ Trace[l].k = k /\ l' = l + 1
Accept == Is("accept") /\ H!Accept(Trace[l].c) /\ conns'[Len(conns')].svc = Trace[l].svc
Positions(seq, x) == { i \in 1..Len(seq) : seq[i] = x }
Event == /\ Is("event")
         /\ H!Emit(Trace[l].conn, Trace[l].svc)
         /\ LET ev == sent'[Len(sent')] IN
            /\ ev.cat.v = Trace[l].cat /\ ev.src = Trace[l].src /\ Trace[l].token = Trace[1].token
            /\ \A ch \in {"a", "b", "all"} : Positions(delivered'[ch], ev.id) = { Trace[l].pos[ch][i] : i \in 1..Len(Trace[l].pos[ch]) }
Fatal == /\ Is("fatal")
         /\ H!Panic(Trace[l].conn)
         /\ LET ev == sent'[Len(sent')] IN
            /\ ev.src = Trace[l].src /\ Trace[l].token = Trace[1].token
            /\ \A ch \in {"a", "b", "all"} : Positions(delivered'[ch], ev.id) = { Trace[l].pos[ch][i] : i \in 1..Len(Trace[l].pos[ch]) }
Beat == /\ Is("heartbeat")
        /\ H!Heartbeat
        /\ LET ev == sent'[Len(sent')] IN
           /\ ev.seq = Trace[l].seq /\ Trace[l].token = Trace[1].token
           /\ \A ch \in {"a", "b", "all"} : Positions(delivered'[ch], ev.id) = { Trace[l].pos[ch][i] : i \in 1..Len(Trace[l].pos[ch]) }
End == /\ Is("end") /\ PrintT(<<"FILE", delivered["f"]>>) /\ UNCHANGED <<FilterCfg, conns, sent, panicked, beat, delivered>>
Next == Accept \/ Event \/ Fatal \/ Beat \/ End
Spec == Init /\ [][Next]_<<FilterCfg, conns, sent, panicked, beat, delivered, l>>
HighWater == TLCSet(1, IF TLCGet(1) < l THEN l ELSE TLCGet(1))
Accepted == TLCGet(1) = Len(Trace) + 1 \/ (PrintT(<<"REJECTED_AT", TLCGet(1)>>) /\ FALSE)
Inv == H!Attributed /\ H!SilentIfUnrouted /\ H!ExactlyAdmitted /\ H!OneFatalPerPanic /\ H!HeartbeatsNumbered
=============================================================================
