----------------------------- MODULE MC_FtpFs -----------------------------
(* C11: every transition (working directory, path) of FtpFs is printed once; the harness
   turns each into one implementation test on the real filesystem.Htfs.               *)
EXTENDS Integers, Sequences, FiniteSets, TLC, Json
CONSTANTS MaxComps
VARIABLES cwd, touched, last

F == INSTANCE FtpFs WITH Names <- {"a", "b"}, Depth <- 3

Alphabet == {"a", "b", "..", ".", ""}
RECURSIVE Seqs(_)
Seqs(n) == IF n = 0 THEN { <<>> } ELSE LET prev == Seqs(n - 1) IN
           prev \cup { Append(s, c) : s \in { x \in prev : Len(x) = n - 1 }, c \in Alphabet }
\* a relative path whose first component is empty would be written "/..." - that is an absolute path
Paths == { p \in { [abs |-> ab, comps |-> s] : ab \in BOOLEAN, s \in Seqs(MaxComps) } :
           p.abs \/ p.comps = <<>> \/ p.comps[1] # "" }

Init == F!Init
\* the transition is printed when it is taken; `touched` is reset so that states = working directories
Step == \E p \in Paths :
          /\ F!ChangeDir(p)
          /\ PrintT(<<"SCN", ToJson([cwd |-> cwd, path |-> p, loc |-> last'.loc, ok |-> last'.ok, cwd2 |-> cwd'])>>)
Spec == Init /\ [][Step]_<<cwd, touched, last>>
View == cwd
Inv == F!Contained /\ F!CwdRooted
=============================================================================
