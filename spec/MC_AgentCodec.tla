---------------------------- MODULE MC_AgentCodec ----------------------------
EXTENDS Integers, Sequences, FiniteSets, TLC, Json
VARIABLES m, done
C == INSTANCE AgentCodec
Nets == {"tcp", "udp"}
IPs == {"10.0.0.1", "255.255.255.255", "2001:db8::1", "::1"}
PortsSet == {0, 1, 80, 65535}
Lens == {0, 1, 255, 256, 4000, 4075, 4076, 4077, 4095, 4096, 4097, 8192, 65000}
Addr(n, i, p) == [net |-> n, ip |-> i, port |-> p]
Zero == Addr("tcp", "", 0)
Msgs == { [t |-> t, l |-> Addr(n, i, p), r |-> Addr(n, j, q), len |-> 0, fields |-> 0] :
            t \in {"hello", "eof"}, n \in Nets, i \in IPs, j \in IPs, p \in PortsSet, q \in PortsSet }
   \cup { [t |-> t, l |-> Addr(n, i, p), r |-> Addr(n, "10.0.0.1", 65535), len |-> k, fields |-> 0] :
            t \in {"tcp", "udp"}, n \in Nets, i \in IPs, p \in {0, 65535}, k \in Lens }
   \cup { [t |-> "handshake", l |-> Zero, r |-> Zero, len |-> k, fields |-> f] : k \in {0, 20, 299}, f \in {0, 5, 40, 4088, 4089, 4090, 4091, 4092, 4093, 4094, 5000, 20000} }   \* fields = length of the version string
   \cup { [t |-> "response", l |-> Addr("tcp", i, p), r |-> Zero, len |-> 0, fields |-> f] : i \in IPs, p \in {0, 65535}, f \in {0, 1, 3, 20, 190, 194, 195, 196, 197, 200, 255} }
   \cup { [t |-> "ping", l |-> Zero, r |-> Zero, len |-> 0, fields |-> 0] }
Init == m = [t |-> "none"] /\ done = FALSE
Next == /\ ~done /\ \E x \in Msgs : m' = x
        /\ PrintT(<<"SCN", ToJson([t |-> m'.t, lnet |-> m'.l.net, lip |-> m'.l.ip, lport |-> m'.l.port,
                                   rnet |-> m'.r.net, rip |-> m'.r.ip, rport |-> m'.r.port, len |-> m'.len, fields |-> m'.fields])>>)
        /\ done' = TRUE
Spec == Init /\ [][Next]_<<m, done>>
Inv == done => C!RoundTrip(m)
=============================================================================
