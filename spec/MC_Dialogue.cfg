SPECIFICATION Spec
CONSTANT MaxOps = 4
CONSTANT Sim = FALSE
CHECK_DEADLOCK FALSE
