SPECIFICATION Spec
CONSTANT NStarts = 3
INVARIANT Inv
CHECK_DEADLOCK FALSE
