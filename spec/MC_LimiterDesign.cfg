SPECIFICATION Spec
INVARIANTS TypeOK AtMostBurstPerWindow
PROPERTIES SourcesIndependent RepliesPaidFor
CHECK_DEADLOCK FALSE
CONSTANT DMaxT = 3
CONSTANT Devs = {}
