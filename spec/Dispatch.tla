----------------------------- MODULE Dispatch -----------------------------
(* Routing of an accepted connection to a service: server/honeytrap.go (port table
   built in Run, findService, handle), server/peek-connection.go, timeout_conn.go.

   A connection's client stream is  head \o (pad fillers); only its length and its
   first bytes matter.  The server side is modelled at the granularity of the code:
     Accept   look up the port entry compatible with the local address
     Peek     one Read of at most 1024 bytes (= the client's first segment) through the
              peek wrapper, only if the scan reaches a service with a detector
     Choose   scan the entry's services in configured order
     SvcRead  the chosen service reads until end of stream
   The service receives either the raw connection or the peek wrapper, which replays the
   peeked bytes first.  The intended design hands the WRAPPER to whatever service is
   chosen once a peek has happened; the deviation "detectorless_after_peek_gets_raw_conn"
   hands a detector-less service the raw connection instead (peeked bytes lost).      *)
EXTENDS Integers, Sequences, FiniteSets, TLC, DispatchRule

CONSTANTS Deviations

\* ---- one connection, operationally --------------------------------------------
VARIABLES conn,      \* [proto, ip, port, head, pad, r, rs]  r = size of the client's first segment,
                     \* rs = size of the buffer of the service's first Read
          phase,     \* "accepted" | "scanning" | "handling" | "closed"
          idx,       \* scan position
          cands,     \* candidate services
          peeked,    \* -1: no peek yet, else number of bytes in the peek buffer
          wrapped,   \* the service got the peek wrapper
          chosen,    \* service name or "none"
          gotFrom, gotTo,  \* the service has read stream bytes [gotFrom, gotTo)
          missing          \* ... except this many bytes in between (only with a deviation)
cvars == <<conn, phase, idx, cands, peeked, wrapped, chosen, gotFrom, gotTo, missing>>

StreamLen == Len(conn.head) + conn.pad
Min(a, b) == IF a < b THEN a ELSE b
FirstSeg == LET n == Min(Min(conn.r, 1024), StreamLen) IN
            IF n <= Len(conn.head) THEN SubSeq(conn.head, 1, n) ELSE conn.head

Accept(table, c) ==
  /\ conn' = c
  /\ cands' = Candidates(table, c)
  /\ idx' = 1 /\ peeked' = -1 /\ wrapped' = FALSE /\ gotFrom' = 0 /\ gotTo' = 0 /\ missing' = 0
  /\ IF cands' = <<>> THEN phase' = "closed" /\ chosen' = "none"
     ELSE IF Len(cands') = 1 THEN phase' = "handling" /\ chosen' = cands'[1].name
     ELSE phase' = "scanning" /\ chosen' = "none"

Peek ==
  /\ phase = "scanning" /\ idx <= Len(cands) /\ cands[idx].det # <<>> /\ peeked = -1
  /\ peeked' = Min(Min(conn.r, 1024), StreamLen)
  /\ UNCHANGED <<conn, phase, idx, cands, wrapped, chosen, gotFrom, gotTo, missing>>

ScanStep ==
  /\ phase = "scanning"
  /\ IF idx > Len(cands)
       THEN phase' = "closed" /\ chosen' = "none" /\ UNCHANGED <<idx, wrapped>>
     ELSE LET s == cands[idx] IN
       IF s.det = <<>>
         THEN /\ phase' = "handling" /\ chosen' = s.name /\ UNCHANGED idx
              /\ wrapped' = (peeked >= 0 /\ "detectorless_after_peek_gets_raw_conn" \notin Deviations)
       ELSE /\ peeked >= 0          \* Peek comes first
            /\ IF Accepts(s, FirstSeg)
                 THEN phase' = "handling" /\ chosen' = s.name /\ wrapped' = TRUE /\ UNCHANGED idx
                 ELSE idx' = idx + 1 /\ UNCHANGED <<phase, chosen, wrapped>>
  /\ UNCHANGED <<conn, cands, peeked, gotFrom, gotTo, missing>>

\* the service drains the stream: through the wrapper from byte 0, on the raw connection
\* from the first byte the socket still holds.  Its first Read has a buffer of conn.rs bytes; the
\* wrapper hands out the peeked bytes in as many Reads as it takes.
\* Model regression "peek_tail_dropped": the wrapper gives up its buffer after ONE Read.
SvcRead ==
  /\ phase = "handling" /\ gotTo < StreamLen
  /\ gotFrom' = IF wrapped \/ peeked < 0 THEN 0 ELSE peeked
  /\ gotTo' = StreamLen
  /\ missing' = IF "peek_tail_dropped" \in Deviations /\ wrapped /\ peeked > conn.rs THEN peeked - conn.rs ELSE 0
  /\ UNCHANGED <<conn, phase, idx, cands, peeked, wrapped, chosen>>

Done == \/ phase = "closed"
        \/ phase = "handling" /\ (gotTo = StreamLen)

\* ---- properties of a finished connection -----------------------------------------
FirstInOrder == Done => chosen = Rule(cands, FirstSeg)
StreamIntact == (Done /\ phase = "handling" /\ StreamLen > 0) => (gotFrom = 0 /\ gotTo = StreamLen /\ missing = 0)
NobodyIfNone == (phase = "closed") => (chosen = "none" /\ gotTo = 0)
=============================================================================
