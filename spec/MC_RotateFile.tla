--------------------------- MODULE MC_RotateFile ---------------------------
(* C07: design check (strict), model regressions (deviations) and scenario generation. *)
EXTENDS Integers, Sequences, FiniteSets, TLC, Json
CONSTANTS Devs, GenLen
VARIABLES pending, active, rotated, taken, removed, damaged, clock, nextId, serial, hist, done

MCLens == {20, 511, 512, 513, 1004, 1005, 1024, 1025, 2049}
R == INSTANCE RotateFile WITH MaxSize <- 1024, Lens <- MCLens, MaxLines <- 5, Deviations <- Devs

\* generation: a scenario is a sequence of steps; each write is one batch (send k lines, flush k)
GInit == R!Init /\ hist = <<>> /\ done = FALSE
Batch(ls) == \* ls: sequence of lengths
  /\ ~done /\ Len(hist) < GenLen /\ nextId + Len(ls) - 1 <= 12
  /\ LET lines == [i \in 1..Len(ls) |-> [id |-> nextId + i - 1, len |-> ls[i]]]
         st == R!Place(lines, [act |-> active, rot |-> rotated, ser |-> serial, dmg |-> damaged]) IN
     /\ active' = st.act /\ rotated' = st.rot /\ serial' = st.ser /\ damaged' = st.dmg
     /\ nextId' = nextId + Len(ls)
     /\ hist' = Append(hist, [a |-> "write", lines |-> lines])
  /\ UNCHANGED <<pending, taken, removed, clock, done>>
Ext(kind) ==
  /\ ~done /\ Len(hist) < GenLen /\ Len(hist) >= 1 /\ hist[Len(hist)].a = "write"
  /\ CASE kind = "remove" -> R!ExtRemove [] kind = "rename" -> R!ExtRename [] OTHER -> R!Reopen
  /\ hist' = Append(hist, [a |-> kind, lines |-> <<>>])
  /\ UNCHANGED done
Emit == /\ ~done /\ Len(hist) >= 1
        /\ PrintT(<<"SCN", ToJson([steps |-> hist, removed |-> removed,
                                   files |-> [i \in 1..Len(rotated) |-> [j \in 1..Len(rotated[i].lines) |-> rotated[i].lines[j].id]],
                                   active |-> [j \in 1..Len(active) |-> active[j].id]])>>)
        /\ done' = TRUE
        /\ UNCHANGED <<pending, active, rotated, taken, removed, damaged, clock, nextId, serial, hist>>
Batches == { <<a>> : a \in MCLens } \cup { <<a, b>> : a \in MCLens, b \in MCLens }
           \cup { <<a, b, c>> : a \in {20, 512, 1004}, b \in {20, 513, 1024}, c \in {20, 511, 2049} }
GNext == (\E b \in Batches : Batch(b)) \/ Ext("remove") \/ Ext("rename") \/ Ext("reopen") \/ Emit
GSpec == GInit /\ [][GNext]_<<pending, active, rotated, taken, removed, damaged, clock, nextId, serial, hist, done>>
GInv == R!AllKept /\ R!SizeOK /\ R!NamesDistinct
=============================================================================
