SPECIFICATION Spec
CONSTANT NEntries = 1
CONSTANT MaxPorts = 1
CONSTANT Sim = FALSE
INVARIANT Inv
CHECK_DEADLOCK FALSE
