------------------------------ MODULE Delivery ------------------------------
(* C08, delivery side: how honeytrap's own socket listener hands datagrams to the server.
   One UDP socket: the kernel queues datagrams; the listener goroutine receives one into a
   buffer and hands a connection (listener.DummyUDPConn{Buffer: buf[:n]}) to the accept loop,
   which starts a handler goroutine; the handler's service reads the connection some time
   later.  The listener does not wait for the handler: it receives the next datagram at once.
   The connection ALIASES the listener's buffer, so the stream a service reads is intact only
   if no later receive writes into a buffer a live connection still points to.

   Actions (one per step of listener/socket/socket.go and server.Run):
     Send(d)   a client sends datagram d                    (kernel queue)
     Recv      l.ReadFromUDP(buf) + sl.ch <- conn           (listener goroutine)
     Read(d)   the chosen service reads its connection      (handler goroutine)
   Deviation "shared_receive_buffer": the receive buffer is allocated once per socket
   instead of once per datagram.                                                        *)
EXTENDS Integers, Sequences, FiniteSets

CONSTANTS Datagrams,    \* payload identities (each datagram's content is its identity)
          Deviations

VARIABLES queue,        \* Seq(Datagrams): sent, not yet received by the listener
          sent,         \* set of datagrams sent so far
          bufs,         \* buffer id -> content ("" = never written)
          alias,        \* datagram -> buffer id its connection points to (0 = not yet delivered)
          got,          \* datagram -> content its service read ("" = not yet read)
          nbuf          \* buffers allocated so far

vars == <<queue, sent, bufs, alias, got, nbuf>>
MaxBuf == Cardinality(Datagrams) + 1

Init == /\ queue = <<>> /\ sent = {}
        /\ bufs = [b \in 1..MaxBuf |-> ""]
        /\ alias = [d \in Datagrams |-> 0]
        /\ got = [d \in Datagrams |-> ""]
        /\ nbuf = 0

Send(d) == /\ d \notin sent
           /\ sent' = sent \cup {d} /\ queue' = Append(queue, d)
           /\ UNCHANGED <<bufs, alias, got, nbuf>>

Recv == /\ queue # <<>>
        /\ LET d == Head(queue)
               b == IF "shared_receive_buffer" \in Deviations THEN 1 ELSE nbuf + 1
           IN /\ bufs' = [bufs EXCEPT ![b] = d]
              /\ alias' = [alias EXCEPT ![d] = b]
              /\ nbuf' = IF b > nbuf THEN b ELSE nbuf
        /\ queue' = Tail(queue)
        /\ UNCHANGED <<sent, got>>

Read(d) == /\ alias[d] # 0 /\ got[d] = ""
           /\ got' = [got EXCEPT ![d] = bufs[alias[d]]]
           /\ UNCHANGED <<queue, sent, bufs, alias, nbuf>>

Next == (\E d \in Datagrams : Send(d) \/ Read(d)) \/ Recv
Spec == Init /\ [][Next]_vars /\ WF_vars(Recv) /\ \A d \in Datagrams : WF_vars(Read(d))

TypeOK == /\ sent \subseteq Datagrams /\ nbuf \in 0..MaxBuf
          /\ \A d \in Datagrams : alias[d] \in 0..MaxBuf

\* the property, delivery side: every service reads exactly the datagram its client sent
StreamIntact == \A d \in Datagrams : got[d] # "" => got[d] = d
\* what makes it true: two live connections never share a buffer
NoAliasing == \A d, e \in Datagrams : (d # e /\ alias[d] # 0 /\ alias[e] # 0) => alias[d] # alias[e]
\* every datagram sent is eventually read by a service
EveryoneServed == \A d \in Datagrams : (d \in sent) ~> (got[d] # "")
=============================================================================
