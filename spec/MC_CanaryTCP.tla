---------------------------- MODULE MC_CanaryTCP ----------------------------
(* C14 generation: client behaviours for 1..2 connections (in-order segments of boundary
   lengths, with and without PSH, FIN with and without data), all interleavings up to a
   bound.  The listener's reactions are left open here (an ideal listener is used to drive
   the model); the harness records the real reactions and CanaryTCP_Trace validates them. *)
EXTENDS Integers, Sequences, FiniteSets, TLC, Json
CONSTANTS NConns, MaxFrames
VARIABLES st, rcvd, finSeen, lastSeq, hist

MCConns == 1..NConns
C == INSTANCE CanaryTCP WITH Conns <- MCConns
Lens == {1, 2, 1459, 1460}

Ideal(c, flags, ackRel) == <<[to |-> c, flags |-> flags, seqRel |-> lastSeq[c], ackRel |-> ackRel, ipok |-> TRUE, tcpok |-> TRUE]>>

Step(c) ==
  \/ /\ C!Syn(c, <<[to |-> c, flags |-> <<"SYN", "ACK">>, seqRel |-> 0, ackRel |-> 1, ipok |-> TRUE, tcpok |-> TRUE]>>)
     /\ hist' = Append(hist, [c |-> c, k |-> "syn", n |-> 0, psh |-> FALSE])
  \/ /\ st[c] \in {"synrcvd", "closing"} /\ C!Ack(c, <<>>)      \* completes the handshake / the client's close
     /\ hist' = Append(hist, [c |-> c, k |-> "ack", n |-> 0, psh |-> FALSE])
  \/ /\ C!Rst(c, <<>>)
     /\ hist' = Append(hist, [c |-> c, k |-> "rst", n |-> 0, psh |-> FALSE])
  \/ \E n \in Lens, p \in BOOLEAN :
       /\ st[c] = "estab" /\ rcvd[c] < 3000
       /\ C!Data(c, n, Ideal(c, <<"ACK">>, 1 + rcvd[c] + n))
       /\ hist' = Append(hist, [c |-> c, k |-> "data", n |-> n, psh |-> p])
  \/ \E n \in {0, 3} :
       /\ st[c] = "estab"
       /\ C!Fin(c, n, Ideal(c, <<"FIN", "ACK">>, 1 + rcvd[c] + n + 1))
       /\ hist' = Append(hist, [c |-> c, k |-> "fin", n |-> n, psh |-> (n > 0)])

Init == C!Init /\ hist = <<>>
Next == \/ (Len(hist) < MaxFrames /\ \E c \in MCConns : Step(c))
        \/ (Len(hist) >= 2 /\ PrintT(<<"SCN", ToJson([frames |-> hist])>>) /\ UNCHANGED <<st, rcvd, finSeen, lastSeq, hist>>)
Spec == Init /\ [][Next]_<<st, rcvd, finSeen, lastSeq, hist>>
Inv == C!TypeOK
=============================================================================
