SPECIFICATION GenSpec
VIEW View
INVARIANT InBounds
PROPERTIES NoProgressOnError ErrorSticky AdvanceExact
CHECK_DEADLOCK FALSE
