SPECIFICATION Spec
CONSTANT Devs = {}
CONSTANT DLines = 4
INVARIANTS AllKept SizeOK NamesDistinct
PROPERTIES NoOverwrite EventuallyFlushed
CHECK_DEADLOCK FALSE
