----------------------------- MODULE MC_Ports -----------------------------
(* C19: configurations for Ports; design check and generation.  A behaviour builds a
   configuration entry by entry (so that -simulate samples the large space), then emits
   it together with what the specification says is listened on and reached.          *)
EXTENDS Integers, Sequences, SequencesExt, FiniteSets, TLC, Json
CONSTANTS NEntries, MaxPorts, Sim
VARIABLES cfg, done

MCDefined == {"s1", "s2"}
P == INSTANCE Ports WITH Defined <- MCDefined

PS(text, slashes, proto, host, hasPort, num) ==
  [text |-> text, slashes |-> slashes, proto |-> proto, host |-> host, hasPort |-> hasPort, num |-> num]
Strings == {
  PS("tcp/80", 1, "tcp", "", TRUE, 80),          PS("udp/80", 1, "udp", "", TRUE, 80),
  PS("tcp/81", 1, "tcp", "", TRUE, 81),          PS("tcp/10.0.0.1:80", 1, "tcp", "10.0.0.1", TRUE, 80),
  PS("tcp/10.0.0.2:80", 1, "tcp", "10.0.0.2", TRUE, 80), PS("udp/10.0.0.1:80", 1, "udp", "10.0.0.1", TRUE, 80),
  PS("tcp/:80", 1, "tcp", "", TRUE, 80),         PS("tcp/[::1]:80", 1, "tcp", "::1", TRUE, 80),
  PS("tcp/0", 1, "tcp", "", TRUE, 0),            PS("tcp/65535", 1, "tcp", "", TRUE, 65535),
  PS("tcp/65536", 1, "tcp", "", TRUE, 65536),    PS("tcp/-1", 1, "tcp", "", TRUE, -1),
  PS("tcp/+80", 1, "tcp", "", TRUE, -1),         PS("tcp80", 0, "tcp80", "", FALSE, -1),
  PS("tcp/80/81", 2, "tcp", "", TRUE, -1),       PS("TCP/80", 1, "TCP", "", TRUE, 80),
  PS("icmp/80", 1, "icmp", "", TRUE, 80),        PS("/80", 1, "", "", TRUE, 80),
  PS("tcp/", 1, "tcp", "", FALSE, -1),           PS("tcp/10.0.0.1", 1, "tcp", "10.0.0.1", FALSE, -1),
  PS("tcp/http", 1, "tcp", "", TRUE, -1) }

SvcLists == { <<>>, <<"s1">>, <<"s2">>, <<"s1", "s2">>, <<"s2", "s1">>, <<"nosuch">>, <<"nosuch", "s2">>,
              <<"s1", "nosuch">>, <<"s1", "s1">>, <<"nosuch", "other">> }
PortsLists == { <<>> } \cup { <<a>> : a \in Strings }
              \cup (IF MaxPorts >= 2 THEN { <<a, b>> : a \in Strings, b \in Strings } ELSE {})
Entries == { [port |-> p, hasPorts |-> h, ports |-> q, svcs |-> l] :
             p \in { <<a>> : a \in Strings } \cup { <<>> }, h \in BOOLEAN, q \in PortsLists, l \in SvcLists }
           \ { e \in [port : {<<>>}, hasPorts : {FALSE}, ports : PortsLists \ {<<>>}, svcs : SvcLists] : TRUE }

Targets == { [proto |-> p, ip |-> i, port |-> q] : p \in {"tcp", "udp"}, i \in {"10.0.0.1", "10.0.0.2"}, q \in {80, 81} }
           \cup { [proto |-> "tcp", ip |-> "::1", port |-> 80], [proto |-> "tcp", ip |-> "10.0.0.1", port |-> 0],
                  [proto |-> "tcp", ip |-> "10.0.0.1", port |-> 65535] }

TSeq == SetToSeq(Targets)

Init == cfg = <<>> /\ done = FALSE
\* -simulate computes all successors of a state before picking one; with two-string ports lists the
\* entry space has 2*10^5 elements, so in simulation mode one entry is drawn component-wise instead
RandomEntry(seedless) ==     \* the argument only prevents TLC from caching a constant-level definition
  LET one == RandomElement({ <<a>> : a \in Strings })
      n   == RandomElement(0..2)
      q   == IF n = 0 THEN <<>> ELSE IF n = 1 THEN RandomElement({ <<a>> : a \in Strings })
             ELSE RandomElement({ <<a>> : a \in Strings }) \o RandomElement({ <<a>> : a \in Strings })
      shape == RandomElement(1..3)   \* 1: port only, 2: ports only, 3: both
  IN [port |-> IF shape = 2 THEN <<>> ELSE one, hasPorts |-> shape # 1,
      ports |-> IF shape = 1 THEN <<>> ELSE q, svcs |-> RandomElement(SvcLists)]

AddEntry == /\ ~done /\ Len(cfg) < NEntries
            /\ IF Sim THEN cfg' = Append(cfg, RandomEntry(cfg))
                      ELSE \E e \in Entries : cfg' = Append(cfg, e)
            /\ UNCHANGED done
Emit == /\ ~done /\ Len(cfg) >= (IF Sim THEN NEntries ELSE 1)
        /\ PrintT(<<"SCN", ToJson([cfg |-> cfg, listened |-> P!Listened(cfg),
                                   reach |-> [i \in 1..Len(TSeq) |-> P!Reach(cfg, TSeq[i])],
                                   targets |-> TSeq])>>)
        /\ done' = TRUE /\ UNCHANGED cfg
Next == AddEntry \/ Emit
Spec == Init /\ [][Next]_<<cfg, done>>

Inv == P!ListenedExactly(cfg) /\ P!ReachUnique(cfg, Targets)
=============================================================================
