---------------------------- MODULE MC_AgentConn ----------------------------
(* Design check of the reader/receiver protocol of one agent connection, and generation of schedules:
   every data message and the end of the stream is tagged with where the reader was when it arrived
   ("gap": between releasing the lock and starting to wait; "waiting"; "idle": in the service).  The harness
   can put the real reader into the gap (hook agent.VerifReadGap) or let it wait; "idle" arrivals are
   covered by the pipelined scenarios of AgentMux.                                                    *)
EXTENDS Integers, Sequences, FiniteSets, TLC, Json
CONSTANTS MCCap, MCRecheck, MCChunks
VARIABLES buff, chan, rpc, sent, ended, read, where, done
A == INSTANCE AgentConn WITH Cap <- MCCap, NChunks <- MCChunks, Recheck <- MCRecheck
vars == <<buff, chan, rpc, sent, ended, read, where, done>>
Init == A!Init /\ where = <<>> /\ done = FALSE
Tag == IF rpc \in {"gap"} THEN "gap" ELSE IF rpc \in {"waiting"} THEN "waiting" ELSE "other"
Next == \/ (A!ReadCheck \/ A!ReadWait \/ A!ReadWoken \/ A!ReadEof) /\ UNCHANGED <<where, done>>
        \/ A!Receive /\ where' = Append(where, [m |-> "data", at |-> Tag]) /\ UNCHANGED done
        \/ A!End /\ where' = Append(where, [m |-> "end", at |-> Tag]) /\ UNCHANGED done
        \/ /\ ended /\ rpc = "eof" /\ ~done /\ done' = TRUE
           /\ (\A i \in 1..Len(where) : where[i].at # "other")
           /\ PrintT(<<"SCN", ToJson([arrivals |-> where])>>)
           /\ UNCHANGED <<buff, chan, rpc, sent, ended, read, where>>
Spec == Init /\ [][Next]_vars /\ WF_(A!vars)(A!ReadCheck) /\ WF_(A!vars)(A!ReadWait) /\ WF_(A!vars)(A!ReadWoken) /\ WF_(A!vars)(A!ReadEof)
NoStall == A!NoStall
InOrder == A!InOrder
NoLoss == A!NoLoss
Delivered == A!Delivered
=============================================================================
