--------------------------- MODULE AgentConnProof ---------------------------
(* The counter abstraction of AgentConn.tla (see AgentConnInd.tla) with a notification channel of
   capacity one, and a machine-checked proof (TLAPS) that the reader never sleeps on buffered bytes
   and that nothing received is lost or invented - for any number of messages.                       *)
EXTENDS Integers, TLAPS

VARIABLES buffN, chan, rpc, sent, ended, readN
vars == <<buffN, chan, rpc, sent, ended, readN>>

States == {"idle", "gap", "waiting", "woken", "eof"}

Init == buffN = 0 /\ chan = 0 /\ rpc = "idle" /\ sent = 0 /\ ended = FALSE /\ readN = 0

ReadCheck == /\ rpc = "idle"
             /\ IF buffN > 0 THEN readN' = readN + buffN /\ buffN' = 0 /\ rpc' = rpc
                ELSE rpc' = "gap" /\ buffN' = buffN /\ readN' = readN
             /\ UNCHANGED <<chan, sent, ended>>
ReadWait == /\ rpc = "gap"
            /\ IF chan > 0 THEN chan' = chan - 1 /\ rpc' = "woken"
               ELSE IF ended THEN chan' = chan /\ rpc' = "eof"
               ELSE chan' = chan /\ rpc' = "waiting"
            /\ UNCHANGED <<buffN, sent, ended, readN>>
ReadWoken == /\ rpc = "woken"
             /\ readN' = readN + buffN /\ buffN' = 0 /\ rpc' = "idle"
             /\ UNCHANGED <<chan, sent, ended>>
Receive == /\ ~ended
           /\ sent' = sent + 1 /\ buffN' = buffN + 1
           /\ IF rpc = "waiting" THEN rpc' = "woken" /\ chan' = chan
              ELSE IF chan < 1 THEN chan' = chan + 1 /\ rpc' = rpc
              ELSE chan' = chan /\ rpc' = rpc
           /\ UNCHANGED <<ended, readN>>
End == /\ ~ended /\ ended' = TRUE
       /\ rpc' = (IF rpc = "waiting" THEN "eof" ELSE rpc)
       /\ UNCHANGED <<buffN, chan, sent, readN>>
Next == ReadCheck \/ ReadWait \/ ReadWoken \/ Receive \/ End
Spec == Init /\ [][Next]_vars

NoStall == ~(rpc = "waiting" /\ buffN > 0)
Conserved == sent = readN + buffN

IndInv == /\ rpc \in States /\ chan \in {0, 1} /\ ended \in BOOLEAN
          /\ buffN \in Nat /\ readN \in Nat /\ sent \in Nat /\ Conserved
          /\ (rpc = "waiting" => buffN = 0)
          /\ ((rpc = "gap" /\ chan = 0) => buffN = 0)

THEOREM Safe == Spec => [](NoStall /\ Conserved)
<1>1. Init => IndInv
  BY DEF Init, IndInv, States, Conserved
<1>2. IndInv /\ [Next]_vars => IndInv'
  <2> SUFFICES ASSUME IndInv, [Next]_vars PROVE IndInv'
    OBVIOUS
  <2>1. CASE ReadCheck
    BY <2>1 DEF ReadCheck, IndInv, States, Conserved
  <2>2. CASE ReadWait
    BY <2>2 DEF ReadWait, IndInv, States, Conserved
  <2>3. CASE ReadWoken
    BY <2>3 DEF ReadWoken, IndInv, States, Conserved
  <2>4. CASE Receive
    BY <2>4 DEF Receive, IndInv, States, Conserved
  <2>5. CASE End
    BY <2>5 DEF End, IndInv, States, Conserved
  <2>6. CASE UNCHANGED vars
    BY <2>6 DEF vars, IndInv, States, Conserved
  <2> QED BY <2>1, <2>2, <2>3, <2>4, <2>5, <2>6 DEF Next
<1>3. IndInv => NoStall /\ Conserved
  BY DEF IndInv, NoStall
<1> QED BY <1>1, <1>2, <1>3, PTL DEF Spec
=============================================================================
